----------------------------- MODULE MCAsyncIo -----------------------------
(* Model-checking shell for AsyncIo.tla: the topologies (who uses which adapter) and scenario printing.      *)
(*                                                                                                          *)
(*  two     both ends of the socket pair are adapted (the common use, as in the crate's own tests):          *)
(*          task W writes through the adapter of end 1, task R reads through the adapter of end 2           *)
(*  solo    end 1 is adapted and used by ONE task S that awaits one operation at a time (read, write,       *)
(*          readable, writable in any order); the peer (the driver) owns end 2                              *)
(*  split   end 1 is adapted and used by a reader task R and a writer task W at the same time (full duplex   *)
(*          on one adapter: futures' split(), Rc<RefCell<..>>); the peer owns end 2                         *)
(*  join    the same with Join = TRUE: ONE task polls both directions (a hand-written proxy loop, join!,    *)
(*          select!): one waker for both branches                                                           *)
(*  handoff two tasks A and B use the adapter of end 1 one after the other for the same direction: a pending   *)
(*          operation of one is ABANDONED (future dropped) and the other one then waits for that direction --  *)
(*          the waker of the direction is replaced (never both at once: one waker per direction)             *)
(*  (before commit 0061559 the adapter had one waker slot: split and join lost wake-ups or span; that       *)
(*  behaviour is the variant "single_waker", mc/asyncio_var_single_*.cfg)                                   *)
EXTENDS AsyncIo, Json

S01 == {0, 1}

TasksRW   == {"R", "W"}
TasksSolo == {"S"}
AdTwo     == [t \in TasksRW |-> IF t = "R" THEN 2 ELSE 1]
AdOne     == [t \in TasksRW |-> 1]
AdSolo    == [t \in TasksSolo |-> 1]
KindsRW   == [t \in TasksRW |-> IF t = "R" THEN {"read", "readable"} ELSE {"write", "writable"}]
KindsSolo == [t \in TasksSolo |-> {"read", "write", "readable", "writable"}]
TasksAB   == {"A", "B"}
AdAB      == [t \in TasksAB |-> 1]
KindsAB   == [t \in TasksAB |-> {"read", "write", "readable", "writable"}]
BothEnds  == {1, 2}
End1      == {1}

\* scenario extraction: the controllable steps, the scripts the tasks chose and the bytes that were written, printed for
\* every complete behaviour (exhaustive mode: each distinct history is a distinct state; simulation: one line per walk)
PrintScn == Done => PrintT(<<"SCN", ToJson([steps |-> hist, scripts |-> script, sent |-> st.sent,
                                            nb0 |-> [f \in Fds |-> IF st.base[f] THEN 1 ELSE 0]])>>)
=============================================================================
