----------------------------- MODULE PingProto -----------------------------
(***************************************************************************)
(* The eventfd ping protocol (sources/ping/eventfd.rs) at the granularity  *)
(* of every eventfd write / read and handle drop, with k pinging threads   *)
(* against a dispatching loop.                                             *)
(*                                                                         *)
(* One action = the code a thread executes from one yield point to the     *)
(* next (the yield points are the `calloop::verif::yield_point` labels     *)
(* compiled into the crate: ping.write.before/after, ping.close.before,    *)
(* ping.drain.before/after, loop.wait.before/after, plus user.cb inside    *)
(* the callback).  A behaviour is therefore a *schedule* that the step     *)
(* scheduler of the harness can replay on real threads and real eventfds;  *)
(* the events emitted here are exactly the events drive_sched logs.        *)
(*                                                                         *)
(* eventfd: Ping::ping adds 2 (EAGAIN at the cap is ignored), the drop of  *)
(* the last handle adds 1; the source reads the counter once per event     *)
(* (which resets it), calls back iff (counter & ~1) # 0 and returns Remove *)
(* iff the low bit is set.  The source is level-triggered on the eventfd.  *)
(***************************************************************************)
EXTENDS ConcContract, SequencesExt

CONSTANTS Scripts,     \* [tid -> sequence of "ping" | "clone" | "drop"]   (worker threads 1..n)
          NDisp,       \* scripted dispatches of the loop thread (then it sits at the barrier)
          Variants,    \* deliberately wrong behaviours (non-vacuity)
          RecordHist

T == DOMAIN Scripts
Loop == 0

VARIABLES counter, total, held, pc, ip, lpc, lready, lval, ldisp, registered, finished, mon, hist, sched,
          unseen,    \* ghost: completed ping writes that no read of the eventfd has covered yet
          drained,   \* ghost: value of `unseen` at the last read
          markers    \* ghost: close markers written so far
vars == <<counter, total, held, pc, ip, lpc, lready, lval, ldisp, registered, finished, mon, hist, sched, unseen, drained, markers>>
\* the protocol state without the observation variables (used as VIEW by the larger configurations)
ProtoView == <<counter, total, held, pc, ip, lpc, lready, lval, ldisp, registered, finished, unseen, drained, markers>>

Feed(m, evs) == FoldLeft(LAMBDA acc, e : CStep(acc, e, 0), m, evs)
Emit(evs, t) == /\ mon' = Feed(mon, evs)
                /\ hist' = IF RecordHist THEN hist \o evs ELSE hist
                /\ sched' = IF RecordHist THEN Append(sched, t) ELSE sched

Y(t, l) == [e |-> "y", t |-> t, l |-> l]
Call(t, n, op) == [e |-> "call", t |-> t, n |-> n, op |-> op, f |-> 0]
Ret(t, n, op, r) == [e |-> "ret", t |-> t, n |-> n, op |-> op, r |-> r, m |-> 0]

ResetEv == [e |-> "reset", id |-> "model", kind |-> "ping", cap |-> -1, limit |-> 1024,
            threads |-> [t \in {ToString(x) : x \in T} |-> Scripts[CHOOSE x \in T : ToString(x) = t]],
            loop |-> [i \in 1..NDisp |-> "dispatch"]]

(***************************************************************************)
(* A worker runs from its current position to its next yield point:        *)
(* `clone` and the drop of a handle that is not the last one have no yield *)
(* point.  Result: [ip, held, total, evs, pc]                              *)
(***************************************************************************)
RECURSIVE RunTo(_, _, _, _, _)
RunTo(t, i, h, tot, evs) ==
  IF i > Len(Scripts[t]) THEN [ip |-> i, held |-> h, total |-> tot, evs |-> evs, pc |-> "done"]
  ELSE LET op == Scripts[t][i] n == i - 1 IN
       CASE op = "ping" ->
              IF h = 0 THEN RunTo(t, i + 1, h, tot, evs \o <<Call(t, n, op), Ret(t, n, op, "nohandle")>>)
              ELSE [ip |-> i, held |-> h, total |-> tot, evs |-> evs \o <<Call(t, n, op), Y(t, "ping.write.before")>>, pc |-> "wbefore"]
         [] op = "clone" ->
              IF h = 0 THEN RunTo(t, i + 1, h, tot, evs \o <<Call(t, n, op), Ret(t, n, op, "nohandle")>>)
              ELSE RunTo(t, i + 1, h + 1, tot + 1, evs \o <<Call(t, n, op), Ret(t, n, op, "ok")>>)
         [] OTHER -> \* drop
              IF h = 0 THEN RunTo(t, i + 1, h, tot, evs \o <<Call(t, n, op), Ret(t, n, op, "nohandle")>>)
              ELSE IF tot = 1 \/ "close_marker_per_handle" \in Variants
                   THEN [ip |-> i, held |-> h, total |-> tot, evs |-> evs \o <<Call(t, n, op), Y(t, "ping.close.before")>>, pc |-> "cbefore"]
                   ELSE RunTo(t, i + 1, h - 1, tot - 1, evs \o <<Call(t, n, op), Ret(t, n, op, "ok")>>)

Init ==
  /\ counter = 0 /\ total = Cardinality(T) /\ held = [t \in T |-> 1]
  /\ pc = [t \in T |-> "start"] /\ ip = [t \in T |-> 1]
  /\ lpc = "start" /\ lready = FALSE /\ lval = 0 /\ ldisp = 0 /\ registered = TRUE /\ finished = FALSE
  /\ mon = Feed(CEmpty, <<ResetEv>> \o [i \in 1..(Cardinality(T) + 1) |-> Y(0, "start")])
  /\ hist = IF RecordHist THEN <<ResetEv>> ELSE <<>>
  /\ sched = <<>>
  /\ unseen = 0 /\ drained = 0 /\ markers = 0

Apply(t, r) == /\ ip' = [ip EXCEPT ![t] = r.ip] /\ held' = [held EXCEPT ![t] = r.held]
               /\ total' = r.total /\ pc' = [pc EXCEPT ![t] = r.pc]

WorkerStep(t) ==
  /\ pc[t] # "done"
  /\ CASE pc[t] = "start" ->
            LET r == RunTo(t, ip[t], held[t], total, <<>>) IN
            /\ Apply(t, r) /\ counter' = counter /\ Emit(r.evs, t) /\ UNCHANGED <<unseen, markers>>
       [] pc[t] = "wbefore" ->
            \* the eventfd write of Ping::ping
            /\ counter' = IF counter + 2 > 6 THEN counter ELSE counter + 2
            /\ pc' = [pc EXCEPT ![t] = "wafter"] /\ UNCHANGED <<ip, held, total>>
            /\ Emit(<<Y(t, "ping.write.after")>>, t)
            /\ unseen' = (IF unseen < 3 THEN unseen + 1 ELSE unseen) /\ markers' = markers
       [] pc[t] = "wafter" ->
            LET r == RunTo(t, ip[t] + 1, held[t], total, <<Ret(t, ip[t] - 1, "ping", "ok")>>) IN
            /\ Apply(t, r) /\ counter' = counter /\ Emit(r.evs, t) /\ UNCHANGED <<unseen, markers>>
       [] OTHER -> \* "cbefore": FlagOnDrop::drop writes the close marker; no yield point after it
            LET r == RunTo(t, ip[t] + 1, held[t] - 1, total - 1, <<Ret(t, ip[t] - 1, "drop", "ok")>>) IN
            /\ Apply(t, r) /\ counter' = counter + 1 /\ Emit(r.evs, t)
            /\ markers' = markers + 1 /\ unseen' = unseen
  /\ UNCHANGED <<lpc, lready, lval, ldisp, registered, finished, drained>>

\* the loop thread returns from a dispatch and starts the next one, or reaches the barrier
AfterDispatch(evs) ==
  LET done == evs \o <<[e |-> "lret", op |-> "dispatch", k |-> ldisp - 1, r |-> "ok"]>> IN
  IF ldisp < NDisp
  THEN /\ lpc' = "wait_before" /\ ldisp' = ldisp + 1
       /\ Emit(done \o <<[e |-> "lcall", op |-> "dispatch", k |-> ldisp, f |-> 0], Y(0, "loop.wait.before")>>, Loop)
  ELSE /\ lpc' = "barrier" /\ ldisp' = ldisp
       /\ Emit(done \o <<Y(0, "barrier")>>, Loop)

LoopStep ==
  /\ lpc \notin {"barrier", "done"}
  /\ CASE lpc = "start" ->
            IF NDisp = 0 THEN /\ lpc' = "barrier" /\ Emit(<<Y(0, "barrier")>>, Loop) /\ UNCHANGED <<ldisp, lready, lval, counter, registered>>
            ELSE /\ lpc' = "wait_before" /\ ldisp' = 1
                 /\ Emit(<<[e |-> "lcall", op |-> "dispatch", k |-> 0, f |-> 0], Y(0, "loop.wait.before")>>, Loop)
                 /\ UNCHANGED <<lready, lval, counter, registered>>
       [] lpc = "wait_before" ->
            \* epoll_wait(0): the eventfd is level-triggered readable while its counter is non-zero
            /\ lready' = (registered /\ counter > 0) /\ lpc' = "wait_after"
            /\ Emit(<<Y(0, "loop.wait.after")>>, Loop) /\ UNCHANGED <<ldisp, lval, counter, registered>>
       [] lpc = "wait_after" ->
            IF lready
            THEN /\ lpc' = "drain_before" /\ Emit(<<Y(0, "ping.drain.before")>>, Loop)
                 /\ UNCHANGED <<ldisp, lready, lval, counter, registered>>
            ELSE AfterDispatch(<<>>) /\ UNCHANGED <<lready, lval, counter, registered>>
       [] lpc = "drain_before" ->
            \* read(eventfd): returns the counter and resets it
            /\ lval' = counter /\ counter' = IF "no_reset_on_read" \in Variants THEN counter ELSE 0
            /\ lpc' = "drain_after"
            /\ Emit(<<Y(0, "ping.drain.after")>>, Loop) /\ UNCHANGED <<ldisp, lready, registered>>
            /\ drained' = unseen /\ unseen' = 0
       [] lpc = "drain_after" ->
            IF lval >= 2
            THEN /\ lpc' = "user_cb" /\ Emit(<<[e |-> "cb", p |-> 0], Y(0, "user.cb")>>, Loop)
                 /\ UNCHANGED <<ldisp, lready, lval, counter, registered>>
            ELSE /\ registered' = IF lval % 2 = 1 THEN FALSE ELSE registered
                 /\ AfterDispatch(<<>>) /\ UNCHANGED <<lready, lval, counter>>
       [] OTHER -> \* "user_cb": the callback returns; Remove iff the close marker was read
            /\ registered' = IF lval % 2 = 1 /\ "continue_on_close" \notin Variants THEN FALSE ELSE registered
            /\ AfterDispatch(<<>>) /\ UNCHANGED <<lready, lval, counter>>
  /\ IF lpc = "drain_before" THEN TRUE ELSE UNCHANGED <<unseen, drained>>
  /\ UNCHANGED <<total, held, pc, ip, finished, markers>>

\* once every worker is done: the final dispatches (not interleaved with anything), the idle wait and the snapshot
RECURSIVE FinalDispatches(_, _, _, _, _)
FinalDispatches(n, k, c, reg, evs) ==
  IF n = 0 THEN [c |-> c, reg |-> reg, evs |-> evs, k |-> k]
  ELSE LET fire == reg /\ c > 0
           cbs == IF fire /\ c >= 2 THEN <<[e |-> "cb", p |-> 0]>> ELSE <<>>
           c2 == IF fire /\ "no_reset_on_read" \notin Variants THEN 0 ELSE c
           reg2 == IF fire /\ c % 2 = 1 /\ "continue_on_close" \notin Variants THEN FALSE ELSE reg
       IN FinalDispatches(n - 1, k + 1, c2, reg2,
             evs \o <<[e |-> "lcall", op |-> "dispatch", k |-> k, f |-> 0]>> \o cbs \o <<[e |-> "lret", op |-> "dispatch", k |-> k, r |-> "ok"]>>)

Final ==
  /\ ~finished /\ lpc = "barrier" /\ \A t \in T : pc[t] = "done"
  /\ LET r == FinalDispatches(3, ldisp, counter, registered, <<>>)
         spin == r.reg /\ r.c > 0      \* something still readable: the timed dispatch returns at once
     IN /\ counter' = r.c /\ registered' = r.reg /\ finished' = TRUE /\ lpc' = "done"
        /\ Emit(r.evs \o <<[e |-> "lcall", op |-> "idle_wait", k |-> r.k, f |-> 0],
                          [e |-> "lret", op |-> "idle_wait", k |-> r.k, r |-> "ok",
                           elapsed_us |-> IF spin THEN 0 ELSE 4000, timeout_us |-> 4000],
                          [e |-> "lcall", op |-> "snap", k |-> r.k + 1, f |-> 0],
                          [e |-> "lret", op |-> "snap", k |-> r.k + 1, r |-> "ok", occupied |-> IF r.reg THEN 1 ELSE 0],
                          [e |-> "loop_done"], [e |-> "end", id |-> "model", stuck |-> 0, loop_ok |-> 1]>>, Loop)
  /\ UNCHANGED <<total, held, pc, ip, lready, lval, ldisp, drained, markers>>
  /\ unseen' = 0

Next == (\E t \in T : WorkerStep(t)) \/ LoopStep \/ Final
Spec == Init /\ [][Next]_vars

Inv_C03 == {v \in mon.viol : v.p = "C03"} = {}
(***************************************************************************)
(* The same property as state invariants of the protocol (no observation   *)
(* variables: usable with VIEW ProtoView on larger configurations).        *)
(***************************************************************************)
\* a completed write that no read has covered keeps the eventfd readable: the wake-up cannot be lost
WakeKept == (registered /\ unseen > 0) => counter >= 2
\* the callback runs only when the read covered at least one ping
NoSpuriousCallback == (lpc = "user_cb") => drained > 0
\* and it does run when the read covered one
NoSwallowedPing == (lpc = "drain_after" /\ drained > 0) => lval >= 2
\* at quiescence: nothing pending, the source is gone iff all handles are gone
Quiescent == finished => /\ (total = 0 <=> ~registered)
                         /\ (registered => counter = 0)
SInv_C03 == WakeKept /\ NoSpuriousCallback /\ NoSwallowedPing /\ markers <= 1 /\ Quiescent
\* end-to-end form (used to obtain *complete* counterexample schedules from the variants)
EndInv == finished => (Inv_C03 /\ Quiescent)
Done == finished
=============================================================================
