------------------------------- MODULE Timeout -------------------------------
(***************************************************************************)
(* C12 -- EventLoop::dispatch(timeout) waits exactly as long as it should: *)
(* no spinning, no oversleeping.                                           *)
(*                                                                         *)
(* WHAT THIS MODULE CONTRIBUTES (and what it does not)                     *)
(*  1. the CONFIGURATION SPACE of the property's quantifier: timeout in    *)
(*     {0, S, L, None} x sets of timers (already expired, < S, = S,        *)
(*     between S and L, = L, > L, unrepresentably far) x sets of idle      *)
(*     sources of every kind (including sources whose handles / senders    *)
(*     are all gone) x an optional external wake-up x an optional EINTR;   *)
(*  2. the ORACLE, a declarative function of a configuration:              *)
(*     SpecWait (the effective wait W = Min over the candidates, None =    *)
(*     Infinity), SpecFire (the timers that must fire in this dispatch),   *)
(*     SpecCbs / SpecRemoved (one-off events that must be delivered, the   *)
(*     sources that must go away) and SpecAfter (the configuration the     *)
(*     SECOND dispatch sees: it must block again);                         *)
(*  3. an IMPLEMENTATION-SHAPED model of one dispatch, one action per step *)
(*     of the code (dispatch_events' before_sleep loop, Poll::poll's       *)
(*     `timeout.min / or / saturating_duration_since`, polling's wait with *)
(*     its EINTR loop, the `while next_expired(now)` pop, process_events   *)
(*     of each source), with a `Variants` switch for plausible mistakes;   *)
(*     TLC checks EXHAUSTIVELY (Inv_C12) that the code-shaped computation  *)
(*     equals the oracle for every configuration.                          *)
(* The same operators (2) are evaluated by TimeoutTrace.tla on records     *)
(* measured on the real crate by harness/src/bin/drive_timeout.rs.  The    *)
(* measurement itself is ordinary wall-clock timing (std::time::Instant):  *)
(* TLA+ supplies the configurations and the expected values, not the clock.*)
(*                                                                         *)
(* Time is an integer (milliseconds in the model, microseconds in the      *)
(* trace specification: the operators are unit-agnostic).  `Inf` stands    *)
(* for "never" (timeout None, a timer that is not armed, no wake-up).      *)
(***************************************************************************)
EXTENDS Integers, Sequences, FiniteSets, TLC, Json

CONSTANTS
  S, L,        \* the short and the long timeout                     (default 30, 300)
  DNeg,        \* an already expired timer: its deadline is DNeg ago   (5)
  DLt,         \* a deadline earlier than S                          (10)
  DMid,        \* a deadline between S and L                         (100)
  DGt,         \* a deadline later than L                            (400)
  Wk,          \* when the external wake-up happens (helper thread)  (60)
  Ik,          \* when the wait is interrupted by a signal (EINTR)   (15)
  B,           \* how long the before_sleep hook of "life_slow" takes (50)
  Space,       \* "replay": timer sets of <= 2 timers + the full set, source sets {} / singletons / all
               \* "full"  : every subset of the timers x every subset of the sources (model checking only)
  Variants     \* deliberately wrong behaviours (non-vacuity), {} = the code as it is in /repo:
               \*   "max_instead_of_min"      Poll::poll: timeout.max(next_timeout)
               \*   "none_ignores_timers"     Poll::poll: `_ => timeout` instead of `timeout.or(next_timeout)`
               \*   "synthetic_not_forced"    dispatch_events: a synthetic event does not force timeout = 0
               \*   "pop_strict"              TimerWheel::next_expired: `now > deadline` instead of `now >= deadline`
               \*   "eintr_restarts_timeout"  the wait restarts with the full timeout after EINTR
               \*   "far_saturates_to_now"    an unrepresentable deadline is armed as `now` instead of not at all
               \*   "disabled_still_polled"   disable() leaves the fd in the poller
               \*   "closed_ping_stays"       a ping whose handles are gone stays readable and registered (pipe-EOF style)
               \*   "chan_closed_renotifies"  the channel re-pings itself after Closed instead of removing itself
               \*   "deadline_from_dispatch_start"  Poll::poll turns the next deadline into a wait with the clock value read at
               \*                             the start of the dispatch, i.e. before the before_sleep hooks ran

Inf == 1000000000

ASSUME /\ 0 < DLt /\ DLt < S /\ S < DMid /\ DMid < L /\ L < DGt /\ DGt < Inf /\ DNeg > 0
       /\ Wk \notin {0, DLt, S, DMid, L, DGt} /\ 0 < Ik /\ Ik < DLt
       /\ B \notin {0, DLt, S, DMid, L, DGt, Wk} /\ S < B /\ B < DMid

MinOf(X) == CHOOSE x \in X : \A y \in X : x <= y
Min2(a, b) == IF a <= b THEN a ELSE b
Max2(a, b) == IF a >= b THEN a ELSE b

(***************************************************************************)
(* Names                                                                   *)
(***************************************************************************)
TimerNames  == {"neg", "lt", "eqS", "mid", "eqL", "gt", "far"}
D(n) == CASE n = "neg" -> 0 - DNeg [] n = "lt" -> DLt [] n = "eqS" -> S [] n = "mid" -> DMid
          [] n = "eqL" -> L [] n = "gt" -> DGt [] n = "far" -> Inf

SourceNames == {"ping_live",      \* idle ping, its Ping handle is alive
                "ping_closed",    \* ping whose handles are all gone: close marker pending -> one wake-up, no callback, removed
                "chan_closed",    \* channel whose senders are gone: Event::Closed pending -> one callback, removed
                "exec_idle",      \* executor whose only future is pending
                "gen_idle",       \* Generic on a pipe with nothing to read
                "gen_disabled",   \* Generic on a readable pipe, disabled
                "life_synth",     \* lifecycle source whose before_sleep returns one synthetic event
                "life_slow"}      \* lifecycle source whose before_sleep takes B (first dispatch only) and returns None
\* sources that have exactly one event pending: the dispatch returns at once, and they must not keep the loop spinning
OneOff   == {"ping_closed", "chan_closed", "life_synth"}
\* ... and of those, the ones that remove themselves
SelfGone == {"ping_closed", "chan_closed"}

(***************************************************************************)
(* THE ORACLE.  q = [to, tm, src, wk, wake]:                               *)
(*   to    timeout (Inf = None)                                            *)
(*   tm    function timer name -> deadline relative to the start (Inf =    *)
(*         unrepresentable: never armed)                                   *)
(*   src   set of source names                                             *)
(*   wk    time of the external wake-up (Inf = none)                       *)
(*   wake  "none" / "signal" (LoopSignal::wakeup) / "ping" (Ping::ping)    *)
(*   bs    when the before_sleep hooks are over (0 = they take no time):   *)
(*         the timeout counts from then, the timer deadlines do not move   *)
(***************************************************************************)
Armed(q)   == {n \in DOMAIN q.tm : q.tm[n] # Inf}
Rel(d)     == IF d < 0 THEN 0 ELSE d
Pending(q) == q.src \cap OneOff # {}

\* W: how long the dispatch waits
SpecWait(q) ==
  Max2(q.bs, MinOf({IF q.to = Inf THEN Inf ELSE q.to + q.bs, q.wk} \cup {Rel(q.tm[n]) : n \in Armed(q)} \cup (IF Pending(q) THEN {0} ELSE {})))

\* the timers that must fire in this dispatch: the limit, and everything due no later than the limit
SpecFire(q) == {n \in Armed(q) : q.tm[n] <= SpecWait(q)}

\* the source callbacks that must run in this dispatch
SpecCbs(q) ==
  (IF "chan_closed" \in q.src THEN {"closed"} ELSE {})
  \cup (IF "life_synth" \in q.src THEN {"synth"} ELSE {})
  \cup (IF q.wake = "ping" /\ q.wk <= SpecWait(q) THEN {"ping"} ELSE {})

\* what leaves the loop in this dispatch (a timer's callback returns TimeoutAction::Drop)
SpecRemoved(q) == (q.src \cap SelfGone) \cup SpecFire(q)

\* the configuration seen by a dispatch(s2) that starts at time b, after `fired` have fired:
\* nothing is pending any more, the wake-up is over
SpecAfter(q, b, fired, s2) ==
  [to |-> s2,
   tm |-> [n \in DOMAIN q.tm \ fired |-> IF q.tm[n] = Inf THEN Inf ELSE q.tm[n] - b],
   src |-> q.src \ OneOff,
   wk |-> Inf, wake |-> "none", bs |-> 0]

(***************************************************************************)
(* The configuration space                                                 *)
(***************************************************************************)
Timeouts   == {0, S, L, Inf}
TimerSets  == IF Space = "full" THEN SUBSET TimerNames
              ELSE {T \in SUBSET TimerNames : Cardinality(T) <= 2} \cup {TimerNames}
SourceSets == IF Space = "full" THEN SUBSET SourceNames
              ELSE {{}} \cup {{s} : s \in SourceNames} \cup {SourceNames}
Configs ==
  {c \in [to : Timeouts, tm : TimerSets, src : SourceSets, wake : {"none", "signal", "ping"}, intr : {0, 1}] :
     /\ c.wake = "ping" => "ping_live" \in c.src
     /\ c.intr = 1 => c.wake = "none" /\ (Space = "full" \/ c.src \in {{}, SourceNames})}

Q(c) == [to |-> c.to, tm |-> [n \in c.tm |-> D(n)], src |-> c.src,
         wk |-> IF c.wake = "none" THEN Inf ELSE Wk, wake |-> c.wake, bs |-> IF "life_slow" \in c.src THEN B ELSE 0]

(***************************************************************************)
(* THE CODE-SHAPED MODEL of two consecutive dispatches:                    *)
(*     dispatch(c.to)  then  dispatch(Some(S)).                            *)
(* Option<Duration> is a sequence of length <= 1.                          *)
(***************************************************************************)
None      == <<>>
Some(v)   == <<v>>
IsSome(o) == o # <<>>
Opt(t)    == IF t = Inf THEN None ELSE Some(t)
SatSub(d, t) == IF d > t THEN d - t ELSE 0              \* Instant::saturating_duration_since

VARIABLES
  c,        \* the configuration
  pc,       \* "before_sleep" -> "poll_compute" -> "wait" -> "pop" -> "process" (twice) -> "done";  "blocked" = waits forever
  k,        \* 1 / 2: which dispatch
  now,      \* the clock
  start,    \* when the current dispatch started
  to,       \* dispatch_events' `timeout` variable
  synth,    \* self.synthetic_events
  heap,     \* TimerWheel: function timer name -> deadline
  polled,   \* sources whose fd is registered in the poller
  cnt,      \* eventfd counters of the ping-based sources (ping: +2, close marker: +1)
  bsn,      \* number of before_sleep rounds so far
  eff,      \* the timeout handed to poller.wait
  dl,       \* polling's deadline = Instant::now().checked_add(timeout)
  evs,      \* the batch: names of ready sources and expired timers
  wakeAt,   \* pending external wake-up
  intrAt,   \* pending EINTR
  out       \* per dispatch: [start, end, fired, cbs, removed]
vars == <<c, pc, k, now, start, to, synth, heap, polled, cnt, bsn, eff, dl, evs, wakeAt, intrAt, out>>

V(x) == x \in Variants

EventFds == {"ping_live", "ping_closed", "chan_closed", "exec_idle"}
Cnt0(s) == CASE s = "ping_closed" -> 1        \* FlagOnDrop: INCREMENT_CLOSE
             [] s = "chan_closed" -> 2        \* PingOnDrop of the last Sender: INCREMENT_PING
             [] OTHER -> 0

\* is the fd of a registered source readable (level-triggered)?
Readable(s, counters) ==
  CASE s \in EventFds     -> counters[s] > 0
    [] s = "gen_disabled" -> TRUE             \* data in the pipe (only matters if it is still polled)
    [] OTHER              -> FALSE            \* gen_idle, life_synth: nothing to read

Init ==
  /\ c \in Configs
  /\ pc = "before_sleep" /\ k = 1 /\ now = 0 /\ start = 0
  /\ to = Opt(c.to)
  /\ synth = {}
  \* Timer::register (timer.rs:155): "only register a deadline if we haven't overflowed"
  /\ heap = [n \in {m \in c.tm : D(m) # Inf \/ V("far_saturates_to_now")} |-> IF D(n) = Inf THEN 0 ELSE D(n)]
  \* LoopHandle::disable unregisters the source from the poller
  /\ polled = {s \in c.src : s # "gen_disabled" \/ V("disabled_still_polled")}
  /\ cnt = [s \in EventFds |-> Cnt0(s)]
  /\ bsn = 0 /\ eff = None /\ dl = None /\ evs = {}
  /\ wakeAt = IF c.wake = "none" THEN None ELSE Some(Wk)
  /\ intrAt = IF c.intr = 1 THEN Some(Ik) ELSE None
  /\ out = <<>>

\* loop_logic.rs dispatch_events, first block: before_sleep of every lifecycle source; a synthetic event forces timeout 0
BeforeSleep ==
  /\ pc = "before_sleep"
  /\ LET syn == "life_synth" \in c.src /\ bsn = 0          \* the harness source returns Some(..) once
     IN /\ synth' = IF syn THEN {"life_synth"} ELSE {}
        /\ to' = IF syn /\ ~V("synthetic_not_forced") THEN Some(0) ELSE to
  /\ bsn' = bsn + 1
  \* user code in a before_sleep hook takes time
  /\ now' = now + (IF "life_slow" \in c.src /\ k = 1 THEN B ELSE 0)
  /\ pc' = "poll_compute"
  /\ UNCHANGED <<c, k, start, heap, polled, cnt, eff, dl, evs, wakeAt, intrAt, out>>

\* sys.rs Poll::poll, "Adjust the timeout for the timers", then polling::Poller::wait computes its deadline
PollCompute ==
  /\ pc = "poll_compute"
  /\ LET nd == IF DOMAIN heap = {} THEN None ELSE Some(MinOf({heap[n] : n \in DOMAIN heap}))     \* next_deadline()
         nt == IF IsSome(nd) THEN Some(SatSub(nd[1], IF V("deadline_from_dispatch_start") THEN start ELSE now)) ELSE None                            \* .map(saturating_duration_since(now))
         e  == IF IsSome(to) /\ IsSome(nt)
               THEN Some(IF V("max_instead_of_min") THEN Max2(to[1], nt[1]) ELSE Min2(to[1], nt[1]))   \* timeout.min(next_timeout)
               ELSE IF V("none_ignores_timers") THEN to
               ELSE IF IsSome(to) THEN to ELSE nt                                                \* timeout.or(next_timeout)
     IN /\ eff' = e
        /\ dl' = IF IsSome(e) THEN Some(now + e[1]) ELSE None
  /\ pc' = "wait"
  /\ UNCHANGED <<c, k, now, start, to, synth, heap, polled, cnt, bsn, evs, wakeAt, intrAt, out>>

\* polling::Poller::wait_impl + epoll_wait: returns at the deadline, or as soon as a registered fd is readable, or when
\* notified; on EINTR it loops with the SAME deadline
Wait ==
  /\ pc = "wait"
  /\ LET rdy  == {s \in polled : Readable(s, cnt)}
         wk   == IF IsSome(wakeAt) THEN {Max2(wakeAt[1], now)} ELSE {}
         cand == (IF IsSome(dl) THEN {dl[1]} ELSE {}) \cup (IF rdy # {} THEN {now} ELSE {}) \cup wk
     IN IF cand = {}
        THEN pc' = "blocked" /\ UNCHANGED <<now, dl, cnt, evs, wakeAt, intrAt>>
        ELSE LET r == MinOf(cand) IN
             IF IsSome(intrAt) /\ intrAt[1] >= now /\ intrAt[1] < r
             THEN /\ now' = intrAt[1] /\ intrAt' = None
                  /\ dl' = IF V("eintr_restarts_timeout") /\ IsSome(eff) THEN Some(intrAt[1] + eff[1]) ELSE dl
                  /\ pc' = "wait"
                  /\ UNCHANGED <<cnt, evs, wakeAt>>
             ELSE LET woke == wk = {r}
                      cnt1 == IF woke /\ c.wake = "ping" THEN [cnt EXCEPT !["ping_live"] = @ + 2] ELSE cnt
                  IN /\ now' = r
                     /\ cnt' = cnt1
                     /\ wakeAt' = IF woke THEN None ELSE wakeAt
                     /\ evs' = {s \in polled : Readable(s, cnt1)}     \* (polling's own notifier key is not an event)
                     /\ pc' = "pop"
                     /\ UNCHANGED <<dl, intrAt>>
  /\ UNCHANGED <<c, k, start, to, synth, heap, polled, bsn, eff, out>>

\* sys.rs Poll::poll, after the wait: `let now = Instant::now(); while let Some(..) = timers.next_expired(now)`
Pop ==
  /\ pc = "pop"
  /\ LET ex == {n \in DOMAIN heap : IF V("pop_strict") THEN now > heap[n] ELSE now >= heap[n]}
     IN /\ heap' = [n \in DOMAIN heap \ ex |-> heap[n]]
        /\ evs' = evs \cup ex
  /\ pc' = "process"
  /\ UNCHANGED <<c, k, now, start, to, synth, polled, cnt, bsn, eff, dl, wakeAt, intrAt, out>>

\* loop_logic.rs dispatch_events, the batch: process_events of every source that has an event, post actions applied
Process ==
  /\ pc = "process"
  /\ LET fired == evs \cap TimerNames                                   \* Timer: callback(deadline) -> Drop -> Remove
         stayP == "ping_closed" \in evs /\ V("closed_ping_stays")
         stayC == "chan_closed" \in evs /\ V("chan_closed_renotifies")
         gone  == ((evs \cap SelfGone) \ (IF stayP THEN {"ping_closed"} ELSE {})) \ (IF stayC THEN {"chan_closed"} ELSE {})
         cbs   == (IF "ping_live" \in evs /\ cnt["ping_live"] >= 2 THEN {"ping"} ELSE {})      \* drain; ping bit -> callback
                  \cup (IF "chan_closed" \in evs THEN {"closed"} ELSE {})                      \* try_recv -> Disconnected
                  \cup (IF "life_synth" \in synth THEN {"synth"} ELSE {})
                  \cup (IF "gen_disabled" \in evs THEN {"gen_disabled"} ELSE {})
     IN /\ cnt' = [s \in EventFds |->
                     IF s \notin evs THEN cnt[s]
                     ELSE IF s = "ping_closed" /\ stayP THEN cnt[s]
                     ELSE IF s = "chan_closed" /\ stayC THEN 2                                 \* self.ping.ping()
                     ELSE 0]                                                                   \* drain_ping reads the counter
        /\ polled' = polled \ gone
        /\ out' = Append(out, [start |-> start, end |-> now, fired |-> fired, cbs |-> cbs, removed |-> gone \cup fired])
  /\ IF k = 1
     THEN /\ k' = 2 /\ pc' = "before_sleep" /\ start' = now
          /\ to' = Some(S)                           \* the second dispatch: a short timeout
          /\ wakeAt' = None /\ intrAt' = None        \* the helper thread is cancelled
     ELSE /\ pc' = "done" /\ UNCHANGED <<k, start, to, wakeAt, intrAt>>
  /\ synth' = {} /\ evs' = {}
  /\ UNCHANGED <<c, now, heap, bsn, eff, dl>>

Next == BeforeSleep \/ PollCompute \/ Wait \/ Pop \/ Process
Spec == Init /\ [][Next]_vars

(***************************************************************************)
(* Invariants: code-shaped computation = oracle, for every configuration.  *)
(***************************************************************************)
TypeOK ==
  /\ c \in Configs /\ k \in {1, 2} /\ now \in Nat /\ start \in Nat
  /\ pc \in {"before_sleep", "poll_compute", "wait", "pop", "process", "done", "blocked"}
  /\ DOMAIN heap \subseteq TimerNames /\ polled \subseteq SourceNames /\ Len(out) <= 2

Q1 == Q(c)
Q2 == SpecAfter(Q1, SpecWait(Q1), SpecFire(Q1), S)

\* the first dispatch returns after exactly W (and never, iff W = Infinity)
Inv_C12_Wait ==
  /\ pc = "blocked" => k = 1 /\ SpecWait(Q1) = Inf
  /\ Len(out) >= 1 => SpecWait(Q1) # Inf /\ out[1].start = 0 /\ out[1].end = SpecWait(Q1)
\* ... having fired the timers that were due, delivered the one-off events and removed the sources that are over
Inv_C12_Fire ==
  Len(out) >= 1 => /\ out[1].fired = SpecFire(Q1)
                   /\ out[1].cbs = SpecCbs(Q1)
                   /\ out[1].removed = SpecRemoved(Q1)
\* the second dispatch blocks again: nothing keeps the loop spinning
Inv_C12_Second ==
  Len(out) = 2 => /\ out[2].end - out[2].start = SpecWait(Q2)
                  /\ out[2].fired = SpecFire(Q2)
                  /\ out[2].cbs = {}
                  /\ out[2].removed = SpecFire(Q2)
\* sanity of the oracle itself: a zero timeout never blocks; without events the wait is the Min of timeout and deadlines
Inv_C12_Oracle ==
  /\ c.to = 0 => SpecWait(Q1) = Q1.bs
  /\ c.to # Inf => SpecWait(Q1) <= c.to + Q1.bs
  /\ \A n \in Armed(Q1) : SpecWait(Q1) <= Max2(Q1.bs, Rel(Q1.tm[n]))
  /\ (c.wake = "none" /\ ~Pending(Q1) /\ Q1.bs = 0) =>
        SpecWait(Q1) = MinOf({c.to} \cup {Rel(D(n)) : n \in c.tm \ {"far"}})
  /\ SpecWait(Q1) # Inf =>
        /\ SpecWait(Q2) <= S
        /\ SpecFire(Q1) = c.tm \ {"far"} => SpecWait(Q2) = S      \* no armed timer left: the full short timeout

Inv_C12 == Inv_C12_Wait /\ Inv_C12_Fire /\ Inv_C12_Second /\ Inv_C12_Oracle

(***************************************************************************)
(* Export: every configuration with its expected outcome, as JSON (the     *)
(* scenario list of the harness).  Evaluated as an "invariant" in the      *)
(* final state of each behaviour.                                          *)
(***************************************************************************)
Fin(t) == IF t = Inf THEN -1 ELSE t
Export ==
  pc \in {"done", "blocked"} =>
    PrintT(<<"CFG", ToJson(
      [to |-> Fin(c.to),
       tm |-> {[n |-> n, d |-> Fin(D(n))] : n \in c.tm},
       src |-> c.src, wake |-> c.wake, wk |-> Wk, intr |-> c.intr, ik |-> Ik, s2 |-> S, bs |-> Q1.bs,
       W |-> Fin(SpecWait(Q1)), fire |-> SpecFire(Q1), cbs |-> SpecCbs(Q1), removed |-> SpecRemoved(Q1),
       W2 |-> IF SpecWait(Q1) = Inf THEN -1 ELSE SpecWait(Q2),
       fire2 |-> IF SpecWait(Q1) = Inf THEN {} ELSE SpecFire(Q2)])>>)
=============================================================================
