----------------------------- MODULE LoopCore -----------------------------
(***************************************************************************)
(* Implementation-shaped specification of calloop's single-threaded loop.  *)
(*                                                                         *)
(* One action per critical section of the code: every LoopHandle operation *)
(* (insert_source/register_dispatcher, remove, disable, enable, update,    *)
(* insert_idle, Idle::cancel), every environment action of a driver (ping, *)
(* write, timers' set_deadline, time passing) and the dispatch pipeline    *)
(* split exactly where user code runs: before_sleep per lifecycle entry,   *)
(* poll, before_handle_events per entry, and per event of the batch        *)
(* lookup -> process_events (callback with nested handle operations) ->    *)
(* take pending action -> apply post action -> removal check; then idles.  *)
(*                                                                         *)
(* Data structures are the code's own: the slot vector with wrapping       *)
(* versions (list.rs), the lifecycle *sequence*, the single loop-wide      *)
(* pending-action cell, the token each Generic remembers, the kernel's     *)
(* interest list with level/edge/oneshot state, the timer heap with        *)
(* counters and the list of counters expired in the current poll.          *)
(*                                                                         *)
(* Source kinds: ping (eventfd counter + close marker), comp (composite of  *)
(* Generic fds with level / edge / oneshot children, lifecycle hooks and    *)
(* synthetic events), timer, chan (mpsc queue + senders + ping, bounded     *)
(* batch with self re-ping), exec (run queue of runnables, `notified` flag, *)
(* futures queued / parked / done / dropped, batch limit, futures dropped   *)
(* with the executor), stream (StreamSource: initial self ping, poll_next   *)
(* until Pending, None then Remove).                                        *)
(*                                                                         *)
(* Every action emits the observable events the conformance harness logs   *)
(* for the same step of the real crate, and feeds them to the contract     *)
(* monitor of LoopContract.tla, so the invariants NoViolation(Cxx) are the *)
(* same formulas TLC evaluates on recorded implementation traces.          *)
(* `Variants` switches in deliberately wrong behaviours (each is one of    *)
(* the defects found and fixed in /repo, or a seeded one) so that TLC can  *)
(* show the invariants are not vacuous.                                    *)
(***************************************************************************)
EXTENDS LoopContract, SequencesExt, FiniteSetsExt

CONSTANTS
    ChanLimit,   \* per-dispatch batch limit of channels (verif hook; 1024 in the code)
    Decl,        \* sequence of source declarations (same record shape as the harness' reset event)
    MaxSteps,    \* number of top-level operations
    MaxCbOps,    \* handle operations per callback invocation
    MaxTime,     \* time is 0..MaxTime (unit: one tick = Tick microseconds in the monitor)
    VerMod,      \* 2^GenBits: slot versions wrap at this value (65536 in the code)
    TopOps,      \* names of the operations the driver may issue at top level
    CbOps,       \* names of the operations a callback may issue
    Rets,        \* post actions a composite's callback may return
    TimerRets,   \* what a timer callback may return: "drop", "to1" (ToInstant(now+1)), "to0"
    MaxFaults,   \* number of injected registration faults
    Variants,    \* set of deliberately wrong behaviours (empty = the code as it is now)
    RecordHist   \* TRUE: keep the emitted events (for scenario extraction in simulation mode)

Tick == 1000
S == {Decl[i].s : i \in DOMAIN Decl}
D(s) == CHOOSE d \in RangeOf(Decl) : d.s = s
KindOf(s) == D(s).kind
NC(s) == IF KindOf(s) = "comp" THEN Len(D(s).children) ELSE IF KindOf(s) \in {"ping", "chan", "exec", "stream"} THEN 1 ELSE 0
IsExec(s) == KindOf(s) = "exec"
FdOfM(s, c) == D(s).fds[c]
AllFds == UNION {RangeOf(D(s).fds) : s \in S}
ModeOf(s, c) == IF KindOf(s) = "comp" THEN D(s).children[c].mode ELSE "level"
IntOf(s, c) == IF KindOf(s) = "comp" THEN D(s).children[c].interest ELSE "r"
IsLife(s) == D(s).life = 1

NoTok == <<-1, -1, -1>>
NoSrc == 0

VARIABLES
    slots,       \* sequence of [ver, src]          (list.rs: SourceList)
    lifeSet,     \* sequence of <<id, ver>>         (sources_with_additional_lifecycle_events)
    pending,     \* the loop-wide pending-action cell
    idles,       \* sequence of [i, live]           (idles; live = FALSE after cancel)
    issued,      \* sequence of [s, id, ver]: every RegistrationToken ever returned, in order
    obj,         \* per source: "fresh" (never inserted), "loop", "gone" (dropped), "back" (handed back / recovered)
    heldD,       \* per source: the driver holds a Dispatcher clone
    enabled,     \* per source: what the *model* knows the registration state to be (source-side truth)
    gtok,        \* per source, per child: the token the Generic remembers (NoTok = unregistered)
    kern,        \* per fd: [on, key, r, w, mode, armed]  the kernel's epoll interest list
    rdy,         \* per fd: number of unread bytes (capped)
    edgeq,       \* set of fds with an unreported edge
    pingCnt,     \* per ping source: pings not yet drained (capped)
    closeBit,    \* per ping source: "no", "pending" (all handles gone, marker in the counter), "seen"
    handles,     \* per ping source: live Ping handles held by the driver;
                 \* per channel source: [q: queued messages, snd: live senders, closed: Closed delivered, n: messages sent]
                 \* per executor: [futs: f -> [st, rdy, v, wk, polls], runq: runnables in the mpsc queue, notified, n]
                 \* per stream source: [q: items not yet yielded, ended, wk: the stream holds the source's waker, n]
    tdl,         \* per timer: [has, v] the deadline the Timer holds
    treg,        \* per timer: [on, key, ctr] its Registration
    heap,        \* set of [dl, key, ctr]
    expired,     \* set of counters popped by the current poll and not yet consumed
    nextCtr,
    now,
    pc,          \* control state: "top", "bs", "poll", "bhe", "ev", "incb", "idle", "inidle"
    dsp,         \* dispatch-local record
    cbCount,     \* [cb |-> per source: callback invocations so far, bs |-> per source: before_sleep calls so far]
    steps, nfaults, nextIdle,
    failNext,    \* set of <<s, call>>: the next such call of s fails (injected)
    mon,         \* contract monitor state (LoopContract!Step)
    hist         \* emitted events (only when RecordHist)

vars == <<slots, lifeSet, pending, idles, issued, obj, heldD, enabled, gtok, kern, rdy, edgeq, pingCnt, closeBit,
          handles, tdl, treg, heap, expired, nextCtr, now, pc, dsp, cbCount, steps, nfaults, nextIdle, failNext, mon, hist>>

NoDsp == [synth |-> <<>>, batch |-> <<>>, nreal |-> 0, pos |-> 0, i |-> 0, disp |-> NoSrc, ev |-> NoTok,
          ops |-> 0, act |-> "continue", err |-> FALSE, idl |-> <<>>, timeout0 |-> FALSE, bsErr |-> FALSE]

(***************************************************************************)
(* Emitting events.                                                        *)
(***************************************************************************)
Feed(m, evs) == FoldLeft(LAMBDA acc, e : Step(acc, e, 0), m, evs)
Emit(evs) == /\ mon' = Feed(mon, evs)
             /\ hist' = IF RecordHist THEN hist \o evs ELSE hist

ResetEv == [e |-> "reset", id |-> "model", srcs |-> Decl, tick_us |-> Tick, epfd |-> 0, limit |-> ChanLimit]

Us == now * Tick

(***************************************************************************)
(* Slot list (list.rs) and tokens (token.rs).                              *)
(***************************************************************************)
SlotOf(s) == IF \E i \in DOMAIN slots : slots[i].src = s THEN CHOOSE i \in DOMAIN slots : slots[i].src = s ELSE 0
Inserted(s) == SlotOf(s) # 0
\* `get(token)`: in range and versions match (an *empty* slot of the right version matches too)
GetOk(id, ver) == (id + 1) \in DOMAIN slots /\ slots[id + 1].ver = ver
SrcAt(id, ver) == IF GetOk(id, ver) THEN slots[id + 1].src ELSE NoSrc
\* `vacant_entry`: first empty slot (version bumped, wrapping) or a new slot with version 0
Vacant == IF \E i \in DOMAIN slots : slots[i].src = NoSrc
          THEN LET i == CHOOSE j \in DOMAIN slots : slots[j].src = NoSrc /\ \A k \in 1..(j - 1) : slots[k].src # NoSrc
               IN [idx |-> i, ver |-> (slots[i].ver + 1) % VerMod, new |-> FALSE]
          ELSE [idx |-> Len(slots) + 1, ver |-> 0, new |-> TRUE]

TokOfSlot(s) == <<SlotOf(s) - 1, slots[SlotOf(s)].ver>>

(***************************************************************************)
(* Snapshot (what the harness reads from verif_stats() and /proc).         *)
(***************************************************************************)
EpollSeq(k) ==
  LET F == {f \in AllFds : k[f].on}
      Srt == SetToSortSeq(F, LAMBDA a, b : a < b)
  IN [i \in DOMAIN Srt |-> LET f == Srt[i] e == k[f] live == e.mode # "oneshot" \/ e.armed IN
        <<f, IF live /\ e.r THEN 1 ELSE 0, IF live /\ e.w THEN 1 ELSE 0, e.mode, e.key[1], e.key[2], e.key[3]>>]

SnapEv(sl, ls, pd, idl, hp, k) ==
  [e |-> "snap", gone |-> 0,
   slots |-> [i \in DOMAIN sl |-> <<i - 1, sl[i].ver, IF sl[i].src # NoSrc THEN 1 ELSE 0>>],
   life |-> ls, idles |-> Len(idl), heap |-> Cardinality(hp), pending |-> pd, epoll |-> EpollSeq(k)]

(***************************************************************************)
(* Source-side registration code: Generic / PingSource / Timer / Composite *)
(* as pure functions on a "registration state" record rs =                 *)
(*   [gtok, kern, heap, expired, treg, nextCtr, edgeq]                      *)
(***************************************************************************)
RS == [gtok |-> gtok, kern |-> kern, heap |-> heap, expired |-> expired, treg |-> treg, nextCtr |-> nextCtr, edgeq |-> edgeq]

WR(s, c) == IntOf(s, c) \in {"r", "rw"}
WW(s, c) == IntOf(s, c) \in {"w", "rw"}
FdReadyNow(s, c, cnt, cb) ==
  \/ WW(s, c)
  \/ WR(s, c) /\ (IF KindOf(s) = "comp" THEN rdy[FdOfM(s, c)] > 0 ELSE cnt[s] > 0 \/ cb[s] = "pending")

\* Poll::register of child c under key; fails (EEXIST) if the fd is already in the interest list
KRegister(rs, s, c, key) ==
  LET f == FdOfM(s, c) IN
  [rs EXCEPT !.kern[f] = [on |-> TRUE, key |-> key, r |-> WR(s, c), w |-> WW(s, c), mode |-> ModeOf(s, c), armed |-> TRUE],
             !.gtok[s][c] = key,
             !.edgeq = IF ModeOf(s, c) = "edge" THEN @ \cup {f} ELSE @]
KUnregister(rs, s, c) ==
  LET f == FdOfM(s, c) IN
  [rs EXCEPT !.kern[f].on = FALSE, !.gtok[s][c] = NoTok, !.edgeq = @ \ {f}]

\* EventSource::register of source s with sub-ids from 0: [ok, rs]
SrcRegister(rs, s, id, ver) ==
  IF KindOf(s) = "timer"
  THEN IF tdl[s].has
       THEN [ok |-> TRUE, rs |-> [rs EXCEPT !.heap = @ \cup {[dl |-> tdl[s].v, key |-> <<id, ver, 0>>, ctr |-> rs.nextCtr]},
                                            !.treg[s] = [on |-> TRUE, key |-> <<id, ver, 0>>, ctr |-> rs.nextCtr],
                                            !.nextCtr = @ + 1]]
       ELSE [ok |-> TRUE, rs |-> rs]
  ELSE \* fd-backed: children in order, one sub-id each; EEXIST if an fd is already registered (rolled back)
       LET n == NC(s)
           clash == \E c \in 1..n : rs.kern[FdOfM(s, c)].on
           reg == FoldLeft(LAMBDA acc, c : KRegister(acc, s, c, <<id, ver, c - 1>>), rs, [c \in 1..n |-> c])
       IN IF clash THEN [ok |-> FALSE, rs |-> rs] ELSE [ok |-> TRUE, rs |-> reg]

SrcUnregister(rs, s) ==
  IF KindOf(s) = "timer"
  THEN IF rs.treg[s].on
       THEN [ok |-> TRUE, rs |-> [rs EXCEPT !.heap = {h \in @ : h.ctr # rs.treg[s].ctr},
                                            !.expired = IF "stale_timer_expiry" \in Variants THEN @ ELSE @ \ {rs.treg[s].ctr},
                                            !.treg[s] = [on |-> FALSE, key |-> NoTok, ctr |-> 0]]]
       ELSE [ok |-> TRUE, rs |-> rs]
  ELSE LET n == NC(s)
           missing == \E c \in 1..n : ~rs.kern[FdOfM(s, c)].on \/ rs.kern[FdOfM(s, c)].key[1] # rs.gtok[s][c][1]
           un == FoldLeft(LAMBDA acc, c : KUnregister(acc, s, c), rs, [c \in 1..n |-> c])
       IN IF \E c \in 1..n : rs.gtok[s][c] = NoTok THEN [ok |-> FALSE, rs |-> rs]   \* ENOENT
          ELSE [ok |-> TRUE, rs |-> un]

SrcReregister(rs, s, id, ver) ==
  IF KindOf(s) = "timer"
  THEN SrcRegister(SrcUnregister(rs, s).rs, s, id, ver)
  ELSE LET n == NC(s) IN
       IF \E c \in 1..n : rs.gtok[s][c] = NoTok THEN [ok |-> FALSE, rs |-> rs]   \* ENOENT
       ELSE [ok |-> TRUE, rs |-> FoldLeft(LAMBDA acc, c : KRegister(acc, s, c, <<id, ver, c - 1>>), rs, [c \in 1..n |-> c])]

ApplyRS(rs) == /\ gtok' = rs.gtok /\ kern' = rs.kern /\ heap' = rs.heap /\ expired' = rs.expired
               /\ treg' = rs.treg /\ nextCtr' = rs.nextCtr /\ edgeq' = rs.edgeq

(***************************************************************************)
(* EventDispatcher::{register, reregister, unregister} (sources/mod.rs):    *)
(* the source call plus the lifecycle-set bookkeeping, with fault injection *)
(* by the Probe wrapper.  Result: [ok, rs, life, evs, fn]                    *)
(***************************************************************************)
LifeAdd(ls, t) == IF "lifecycle_duplicates" \in Variants THEN Append(ls, t)
                  ELSE IF \E i \in DOMAIN ls : ls[i] = t THEN ls ELSE Append(ls, t)
LifeDel(ls, t) == SelectSeq(ls, LAMBDA x : x # t)

DRegister(rs, ls, fn, s, id, ver) ==
  IF <<s, "register">> \in fn
  THEN [ok |-> FALSE, rs |-> rs, fn |-> fn \ {<<s, "register">>},
        life |-> IF "lifecycle_before_register" \in Variants /\ IsLife(s) THEN LifeAdd(ls, <<id, ver>>) ELSE ls,
        evs |-> <<[e |-> "reg", s |-> s, r |-> "err", inj |-> 1]>>]
  ELSE LET r == SrcRegister(rs, s, id, ver) IN
       [ok |-> r.ok, rs |-> r.rs, fn |-> fn,
        life |-> IF IsLife(s) /\ (r.ok \/ "lifecycle_before_register" \in Variants) THEN LifeAdd(ls, <<id, ver>>) ELSE ls,
        evs |-> <<[e |-> "reg", s |-> s, r |-> IF r.ok THEN "ok" ELSE "err", inj |-> 0]>>]

DReregister(rs, ls, fn, s, id, ver) ==
  IF <<s, "reregister">> \in fn
  THEN [ok |-> FALSE, rs |-> rs, fn |-> fn \ {<<s, "reregister">>}, life |-> ls,
        evs |-> <<[e |-> "rereg", s |-> s, r |-> "err", inj |-> 1]>>]
  ELSE LET r == SrcReregister(rs, s, id, ver) IN
       [ok |-> r.ok, rs |-> r.rs, fn |-> fn,
        life |-> IF IsLife(s) /\ r.ok THEN LifeAdd(ls, <<id, ver>>) ELSE ls,
        evs |-> <<[e |-> "rereg", s |-> s, r |-> IF r.ok THEN "ok" ELSE "err", inj |-> 0]>>]

DUnregister(rs, ls, fn, s, id, ver) ==
  LET r == SrcUnregister(rs, s)
      inj == <<s, "unregister">> \in fn
      ok == r.ok /\ ~inj
  IN [ok |-> ok, rs |-> r.rs, fn |-> fn \ {<<s, "unregister">>},
      life |-> IF IsLife(s) /\ (ok \/ "lifecycle_kept_on_failed_unregister" \notin Variants) THEN LifeDel(ls, <<id, ver>>) ELSE ls,
      evs |-> <<[e |-> "unreg", s |-> s, r |-> IF ok THEN "ok" ELSE "err", inj |-> IF inj THEN 1 ELSE 0]>>]

(***************************************************************************)
(* Dropping a source object (its Generic children delete their fd, a timer *)
(* has no Drop): events drop_src / drop_cb.                                *)
(***************************************************************************)
DropRS(rs, s) ==
  IF KindOf(s) = "timer" THEN rs
  ELSE FoldLeft(LAMBDA acc, c : IF acc.gtok[s][c] # NoTok THEN KUnregister(acc, s, c) ELSE acc, rs, [c \in 1..NC(s) |-> c])
\* A source declared with `ondrop` re-enters the loop from its Drop: it calls LoopHandle::remove with its own
\* (by then dead) token - a no-op, but it needs the source list, so it must not run while the list is borrowed.
LastTokIdx(s) == CHOOSE i \in DOMAIN issued : issued[i].s = s /\ \A j \in DOMAIN issued : issued[j].s = s => j <= i
\* Executor::drop wakes every active task and drains the queue: every future that is still alive is dropped
LiveFuts(s) == IF IsExec(s) THEN {f \in DOMAIN handles[s].futs : handles[s].futs[f].st \in {"queued", "parked"}} ELSE {}
FutDropEvs(s) == IF "exec_leaks_futures" \in Variants THEN <<>> ELSE
                 LET Srt == SetToSortSeq(LiveFuts(s), LAMBDA a, b : a < b)
                 IN [i \in DOMAIN Srt |-> [e |-> "fdrop", s |-> s, f |-> Srt[i]]]
DropFuts(h) == IF "exec_leaks_futures" \in Variants THEN h ELSE
               [h EXCEPT !.runq = <<>>,
                         !.futs = [f \in DOMAIN @ |-> IF @[f].st \in {"queued", "parked"} THEN [@[f] EXCEPT !.st = "dropped"] ELSE @[f]]]
HandlesAfterDrop(s, dies) == IF dies /\ IsExec(s) THEN [handles EXCEPT ![s] = DropFuts(@)] ELSE handles

DropEvs(s, inRemove) ==
  <<[e |-> "drop_src", s |-> s]>>
  \o FutDropEvs(s)
  \o (IF D(s).ondrop = 1 /\ \E i \in DOMAIN issued : issued[i].s = s
      THEN <<[e |-> "op", op |-> "remove", ts |-> s, t |-> LastTokIdx(s) - 1, ctx |-> 1000 + s],
             [e |-> "opret", op |-> "remove", ctx |-> 1000 + s,
              r |-> IF inRemove /\ "drop_with_list_borrowed" \in Variants THEN "panic" ELSE "ok"]>>
      ELSE <<>>)
  \o <<[e |-> "drop_cb", s |-> s]>>

(***************************************************************************)
(* Initial state.                                                          *)
(***************************************************************************)
Init ==
  /\ slots = <<>> /\ lifeSet = <<>> /\ pending = "continue" /\ idles = <<>> /\ issued = <<>>
  /\ obj = [s \in S |-> "fresh"] /\ heldD = [s \in S |-> FALSE] /\ enabled = [s \in S |-> FALSE]
  /\ gtok = [s \in S |-> [c \in 1..NC(s) |-> NoTok]]
  /\ kern = [f \in AllFds |-> [on |-> FALSE, key |-> NoTok, r |-> FALSE, w |-> FALSE, mode |-> "level", armed |-> FALSE]]
  /\ rdy = [f \in AllFds |-> 0] /\ edgeq = {}
  /\ pingCnt = [s \in S |-> IF KindOf(s) = "stream" THEN 1 ELSE 0] /\ closeBit = [s \in S |-> "no"] /\ handles = [s \in S |-> IF KindOf(s) = "chan" THEN [q |-> <<>>, snd |-> 1, closed |-> FALSE, n |-> 0]
                                 ELSE IF KindOf(s) = "exec" THEN [futs |-> <<>>, runq |-> <<>>, notified |-> FALSE, n |-> 0]
                                 ELSE IF KindOf(s) = "stream" THEN [q |-> <<>>, ended |-> FALSE, wk |-> FALSE, n |-> 0] ELSE 1]
  /\ tdl = [s \in S |-> [has |-> D(s).hasdl = 1, v |-> D(s).dl]]
  /\ treg = [s \in S |-> [on |-> FALSE, key |-> NoTok, ctr |-> 0]]
  /\ heap = {} /\ expired = {} /\ nextCtr = 0 /\ now = 0
  /\ pc = "top" /\ dsp = NoDsp /\ cbCount = [cb |-> [s \in S |-> 0], bs |-> [s \in S |-> 0]]
  /\ steps = 0 /\ nfaults = 0 /\ nextIdle = [n |-> 1, h |-> {}] /\ failNext = {}
  /\ mon = Feed(Empty, <<ResetEv, SnapEv(<<>>, <<>>, "continue", <<>>, {}, [f \in AllFds |-> [on |-> FALSE]])>>)
  /\ hist = IF RecordHist THEN <<ResetEv, SnapEv(<<>>, <<>>, "continue", <<>>, {}, [f \in AllFds |-> [on |-> FALSE]])>> ELSE <<>>

(***************************************************************************)
(* Handle operations.  `ctx` = 0 at top level, s inside the callback of s, *)
(* -i inside idle i.  Each returns the events between `op` and `opret`.    *)
(***************************************************************************)
Ctx == IF pc = "incb" THEN dsp.disp ELSE IF pc = "inidle" THEN 0 - dsp.idl[dsp.i].i ELSE 0
\* the dispatcher RefCell of s is mutably borrowed while its process_events runs
Borrowed(s) == pc = "incb" /\ dsp.disp = s

OpEv(name, extra) == [e |-> "op", op |-> name, ctx |-> Ctx] @@ extra
RetEv(name, r, extra) == [e |-> "opret", op |-> name, ctx |-> Ctx, r |-> r] @@ extra

\* After a top-level operation the harness takes a snapshot.
WithSnap(evs) == IF pc = "top" THEN evs \o <<SnapEv(slots', lifeSet', pending', idles', heap', kern')>> ELSE evs
Budget == IF pc = "top" THEN /\ steps < MaxSteps /\ steps' = steps + 1 /\ dsp' = dsp
          ELSE /\ dsp.ops > 0 /\ dsp' = [dsp EXCEPT !.ops = @ - 1] /\ steps' = steps
CanOp(name) == /\ pc \in {"top", "incb", "inidle"}
               /\ name \in (IF pc = "top" THEN TopOps ELSE CbOps)

Insert(s) ==
  /\ CanOp("insert") /\ obj[s] \in {"fresh", "back"} /\ Budget
  /\ UNCHANGED <<pending, idles, rdy, pingCnt, closeBit, handles, tdl, now, pc, cbCount, nfaults, nextIdle>>
  /\ LET v == Vacant
         id == v.idx - 1
         sl1 == IF v.new THEN Append(slots, [ver |-> 0, src |-> s]) ELSE [slots EXCEPT ![v.idx] = [ver |-> v.ver, src |-> s]]
         r == DRegister(RS, lifeSet, failNext, s, id, v.ver)
         sl2 == IF r.ok THEN sl1 ELSE [sl1 EXCEPT ![v.idx].src = NoSrc]
     IN /\ slots' = sl2 /\ lifeSet' = r.life /\ failNext' = r.fn /\ ApplyRS(r.rs)
        /\ obj' = [obj EXCEPT ![s] = IF r.ok THEN "loop" ELSE "back"]
        /\ heldD' = [heldD EXCEPT ![s] = r.ok /\ D(s).held = 1]
        /\ enabled' = [enabled EXCEPT ![s] = r.ok]
        /\ issued' = IF r.ok THEN Append(issued, [s |-> s, id |-> id, ver |-> v.ver]) ELSE issued
        /\ Emit(WithSnap(<<OpEv("insert", [s |-> s])>> \o r.evs
                     \o (IF r.ok THEN <<>> ELSE <<[e |-> "drop_cb", s |-> s]>>)
                     \o <<IF r.ok THEN RetEv("insert", "ok", [s |-> s, t |-> Len(issued), tid |-> <<id, v.ver>>])
                          ELSE RetEv("insert", "err", [s |-> s])>>))

\* LoopHandle::remove(token)
OpRemove(t) ==
  /\ CanOp("remove") /\ t \in DOMAIN issued /\ Budget
  /\ UNCHANGED <<pending, idles, issued, rdy, pingCnt, closeBit, tdl, now, pc, cbCount, nfaults, nextIdle>>
  /\ LET tk == issued[t]
         s == SrcAt(tk.id, tk.ver)
     IN IF s = NoSrc
        THEN /\ UNCHANGED <<slots, lifeSet, failNext, gtok, kern, heap, expired, treg, nextCtr, edgeq, obj, heldD, enabled, handles>>
             /\ Emit(WithSnap(<<OpEv("remove", [t |-> t - 1]), RetEv("remove", "ok", <<>>)>>))
        ELSE LET sl == [slots EXCEPT ![tk.id + 1].src = NoSrc]
                 \* unregister uses try_borrow_mut: skipped (Ok(false)) while s is being dispatched
                 r == IF Borrowed(s) THEN [ok |-> TRUE, rs |-> RS, fn |-> failNext, life |-> lifeSet, evs |-> <<>>]
                      ELSE DUnregister(RS, lifeSet, failNext, s, tk.id, tk.ver)
                 \* the slot's Rc is dropped now; the object dies unless the dispatch loop (Borrowed) or the driver holds a clone
                 dies == ~Borrowed(s) /\ ~heldD[s]
                 rs2 == IF dies THEN DropRS(r.rs, s) ELSE r.rs
             IN /\ slots' = sl /\ lifeSet' = r.life /\ failNext' = r.fn /\ ApplyRS(rs2)
                /\ obj' = [obj EXCEPT ![s] = IF dies THEN "gone" ELSE IF Borrowed(s) THEN @ ELSE "held"]
                /\ enabled' = [enabled EXCEPT ![s] = IF Borrowed(s) THEN @ ELSE FALSE]
                /\ heldD' = heldD /\ handles' = HandlesAfterDrop(s, dies)
                /\ Emit(WithSnap(<<OpEv("remove", [t |-> t - 1])>> \o r.evs \o (IF dies THEN DropEvs(s, TRUE) ELSE <<>>)
                             \o <<RetEv("remove", "ok", <<>>)>>))

\* LoopHandle::{disable, enable, update}(token)
TokenOp(name, t) ==
  /\ CanOp(name) /\ t \in DOMAIN issued /\ Budget
  /\ UNCHANGED <<slots, idles, issued, obj, heldD, rdy, pingCnt, closeBit, handles, tdl, now, pc, cbCount, nfaults, nextIdle>>
  /\ LET tk == issued[t]
         s == SrcAt(tk.id, tk.ver)
         inv == <<OpEv(name, [t |-> t - 1]), RetEv(name, "invalid", <<>>)>>
     IN IF s = NoSrc
        THEN /\ UNCHANGED <<lifeSet, failNext, gtok, kern, heap, expired, treg, nextCtr, edgeq, pending, enabled>>
             /\ Emit(WithSnap(inv))
        ELSE IF Borrowed(s) /\ name \in {"disable", "update"}
        THEN \* inside its own callback: deferred through the loop-wide cell
             /\ pending' = IF name = "disable" THEN "disable" ELSE "reregister"
             /\ UNCHANGED <<lifeSet, failNext, gtok, kern, heap, expired, treg, nextCtr, edgeq, enabled>>
             /\ Emit(WithSnap(<<OpEv(name, [t |-> t - 1]), RetEv(name, "ok", <<>>)>>))
        ELSE LET r == CASE name = "disable" -> DUnregister(RS, lifeSet, failNext, s, tk.id, tk.ver)
                        [] name = "enable"  -> DRegister(RS, lifeSet, failNext, s, tk.id, tk.ver)
                        [] OTHER            -> DReregister(RS, lifeSet, failNext, s, tk.id, tk.ver)
             IN /\ lifeSet' = r.life /\ failNext' = r.fn /\ ApplyRS(r.rs) /\ pending' = pending
                /\ enabled' = [enabled EXCEPT ![s] = IF ~r.ok THEN @ ELSE IF name = "disable" THEN FALSE ELSE TRUE]
                /\ Emit(WithSnap(<<OpEv(name, [t |-> t - 1])>> \o r.evs \o <<RetEv(name, IF r.ok THEN "ok" ELSE "err", <<>>)>>))

\* only meaningful uses (the contract excludes the others; see LoopContract `misuse`)
TokenOpGuard(name, t) ==
  LET tk == issued[t]  s == SrcAt(tk.id, tk.ver) IN
  IF s = NoSrc THEN TRUE
  \* (enabling an fd-backed source that is enabled already is allowed: it fails with EEXIST and changes nothing)
  ELSE /\ name = "enable" => (~Borrowed(s) /\ (~enabled[s] \/ KindOf(s) # "timer"))
       \* (update of a disabled fd-backed source is allowed: it fails with ENOENT and changes nothing)
       /\ name = "update" => ((enabled[s] \/ (KindOf(s) # "timer" /\ ~Borrowed(s))) /\ (Borrowed(s) => pending = "continue"))
       \* (disable of a disabled fd-backed source is allowed: it fails with ENOENT and changes nothing)
       /\ name = "disable" => ((enabled[s] \/ (KindOf(s) # "timer" /\ ~Borrowed(s))) /\ (Borrowed(s) => pending = "continue"))

\* environment: ping / write a byte / read everything / drop a ping handle / set_deadline / time
Ping(s) ==
  /\ CanOp("ping") /\ KindOf(s) = "ping" /\ handles[s] > 0 /\ obj[s] # "gone" /\ Budget
  /\ UNCHANGED <<slots, lifeSet, pending, idles, issued, obj, heldD, enabled, gtok, kern, rdy, edgeq, closeBit, handles,
                 tdl, treg, heap, expired, nextCtr, now, pc, cbCount, nfaults, nextIdle, failNext>>
  /\ pingCnt' = [pingCnt EXCEPT ![s] = IF @ < 2 THEN @ + 1 ELSE @]
  /\ Emit(WithSnap(<<OpEv("ping", [s |-> s]), RetEv("ping", "ok", <<>>)>>))

DropPing(s) ==
  /\ CanOp("drop_ping") /\ KindOf(s) = "ping" /\ handles[s] > 0 /\ obj[s] # "gone" /\ Budget
  /\ UNCHANGED <<slots, lifeSet, pending, idles, issued, obj, heldD, enabled, gtok, kern, rdy, edgeq, pingCnt,
                 tdl, treg, heap, expired, nextCtr, now, pc, cbCount, nfaults, nextIdle, failNext>>
  /\ handles' = [handles EXCEPT ![s] = @ - 1]
  /\ closeBit' = [closeBit EXCEPT ![s] = IF handles[s] = 1 THEN "pending" ELSE @]
  /\ Emit(WithSnap(<<OpEv("drop_ping", [s |-> s]), RetEv("drop_ping", "ok", <<>>)>>))

\* Sender::send = push, then ping;  drop of the last Sender = drop the mpsc sender, then ping (PingOnDrop)
Send(s) ==
  /\ CanOp("send") /\ KindOf(s) = "chan" /\ handles[s].snd > 0 /\ handles[s].n < 3 /\ obj[s] # "gone" /\ Budget
  /\ UNCHANGED <<slots, lifeSet, pending, idles, issued, obj, heldD, enabled, gtok, kern, rdy, edgeq, closeBit,
                 tdl, treg, heap, expired, nextCtr, now, pc, cbCount, nfaults, nextIdle, failNext>>
  /\ LET m == s * 100 + handles[s].n + 1 IN
     /\ handles' = [handles EXCEPT ![s].q = Append(@, m), ![s].n = @ + 1]
     /\ pingCnt' = [pingCnt EXCEPT ![s] = IF @ < 2 THEN @ + 1 ELSE @]
     /\ Emit(WithSnap(<<OpEv("send", [s |-> s, m |-> m]), RetEv("send", "ok", <<>>)>>))

DropSender(s) ==
  /\ CanOp("drop_sender") /\ KindOf(s) = "chan" /\ handles[s].snd > 0 /\ obj[s] # "gone" /\ Budget
  /\ UNCHANGED <<slots, lifeSet, pending, idles, issued, obj, heldD, enabled, gtok, kern, rdy, edgeq, closeBit,
                 tdl, treg, heap, expired, nextCtr, now, pc, cbCount, nfaults, nextIdle, failNext>>
  /\ handles' = [handles EXCEPT ![s].snd = @ - 1]
  /\ pingCnt' = [pingCnt EXCEPT ![s] = IF @ < 2 THEN @ + 1 ELSE @]
  /\ Emit(WithSnap(<<OpEv("drop_sender", [s |-> s]), RetEv("drop_sender", "ok", <<>>)>>))

\* Scheduler::schedule: spawn the task and schedule its runnable (Sender::send = push, then ping unless the
\* executor is already notified); refused once the executor object is gone (the future is dropped at once)
SendRunnable(h, f) == [h EXCEPT !.runq = Append(@, f), !.notified = TRUE]
Schedule(s) ==
  /\ CanOp("schedule") /\ IsExec(s) /\ handles[s].n < 3 /\ Budget
  /\ UNCHANGED <<slots, lifeSet, pending, idles, issued, obj, heldD, enabled, gtok, kern, rdy, edgeq, closeBit,
                 tdl, treg, heap, expired, nextCtr, now, pc, cbCount, nfaults, nextIdle, failNext>>
  /\ LET h == handles[s]
         f == s * 10 + h.n + 1
     IN IF obj[s] = "gone"
        THEN /\ handles' = [handles EXCEPT ![s].n = @ + 1] /\ pingCnt' = pingCnt
             /\ Emit(WithSnap(<<OpEv("schedule", [s |-> s, f |-> f]), [e |-> "fdrop", s |-> s, f |-> f],
                                RetEv("schedule", "destroyed", <<>>)>>))
        ELSE /\ handles' = [handles EXCEPT ![s] = [SendRunnable(h, f) EXCEPT
                                 !.n = @ + 1,
                                 !.futs = (f :> [st |-> "queued", rdy |-> FALSE, v |-> 0, wk |-> FALSE, polls |-> 0]) @@ @]]
             /\ pingCnt' = [pingCnt EXCEPT ![s] = IF h.notified THEN @ ELSE (IF @ < 2 THEN @ + 1 ELSE @)]
             /\ Emit(WithSnap(<<OpEv("schedule", [s |-> s, f |-> f]), RetEv("schedule", "ok", <<>>)>>))

\* the driver wakes the waker a future stored at its last Pending poll (wake), or makes it ready first (complete)
WakeFut(name, s, f) ==
  /\ CanOp(name) /\ IsExec(s) /\ f \in DOMAIN handles[s].futs /\ handles[s].futs[f].st # "done" /\ Budget
  /\ name = "complete" => ~handles[s].futs[f].rdy
  /\ UNCHANGED <<slots, lifeSet, pending, idles, issued, obj, heldD, enabled, gtok, kern, rdy, edgeq, closeBit,
                 tdl, treg, heap, expired, nextCtr, now, pc, cbCount, nfaults, nextIdle, failNext>>
  /\ LET h == handles[s]
         fu == h.futs[f]
         v == 1000 + f
         h1 == IF name = "complete" THEN [h EXCEPT !.futs[f].rdy = TRUE, !.futs[f].v = v] ELSE h
         woken == fu.wk /\ fu.st = "parked"        \* (a waker of a dropped task does nothing)
         h2 == [h1 EXCEPT !.futs[f].wk = FALSE]
         h3 == IF woken THEN [SendRunnable(h2, f) EXCEPT !.futs[f].st = "queued"] ELSE h2
     IN /\ handles' = [handles EXCEPT ![s] = h3]
        /\ pingCnt' = [pingCnt EXCEPT ![s] = IF woken /\ ~h.notified THEN (IF @ < 2 THEN @ + 1 ELSE @) ELSE @]
        /\ Emit(WithSnap(<<OpEv(name, IF name = "complete" THEN [s |-> s, f |-> f, v |-> v] ELSE [s |-> s, f |-> f]),
                           RetEv(name, IF fu.wk THEN "ok" ELSE "nowaker", <<>>)>>))

\* the driver feeds the stream: an item, or its end; the stream wakes the waker it was polled with (a ping)
Push(name, s) ==
  /\ CanOp(name) /\ KindOf(s) = "stream" /\ ~handles[s].ended /\ handles[s].n < 3 /\ Budget
  /\ UNCHANGED <<slots, lifeSet, pending, idles, issued, obj, heldD, enabled, gtok, kern, rdy, edgeq, closeBit,
                 tdl, treg, heap, expired, nextCtr, now, pc, cbCount, nfaults, nextIdle, failNext>>
  /\ LET h == handles[s]
         m == s * 100 + h.n + 1
     IN /\ handles' = [handles EXCEPT ![s] = IF name = "push" THEN [h EXCEPT !.q = Append(@, m), !.n = @ + 1, !.wk = FALSE]
                                                            ELSE [h EXCEPT !.ended = TRUE, !.wk = FALSE]]
        /\ pingCnt' = [pingCnt EXCEPT ![s] = IF h.wk /\ obj[s] # "gone" THEN (IF @ < 2 THEN @ + 1 ELSE @) ELSE @]
        /\ Emit(WithSnap(<<OpEv(name, IF name = "push" THEN [s |-> s, m |-> m] ELSE [s |-> s]), RetEv(name, "ok", <<>>)>>))

Wr(s, c) ==
  /\ CanOp("wr") /\ KindOf(s) = "comp" /\ c \in 1..NC(s) /\ obj[s] # "gone" /\ Budget
  /\ UNCHANGED <<slots, lifeSet, pending, idles, issued, obj, heldD, enabled, gtok, kern, pingCnt, closeBit, handles,
                 tdl, treg, heap, expired, nextCtr, now, pc, cbCount, nfaults, nextIdle, failNext>>
  /\ LET f == FdOfM(s, c) IN
     /\ rdy' = [rdy EXCEPT ![f] = IF @ < 2 THEN @ + 1 ELSE @]
     /\ edgeq' = IF kern[f].on /\ kern[f].mode = "edge" /\ kern[f].r THEN edgeq \cup {f} ELSE edgeq
  /\ Emit(WithSnap(<<OpEv("wr", [s |-> s, c |-> c - 1]), RetEv("wr", "ok", <<>>)>>))

Rd(s, c) ==
  /\ CanOp("rd") /\ KindOf(s) = "comp" /\ c \in 1..NC(s) /\ obj[s] # "gone" /\ Budget
  /\ UNCHANGED <<slots, lifeSet, pending, idles, issued, obj, heldD, enabled, gtok, kern, edgeq, pingCnt, closeBit, handles,
                 tdl, treg, heap, expired, nextCtr, now, pc, cbCount, nfaults, nextIdle, failNext>>
  /\ rdy' = [rdy EXCEPT ![FdOfM(s, c)] = 0]
  /\ Emit(WithSnap(<<OpEv("rd", [s |-> s, c |-> c - 1]), RetEv("rd", "ok", [n |-> rdy[FdOfM(s, c)]])>>))

\* Timer::set_deadline through the held Dispatcher, immediately followed by update() (the documented protocol)
SetDeadline(s, d) ==
  /\ CanOp("set_deadline") /\ KindOf(s) = "timer" /\ heldD[s] /\ obj[s] = "loop" /\ ~Borrowed(s) /\ Budget
  /\ UNCHANGED <<slots, lifeSet, pending, idles, issued, obj, heldD, enabled, gtok, kern, rdy, edgeq, pingCnt, closeBit, handles,
                 treg, heap, expired, nextCtr, now, pc, cbCount, nfaults, nextIdle, failNext>>
  /\ tdl' = [tdl EXCEPT ![s] = [has |-> TRUE, v |-> d]]
  /\ Emit(WithSnap(<<OpEv("set_deadline", [s |-> s, d |-> d]), RetEv("set_deadline", "ok", <<>>)>>))

Advance ==
  /\ pc = "top" /\ "advance" \in TopOps /\ now < MaxTime /\ steps < MaxSteps
  /\ UNCHANGED <<slots, lifeSet, pending, idles, issued, obj, heldD, enabled, gtok, kern, rdy, edgeq, pingCnt, closeBit, handles,
                 tdl, treg, heap, expired, nextCtr, pc, dsp, cbCount, nfaults, nextIdle, failNext>>
  /\ now' = now + 1 /\ steps' = steps + 1
  /\ Emit(<<[e |-> "op", op |-> "advance", ctx |-> 0, k |-> now + 1], [e |-> "opret", op |-> "advance", ctx |-> 0, r |-> "ok"],
            SnapEv(slots, lifeSet, pending, idles, heap, kern)>>)

Fault(s, call) ==
  /\ pc = "top" /\ "fault" \in TopOps /\ nfaults < MaxFaults /\ steps < MaxSteps
  /\ UNCHANGED <<slots, lifeSet, pending, idles, issued, obj, heldD, enabled, gtok, kern, rdy, edgeq, pingCnt, closeBit, handles,
                 tdl, treg, heap, expired, nextCtr, now, pc, dsp, cbCount, nextIdle>>
  /\ <<s, call>> \notin failNext
  /\ failNext' = failNext \cup {<<s, call>>} /\ nfaults' = nfaults + 1 /\ steps' = steps + 1
  /\ Emit(<<[e |-> "op", op |-> "fault", ctx |-> 0, s |-> s, call |-> call], [e |-> "opret", op |-> "fault", ctx |-> 0, r |-> "ok"],
            SnapEv(slots, lifeSet, pending, idles, heap, kern)>>)

InsertIdle ==
  /\ CanOp("insert_idle") /\ nextIdle.n <= 3 /\ Budget
  /\ UNCHANGED <<slots, lifeSet, pending, issued, obj, heldD, enabled, gtok, kern, rdy, edgeq, pingCnt, closeBit, handles,
                 tdl, treg, heap, expired, nextCtr, now, pc, cbCount, nfaults, failNext>>
  \* nextIdle = [n: next idle id, h: ids whose Idle handle the driver still holds (cancel consumes the handle)]
  /\ idles' = Append(idles, [i |-> nextIdle.n, live |-> TRUE]) /\ nextIdle' = [n |-> nextIdle.n + 1, h |-> nextIdle.h \cup {nextIdle.n}]
  /\ Emit(WithSnap(<<OpEv("insert_idle", [i |-> nextIdle.n]), RetEv("insert_idle", "ok", [i |-> nextIdle.n])>>))

\* Idle::cancel on the handle of idle i (the closure is emptied wherever the Rc currently lives)
CancelTaken(i) == [k \in DOMAIN dsp.idl |-> IF dsp.idl[k].i = i THEN [dsp.idl[k] EXCEPT !.live = FALSE] ELSE dsp.idl[k]]
CancelIdle(i) ==
  /\ CanOp("cancel_idle") /\ i \in nextIdle.h
  /\ nextIdle' = [nextIdle EXCEPT !.h = @ \ {i}]
  /\ UNCHANGED <<slots, lifeSet, pending, issued, obj, heldD, enabled, gtok, kern, rdy, edgeq, pingCnt, closeBit, handles,
                 tdl, treg, heap, expired, nextCtr, now, pc, cbCount, nfaults, failNext>>
  /\ ~(pc = "inidle" /\ dsp.idl[dsp.i].i = i)          \* an idle cancelling itself is outside the contract
  /\ IF pc = "top" THEN /\ steps < MaxSteps /\ steps' = steps + 1 /\ dsp' = dsp
     ELSE /\ dsp.ops > 0 /\ steps' = steps
          \* the handle and the entry of the list being run share one Rc
          /\ dsp' = [dsp EXCEPT !.ops = @ - 1, !.idl = CancelTaken(i)]
  /\ idles' = [k \in DOMAIN idles |-> IF idles[k].i = i THEN [idles[k] EXCEPT !.live = FALSE] ELSE idles[k]]
  /\ Emit(WithSnap(<<OpEv("cancel_idle", [i |-> i]), RetEv("cancel_idle", "ok", [i |-> i])>>))

(***************************************************************************)
(* dispatch(): the pipeline.                                               *)
(***************************************************************************)
DispatchBegin ==
  /\ pc = "top" /\ "dispatch" \in TopOps /\ steps < MaxSteps
  /\ UNCHANGED <<slots, lifeSet, pending, idles, issued, obj, heldD, enabled, gtok, kern, rdy, edgeq, pingCnt, closeBit, handles,
                 tdl, treg, heap, expired, nextCtr, now, cbCount, nfaults, nextIdle, failNext>>
  /\ steps' = steps + 1
  /\ pc' = "bs" /\ dsp' = [NoDsp EXCEPT !.i = 1]
  /\ Emit(<<[e |-> "op", op |-> "dispatch", ctx |-> 0]>>)

\* the instrumented lifecycle source returns a synthetic event on the before_sleep calls listed in its
\* declaration, provided it is registered (its own token is the one after its children's)
SynthWanted(s) == /\ \E k \in DOMAIN D(s).synth : D(s).synth[k] = cbCount.bs[s]
                  /\ NC(s) >= 1 /\ gtok[s][1] # NoTok
SynthKey(s) == <<gtok[s][1][1], gtok[s][1][2], NC(s)>>

\* before_sleep for lifecycle entry i (loop_logic.rs: first block of dispatch_events)
BeforeSleep ==
  /\ pc = "bs" /\ dsp.i <= Len(lifeSet)
  /\ UNCHANGED <<slots, lifeSet, pending, idles, issued, obj, heldD, enabled, gtok, kern, rdy, edgeq, pingCnt, closeBit, handles,
                 tdl, treg, heap, expired, nextCtr, now, steps, nfaults, nextIdle, failNext>>
  /\ LET t == lifeSet[dsp.i]
         s == SrcAt(t[1], t[2])
     IN IF s = NoSrc
        THEN \* unreachable!() in the code: the dispatch panics
             /\ pc' = "top" /\ dsp' = NoDsp /\ cbCount' = cbCount
             /\ Emit(<<[e |-> "opret", op |-> "dispatch", ctx |-> 0, r |-> "panic"],
                       SnapEv(slots, lifeSet, pending, idles, heap, kern)>>)
        ELSE /\ pc' = pc /\ cbCount' = [cbCount EXCEPT !.bs[s] = @ + 1]
             /\ dsp' = [dsp EXCEPT !.i = @ + 1, !.synth = IF SynthWanted(s) THEN Append(@, SynthKey(s)) ELSE @]
             /\ Emit(<<[e |-> "bs", s |-> s, r |-> "ok", synth |-> IF SynthWanted(s) THEN 1 ELSE 0]>>)

BsDone == /\ pc = "bs" /\ dsp.i > Len(lifeSet)
          /\ pc' = "poll" /\ dsp' = dsp
          /\ UNCHANGED <<slots, lifeSet, pending, idles, issued, obj, heldD, enabled, gtok, kern, rdy, edgeq, pingCnt, closeBit,
                         handles, tdl, treg, heap, expired, nextCtr, now, cbCount, steps, nfaults, nextIdle, failNext, mon, hist>>

\* the kernel reports fd f now
KReady(f) ==
  /\ kern[f].on
  /\ (kern[f].mode = "oneshot" => kern[f].armed)
  /\ LET own == {<<s, c>> \in UNION {{<<x, d>> : d \in 1..NC(x)} : x \in S} : FdOfM(s, c) = f}
         sc == CHOOSE p \in own : TRUE
         rd == kern[f].r /\ (IF KindOf(sc[1]) = "comp" THEN rdy[f] > 0 ELSE pingCnt[sc[1]] > 0 \/ closeBit[sc[1]] = "pending")
         wr == kern[f].w
     IN /\ rd \/ wr
        /\ (kern[f].mode = "edge" => f \in edgeq)

KEvent(f) == [key |-> kern[f].key,
              rd |-> LET own == CHOOSE p \in UNION {{<<x, d>> : d \in 1..NC(x)} : x \in S} : FdOfM(p[1], p[2]) = f IN
                     IF kern[f].r /\ (IF KindOf(own[1]) = "comp" THEN rdy[f] > 0 ELSE pingCnt[own[1]] > 0 \/ closeBit[own[1]] = "pending")
                     THEN 1 ELSE 0,
              wr |-> IF kern[f].w THEN 1 ELSE 0]

\* expired timers in heap order (ascending deadline; equal deadlines in any order)
ExpiredSeqs == LET E == {h \in heap : now >= h.dl} IN
               {q \in SetToSeqs(E) : \A i, j \in 1..Cardinality(E) : i < j => q[i].dl <= q[j].dl}

\* Poll::poll with timeout 0: any order of the ready fds, then the expired timers
Poll ==
  /\ pc = "poll"
  /\ UNCHANGED <<slots, lifeSet, pending, idles, issued, obj, heldD, enabled, gtok, rdy, pingCnt, closeBit, handles,
                 tdl, treg, nextCtr, now, cbCount, steps, nfaults, nextIdle, failNext>>
  /\ LET R == {f \in AllFds : KReady(f)} IN
     \E fq \in SetToSeqs(R), tq \in ExpiredSeqs :
       LET real == [i \in DOMAIN fq |-> KEvent(fq[i])]
           tim == [i \in DOMAIN tq |-> [key |-> tq[i].key, rd |-> 1, wr |-> 0]]
           polled == real \o tim
           keys == [i \in DOMAIN polled |-> polled[i].key]
           \* the synthetic events are dispatched first, then what the poll returned
           batch == [i \in DOMAIN dsp.synth |-> [key |-> dsp.synth[i], rd |-> 1, wr |-> 0]] \o polled
       IN /\ dsp' = [dsp EXCEPT !.batch = batch, !.nreal = Len(dsp.synth), !.i = 1, !.pos = 1]
          /\ kern' = [f \in AllFds |-> IF f \in R /\ kern[f].mode = "oneshot" THEN [kern[f] EXCEPT !.armed = FALSE] ELSE kern[f]]
          /\ edgeq' = edgeq \ R
          /\ heap' = heap \ {tq[i] : i \in DOMAIN tq}
          /\ expired' = {tq[i].ctr : i \in DOMAIN tq}
          /\ Emit(<<[e |-> "wait", timeout |-> 0, us |-> Us], [e |-> "batch", keys |-> keys, n_real |-> Len(real), us |-> Us]>>)
  /\ pc' = "bhe"

BeforeHandle ==
  /\ pc = "bhe" /\ dsp.i <= Len(lifeSet)
  /\ UNCHANGED <<slots, lifeSet, pending, idles, issued, obj, heldD, enabled, gtok, kern, rdy, edgeq, pingCnt, closeBit, handles,
                 tdl, treg, heap, expired, nextCtr, now, cbCount, steps, nfaults, nextIdle, failNext>>
  /\ LET t == lifeSet[dsp.i]
         s == SrcAt(t[1], t[2])
         \* the iterator ranges over the polled events only (never the synthetic ones: dsp.nreal = their number)
         keys == SelectSeq([i \in 1..(Len(dsp.batch) - dsp.nreal) |-> dsp.batch[dsp.nreal + i].key], LAMBDA k : <<k[1], k[2]>> = t)
     IN /\ s # NoSrc           \* (the empty-slot case already panicked in before_sleep)
        /\ Emit(<<[e |-> "bhe", s |-> s, keys |-> keys]>>)
  /\ dsp' = [dsp EXCEPT !.i = @ + 1] /\ pc' = pc

BheDone == /\ pc = "bhe" /\ dsp.i > Len(lifeSet)
           /\ pc' = "ev" /\ dsp' = dsp
           /\ Emit(<<[e |-> "synth", keys |-> dsp.synth]>>)
           /\ UNCHANGED <<slots, lifeSet, pending, idles, issued, obj, heldD, enabled, gtok, kern, rdy, edgeq, pingCnt, closeBit,
                          handles, tdl, treg, heap, expired, nextCtr, now, cbCount, steps, nfaults, nextIdle, failNext>>

CurEv == dsp.batch[dsp.pos]

\* slot lookup for the current event; an unknown / empty slot is skipped
Lookup ==
  /\ pc = "ev" /\ dsp.pos <= Len(dsp.batch) /\ dsp.disp = NoSrc
  /\ UNCHANGED <<slots, lifeSet, pending, idles, issued, obj, heldD, enabled, gtok, kern, rdy, edgeq, pingCnt, closeBit, handles,
                 tdl, treg, heap, expired, nextCtr, now, cbCount, steps, nfaults, nextIdle, failNext>>
  /\ LET k == CurEv.key
         s == SrcAt(k[1], k[2])
     IN IF s = NoSrc
        THEN /\ dsp' = [dsp EXCEPT !.pos = @ + 1]
             /\ Emit(<<[e |-> "lookup", key |-> k, found |-> 0]>>)
        ELSE /\ dsp' = [dsp EXCEPT !.disp = s]
             /\ Emit(<<[e |-> "lookup", key |-> k, found |-> 1]>>)
  /\ pc' = pc

PeEv(s) == [e |-> "pe", s |-> s, key |-> CurEv.key, rd |-> CurEv.rd, wr |-> CurEv.wr]

\* Does process_events of s reach the user callback for the current event, and for which child?
CbChild(s) ==
  IF KindOf(s) = "timer"
  THEN IF treg[s].on /\ tdl[s].has /\ treg[s].key = CurEv.key
          /\ ("stale_timer_expiry" \in Variants \/ treg[s].ctr \in expired) THEN 1 ELSE 0
  ELSE IF \E c \in 1..NC(s) : gtok[s][c] = CurEv.key
       THEN CHOOSE c \in 1..NC(s) : gtok[s][c] = CurEv.key ELSE 0

\* Channel::process_events: what the `tries`+1-th iteration of its drain loop does
ChanStep(s, tries) ==
  IF tries >= ChanLimit THEN [what |-> "limit", m |-> 0]
  ELSE IF handles[s].q # <<>> THEN [what |-> "msg", m |-> Head(handles[s].q)]
  ELSE IF handles[s].snd = 0 THEN [what |-> "closed", m |-> 0]
  ELSE [what |-> "empty", m |-> 0]

\* Executor::process_events: the run loop from its `tries`+1-th iteration on, up to the next completion callback
RECURSIVE ExecRun(_, _, _, _)
ExecRun(s, q, futs, tries) ==
  IF tries >= ChanLimit THEN [what |-> "limit", q |-> q, futs |-> futs, tries |-> tries, evs |-> <<>>, v |-> 0]
  ELSE IF q = <<>> THEN [what |-> "empty", q |-> q, futs |-> futs, tries |-> tries, evs |-> <<>>, v |-> 0]
  ELSE LET f == Head(q)
           pe == [e |-> "poll", s |-> s, f |-> f, k |-> futs[f].polls]
       IN IF futs[f].rdy
          THEN [what |-> "cb", q |-> Tail(q), tries |-> tries + 1, v |-> futs[f].v,
                futs |-> [futs EXCEPT ![f].st = "done", ![f].wk = FALSE, ![f].polls = @ + 1],
                evs |-> <<pe, [e |-> "pollret", s |-> s, f |-> f, r |-> "ready", v |-> futs[f].v],
                          [e |-> "fdrop", s |-> s, f |-> f]>>]
          ELSE LET r == ExecRun(s, Tail(q), [futs EXCEPT ![f].st = "parked", ![f].wk = TRUE, ![f].polls = @ + 1], tries + 1)
               IN [r EXCEPT !.evs = <<pe, [e |-> "pollret", s |-> s, f |-> f, r |-> "pending", v |-> 0]>> \o @]

\* process_events entered (the dispatcher is now mutably borrowed); the callback starts, or not
ProcessBegin ==
  /\ pc = "ev" /\ dsp.pos <= Len(dsp.batch) /\ dsp.disp # NoSrc
  /\ UNCHANGED <<slots, lifeSet, pending, idles, issued, obj, heldD, enabled, gtok, kern, rdy, edgeq,
                 tdl, treg, heap, nextCtr, now, steps, nfaults, nextIdle, failNext>>
  /\ LET s == dsp.disp
         c == CbChild(s)
     IN IF c = 0
        THEN \* token not ours: Ok(Continue) without touching anything
             /\ pc' = "post" /\ dsp' = [dsp EXCEPT !.ev = <<0, 0, 0>>, !.act = "continue"]
             \* (the instrumented lifecycle source recognises its own synthetic token and logs it)
             /\ Emit(<<PeEv(s)>>
                     \o (IF IsLife(s) /\ NC(s) >= 1 /\ gtok[s][1] # NoTok /\ CurEv.key = SynthKey(s)
                         THEN <<[e |-> "synth_pe", s |-> s]>> ELSE <<>>)
                     \o <<[e |-> "peret", s |-> s, act |-> "continue", us |-> Us]>>)
             /\ UNCHANGED <<pingCnt, closeBit, cbCount, expired, handles>>
        ELSE IF KindOf(s) = "ping"
        THEN \* drain the eventfd; callback iff pinged; Remove iff the close marker was there
             IF pingCnt[s] > 0
             THEN /\ pc' = "incb" /\ dsp' = [dsp EXCEPT !.ops = MaxCbOps, !.ev = <<IF closeBit[s] = "pending" THEN 1 ELSE 0, 0, 0>>]
                  /\ pingCnt' = [pingCnt EXCEPT ![s] = 0]
                  /\ closeBit' = [closeBit EXCEPT ![s] = IF @ = "pending" THEN "seen" ELSE @]
                  /\ cbCount' = [cbCount EXCEPT !.cb[s] = @ + 1]
                  /\ Emit(<<PeEv(s), [e |-> "cb", s |-> s, sub |-> 0, p |-> 0, k |-> cbCount.cb[s], us |-> Us]>>)
                  /\ UNCHANGED <<expired, handles>>
             ELSE /\ pc' = "post"
                  /\ dsp' = [dsp EXCEPT !.ev = <<IF closeBit[s] = "pending" THEN 1 ELSE 0, 0, 0>>,
                                        !.act = IF closeBit[s] = "pending" THEN "remove" ELSE "continue"]
                  /\ closeBit' = [closeBit EXCEPT ![s] = IF @ = "pending" THEN "seen" ELSE @]
                  /\ Emit(<<PeEv(s), [e |-> "peret", s |-> s, act |-> IF closeBit[s] = "pending" THEN "remove" ELSE "continue", us |-> Us]>>)
                  /\ UNCHANGED <<pingCnt, cbCount, expired, handles>>
        ELSE IF KindOf(s) = "stream"
        THEN \* the inner ping source drains the eventfd; then poll_next until Pending (no batch limit)
             IF pingCnt[s] = 0
             THEN /\ pc' = "post" /\ dsp' = [dsp EXCEPT !.ev = <<0, 0, 0>>, !.act = "continue"]
                  /\ UNCHANGED <<pingCnt, closeBit, cbCount, expired, handles>>
                  /\ Emit(<<PeEv(s), [e |-> "peret", s |-> s, act |-> "continue", us |-> Us]>>)
             ELSE LET h == handles[s] IN
                  /\ pingCnt' = [pingCnt EXCEPT ![s] = 0] /\ UNCHANGED <<closeBit, expired>>
                  /\ IF h.q # <<>> \/ h.ended
                     THEN /\ pc' = "incb" /\ dsp' = [dsp EXCEPT !.ops = MaxCbOps, !.ev = <<IF h.q # <<>> THEN 1 ELSE -1, 1, 0>>]
                          /\ handles' = [handles EXCEPT ![s].q = IF h.q # <<>> THEN Tail(@) ELSE @]
                          /\ cbCount' = [cbCount EXCEPT !.cb[s] = @ + 1]
                          /\ Emit(<<PeEv(s), [e |-> "cb", s |-> s, sub |-> 0, p |-> IF h.q # <<>> THEN Head(h.q) ELSE -1,
                                               k |-> cbCount.cb[s], us |-> Us]>>)
                     ELSE /\ pc' = "post" /\ dsp' = [dsp EXCEPT !.ev = <<0, 0, 0>>, !.act = "continue"]
                          /\ handles' = [handles EXCEPT ![s].wk = TRUE] /\ cbCount' = cbCount
                          /\ Emit(<<PeEv(s), [e |-> "peret", s |-> s, act |-> "continue", us |-> Us]>>)
        ELSE IF KindOf(s) = "exec"
        THEN \* the inner ping source drains the eventfd and calls the run loop (clearing `notified` first)
             IF pingCnt[s] = 0
             THEN /\ pc' = "post" /\ dsp' = [dsp EXCEPT !.ev = <<0, 0, 0>>, !.act = "continue"]
                  /\ UNCHANGED <<pingCnt, closeBit, cbCount, expired, handles>>
                  /\ Emit(<<PeEv(s), [e |-> "peret", s |-> s, act |-> "continue", us |-> Us]>>)
             ELSE LET run == ExecRun(s, handles[s].runq, handles[s].futs, 0)
                      h2 == [handles[s] EXCEPT !.runq = run.q, !.futs = run.futs, !.notified = FALSE]
                  IN /\ handles' = [handles EXCEPT ![s] = h2] /\ UNCHANGED <<closeBit, expired>>
                     /\ IF run.what = "cb"
                        THEN /\ pc' = "incb" /\ dsp' = [dsp EXCEPT !.ops = MaxCbOps, !.ev = <<run.tries, 1, 0>>]
                             /\ pingCnt' = [pingCnt EXCEPT ![s] = 0] /\ cbCount' = [cbCount EXCEPT !.cb[s] = @ + 1]
                             /\ Emit(<<PeEv(s)>> \o run.evs
                                     \o <<[e |-> "cb", s |-> s, sub |-> 0, p |-> run.v, k |-> cbCount.cb[s], us |-> Us]>>)
                        ELSE /\ pc' = "post" /\ dsp' = [dsp EXCEPT !.ev = <<0, 0, 0>>, !.act = "continue"]
                             \* stopped for the batch limit: the executor pings itself
                             /\ pingCnt' = [pingCnt EXCEPT ![s] = IF run.what = "limit" /\ "exec_no_rearm" \notin Variants THEN 1 ELSE 0]
                             /\ cbCount' = cbCount
                             /\ Emit(<<PeEv(s)>> \o run.evs \o <<[e |-> "peret", s |-> s, act |-> "continue", us |-> Us]>>)
        ELSE IF KindOf(s) = "chan"
        THEN \* drain the eventfd, then the channel's loop: the first try_recv
             LET r == ChanStep(s, 0) IN
             /\ pingCnt' = [pingCnt EXCEPT ![s] = 0] /\ UNCHANGED <<closeBit, expired>>
             /\ CASE r.what = "msg" ->
                       /\ pc' = "incb" /\ dsp' = [dsp EXCEPT !.ops = MaxCbOps, !.ev = <<1, 1, 0>>]
                       /\ handles' = [handles EXCEPT ![s].q = Tail(@)] /\ cbCount' = [cbCount EXCEPT !.cb[s] = @ + 1]
                       /\ Emit(<<PeEv(s), [e |-> "cb", s |-> s, sub |-> 0, p |-> r.m, k |-> cbCount.cb[s], us |-> Us]>>)
                  [] r.what = "closed" ->
                       /\ pc' = "incb" /\ dsp' = [dsp EXCEPT !.ops = MaxCbOps, !.ev = <<-1, 1, 0>>]
                       /\ handles' = [handles EXCEPT ![s].closed = TRUE] /\ cbCount' = [cbCount EXCEPT !.cb[s] = @ + 1]
                       /\ Emit(<<PeEv(s), [e |-> "cb", s |-> s, sub |-> 0, p |-> -1, k |-> cbCount.cb[s], us |-> Us]>>)
                  [] OTHER -> \* Empty
                       /\ pc' = "post" /\ dsp' = [dsp EXCEPT !.ev = <<0, 0, 0>>, !.act = "continue"]
                       /\ UNCHANGED <<handles, cbCount>>
                       /\ Emit(<<PeEv(s), [e |-> "peret", s |-> s, act |-> "continue", us |-> Us]>>)
        ELSE /\ pc' = "incb" /\ dsp' = [dsp EXCEPT !.ops = MaxCbOps, !.ev = <<0, c, 0>>]
             /\ handles' = handles
             /\ cbCount' = [cbCount EXCEPT !.cb[s] = @ + 1]
             /\ expired' = IF KindOf(s) = "timer" THEN expired \ {treg[s].ctr} ELSE expired
             /\ Emit(<<PeEv(s), [e |-> "cb", s |-> s, sub |-> IF KindOf(s) = "comp" THEN c - 1 ELSE 0,
                                 p |-> IF KindOf(s) = "timer" THEN tdl[s].v * Tick ELSE CurEv.rd + 2 * CurEv.wr,
                                 k |-> cbCount.cb[s], us |-> Us]>>)
             /\ UNCHANGED <<pingCnt, closeBit>>

\* the callback returns `ret`; process_events returns the source's post action
CbRetSet(s) == IF KindOf(s) = "comp" THEN Rets ELSE IF KindOf(s) = "timer" THEN TimerRets ELSE {"none"}
\* a channel callback returned: the drain loop goes on (next message / Closed / Empty / batch limit)
ChanCallbackEnd ==
  /\ pc = "incb" /\ KindOf(dsp.disp) = "chan"
  /\ UNCHANGED <<slots, lifeSet, pending, idles, issued, obj, heldD, enabled, gtok, kern, rdy, edgeq, closeBit,
                 tdl, treg, heap, expired, nextCtr, now, steps, nfaults, nextIdle, failNext>>
  /\ LET s == dsp.disp
         tries == dsp.ev[1]
         cbret == [e |-> "cbret", s |-> s, ret |-> "none", arg |-> 0, us |-> Us]
     IN IF tries = -1
        THEN \* Closed was delivered: Remove
             /\ pc' = "post" /\ dsp' = [dsp EXCEPT !.ops = 0, !.act = "remove"]
             /\ Emit(<<cbret, [e |-> "peret", s |-> s, act |-> "remove", us |-> Us]>>)
             /\ UNCHANGED <<handles, pingCnt, cbCount>>
        ELSE LET r == ChanStep(s, tries) IN
             CASE r.what = "msg" ->
                    /\ pc' = pc /\ dsp' = [dsp EXCEPT !.ops = MaxCbOps, !.ev = <<tries + 1, 1, 0>>]
                    /\ handles' = [handles EXCEPT ![s].q = Tail(@)] /\ cbCount' = [cbCount EXCEPT !.cb[s] = @ + 1]
                    /\ pingCnt' = pingCnt
                    /\ Emit(<<cbret, [e |-> "cb", s |-> s, sub |-> 0, p |-> r.m, k |-> cbCount.cb[s], us |-> Us]>>)
               [] r.what = "closed" ->
                    /\ pc' = pc /\ dsp' = [dsp EXCEPT !.ops = MaxCbOps, !.ev = <<-1, 1, 0>>]
                    /\ handles' = [handles EXCEPT ![s].closed = TRUE] /\ cbCount' = [cbCount EXCEPT !.cb[s] = @ + 1]
                    /\ pingCnt' = pingCnt
                    /\ Emit(<<cbret, [e |-> "cb", s |-> s, sub |-> 0, p |-> -1, k |-> cbCount.cb[s], us |-> Us]>>)
               [] r.what = "limit" ->
                    \* stopped for the batch limit: re-notify itself so that the rest is handled by the next dispatch
                    /\ pc' = "post" /\ dsp' = [dsp EXCEPT !.ops = 0, !.act = "continue"]
                    /\ pingCnt' = [pingCnt EXCEPT ![s] = IF "chan_no_rearm" \in Variants THEN @ ELSE (IF @ < 2 THEN @ + 1 ELSE @)]
                    /\ UNCHANGED <<handles, cbCount>>
                    /\ Emit(<<cbret, [e |-> "peret", s |-> s, act |-> "continue", us |-> Us]>>)
               [] OTHER -> \* Empty: readiness cleared
                    /\ pc' = "post" /\ dsp' = [dsp EXCEPT !.ops = 0, !.act = "continue"]
                    /\ UNCHANGED <<handles, pingCnt, cbCount>>
                    /\ Emit(<<cbret, [e |-> "peret", s |-> s, act |-> "continue", us |-> Us]>>)

\* a callback of a StreamSource returned: after None the source removes itself, otherwise poll_next again
StreamCallbackEnd ==
  /\ pc = "incb" /\ KindOf(dsp.disp) = "stream"
  /\ UNCHANGED <<slots, lifeSet, pending, idles, issued, obj, heldD, enabled, gtok, kern, rdy, edgeq, closeBit, pingCnt,
                 tdl, treg, heap, expired, nextCtr, now, steps, nfaults, nextIdle, failNext>>
  /\ LET s == dsp.disp
         h == handles[s]
         cbret == [e |-> "cbret", s |-> s, ret |-> "none", arg |-> 0, us |-> Us]
     IN IF dsp.ev[1] = -1
        THEN /\ pc' = "post" /\ dsp' = [dsp EXCEPT !.ops = 0, !.act = "remove"]
             /\ UNCHANGED <<handles, cbCount>>
             /\ Emit(<<cbret, [e |-> "peret", s |-> s, act |-> "remove", us |-> Us]>>)
        ELSE IF h.q # <<>> \/ h.ended
        THEN /\ pc' = pc /\ dsp' = [dsp EXCEPT !.ops = MaxCbOps, !.ev = <<IF h.q # <<>> THEN 1 ELSE -1, 1, 0>>]
             /\ handles' = [handles EXCEPT ![s].q = IF h.q # <<>> THEN Tail(@) ELSE @]
             /\ cbCount' = [cbCount EXCEPT !.cb[s] = @ + 1]
             /\ Emit(<<cbret, [e |-> "cb", s |-> s, sub |-> 0, p |-> IF h.q # <<>> THEN Head(h.q) ELSE -1,
                                k |-> cbCount.cb[s], us |-> Us]>>)
        ELSE /\ pc' = "post" /\ dsp' = [dsp EXCEPT !.ops = 0, !.act = "continue"]
             /\ handles' = [handles EXCEPT ![s].wk = TRUE] /\ cbCount' = cbCount
             /\ Emit(<<cbret, [e |-> "peret", s |-> s, act |-> "continue", us |-> Us]>>)

\* a completion callback of the executor returned: the run loop goes on
ExecCallbackEnd ==
  /\ pc = "incb" /\ KindOf(dsp.disp) = "exec"
  /\ UNCHANGED <<slots, lifeSet, pending, idles, issued, obj, heldD, enabled, gtok, kern, rdy, edgeq, closeBit,
                 tdl, treg, heap, expired, nextCtr, now, steps, nfaults, nextIdle, failNext>>
  /\ LET s == dsp.disp
         cbret == [e |-> "cbret", s |-> s, ret |-> "none", arg |-> 0, us |-> Us]
         run == ExecRun(s, handles[s].runq, handles[s].futs, dsp.ev[1])
         h2 == [handles[s] EXCEPT !.runq = run.q, !.futs = run.futs]
     IN /\ handles' = [handles EXCEPT ![s] = h2]
        /\ IF run.what = "cb"
           THEN /\ pc' = pc /\ dsp' = [dsp EXCEPT !.ops = MaxCbOps, !.ev = <<run.tries, 1, 0>>]
                /\ pingCnt' = pingCnt /\ cbCount' = [cbCount EXCEPT !.cb[s] = @ + 1]
                /\ Emit(<<cbret>> \o run.evs \o <<[e |-> "cb", s |-> s, sub |-> 0, p |-> run.v, k |-> cbCount.cb[s], us |-> Us]>>)
           ELSE /\ pc' = "post" /\ dsp' = [dsp EXCEPT !.ops = 0, !.act = "continue"]
                /\ pingCnt' = [pingCnt EXCEPT ![s] = IF run.what = "limit" /\ "exec_no_rearm" \notin Variants
                                                      THEN (IF @ < 2 THEN @ + 1 ELSE @) ELSE @]
                /\ cbCount' = cbCount
                /\ Emit(<<cbret>> \o run.evs \o <<[e |-> "peret", s |-> s, act |-> "continue", us |-> Us]>>)

CallbackEnd(ret) ==
  /\ pc = "incb" /\ ret \in CbRetSet(dsp.disp) /\ KindOf(dsp.disp) \notin {"chan", "exec", "stream"}
  /\ LET s == dsp.disp
         act == CASE KindOf(s) = "ping" -> IF dsp.ev[1] = 1 THEN "remove" ELSE "continue"
                  [] KindOf(s) = "timer" -> IF ret = "drop" THEN "remove" ELSE "continue"
                  \* a composite combines its children's results with `|`: the children whose token it was
                  \* not return Continue, so with several children anything else becomes Reregister
                  [] OTHER -> IF NC(s) > 1 /\ ret \notin {"continue", "err"} THEN "reregister" ELSE ret
         ndl == IF ret = "to1" THEN now + 1 ELSE now
     IN /\ IF KindOf(s) = "timer" /\ ret # "drop"
           THEN \* insert_reuse under the registration's counter
                /\ heap' = heap \cup {[dl |-> ndl, key |-> treg[s].key, ctr |-> treg[s].ctr]}
                /\ tdl' = [tdl EXCEPT ![s] = [has |-> TRUE, v |-> ndl]]
           ELSE UNCHANGED <<heap, tdl>>
        /\ Emit(<<[e |-> "cbret", s |-> s, ret |-> IF ret \in {"to0", "to1"} THEN "to" ELSE ret,
                   arg |-> IF ret \in {"to0", "to1"} THEN ndl ELSE 0, us |-> Us],
                  [e |-> "peret", s |-> s, act |-> act, us |-> Us]>>)
        /\ dsp' = [dsp EXCEPT !.ev = <<dsp.ev[1], dsp.ev[2], 1>>, !.ops = 0, !.act = act,
                              !.err = @ \/ act = "err"]
        /\ pc' = "post"
        /\ UNCHANGED <<slots, lifeSet, pending, idles, issued, obj, heldD, enabled, gtok, kern, rdy, edgeq, pingCnt, closeBit,
                       handles, treg, expired, nextCtr, now, cbCount, steps, nfaults, nextIdle, failNext>>
  /\ TRUE

\* take-and-reset the pending cell, merge, apply the post action, removal check (loop_logic.rs)
PostAction ==
  /\ pc = "post"
  /\ UNCHANGED <<idles, issued, heldD, rdy, pingCnt, closeBit, tdl, now, cbCount, steps, nfaults, nextIdle>>
  /\ LET s == dsp.disp
         k == CurEv.key
         id == k[1]  ver == k[2]
         ret0 == dsp.act
         taken == pending
         act == IF ret0 = "err" THEN (IF "pending_leaks_on_error" \in Variants THEN "continue" ELSE "continue")
                ELSE IF ret0 = "continue" THEN taken ELSE ret0
         pend2 == IF ret0 = "err" /\ "pending_leaks_on_error" \in Variants THEN pending ELSE "continue"
         r1 == CASE act = "reregister" -> DReregister(RS, lifeSet, failNext, s, id, ver)
                 [] act = "disable"    -> DUnregister(RS, lifeSet, failNext, s, id, ver)
                 [] OTHER -> [ok |-> TRUE, rs |-> RS, fn |-> failNext, life |-> lifeSet, evs |-> <<>>]
         sl1 == IF act = "remove" /\ GetOk(id, ver) THEN [slots EXCEPT ![id + 1].src = NoSrc] ELSE slots
         \* removal check: slot empty (or version moved on) => unregister the cloned dispatcher
         gone == ~((id + 1) \in DOMAIN sl1 /\ sl1[id + 1].ver = ver) \/ sl1[id + 1].src = NoSrc
         r2 == IF gone THEN DUnregister(r1.rs, r1.life, r1.fn, s, id, ver)
               ELSE [ok |-> TRUE, rs |-> r1.rs, fn |-> r1.fn, life |-> r1.life, evs |-> <<>>]
         \* the loop's clone is dropped at the end of the iteration
         stillInSlot == \E i \in DOMAIN sl1 : sl1[i].src = s
         dies == ~stillInSlot /\ ~heldD[s] /\ obj[s] = "loop"
         rs3 == IF dies THEN DropRS(r2.rs, s) ELSE r2.rs
         obj2 == IF dies THEN "gone" ELSE IF ~stillInSlot /\ obj[s] = "loop" THEN "held" ELSE obj[s]
         applyEv == <<[e |-> "apply", key |-> k, act |-> act]>>
     IN IF ret0 = "err" /\ "stop_batch_on_error" \in Variants
        THEN \* the code before the fix: `?` returns at once, the rest of the batch is dropped
             /\ pending' = pend2 /\ pc' = "ret" /\ dsp' = [dsp EXCEPT !.disp = NoSrc, !.err = TRUE]
             /\ UNCHANGED <<slots, lifeSet, failNext, gtok, kern, heap, expired, treg, nextCtr, edgeq, obj, enabled, handles, mon, hist>>
        ELSE
        /\ pending' = pend2 /\ handles' = HandlesAfterDrop(s, dies)
        /\ slots' = sl1 /\ lifeSet' = r2.life /\ failNext' = r2.fn /\ ApplyRS(rs3)
        /\ obj' = [obj EXCEPT ![s] = obj2]
        /\ enabled' = [enabled EXCEPT ![s] = IF gone \/ act = "disable" THEN FALSE ELSE @]
        /\ Emit(applyEv \o r1.evs \o r2.evs \o (IF dies THEN DropEvs(s, FALSE) ELSE <<>>))
        \* a failing re-registration / unregistration of the post action is reported by this dispatch as well
        \* (variant: the error of the post action's re-registration leaves the dispatch at once, dropping the rest of the batch)
        /\ IF ~r1.ok /\ "postaction_error_stops_batch" \in Variants
           THEN pc' = "ret" /\ dsp' = [dsp EXCEPT !.disp = NoSrc, !.err = TRUE]
           ELSE pc' = "ev" /\ dsp' = [dsp EXCEPT !.disp = NoSrc, !.pos = @ + 1, !.err = @ \/ ~r1.ok]

EventsDone ==
  /\ pc = "ev" /\ dsp.pos > Len(dsp.batch) /\ dsp.disp = NoSrc
  /\ IF dsp.err THEN pc' = "ret" /\ dsp' = dsp
     ELSE pc' = "idle" /\ dsp' = [dsp EXCEPT !.idl = idles, !.i = 1]
  /\ idles' = IF dsp.err THEN idles ELSE <<>>        \* mem::take
  /\ UNCHANGED <<slots, lifeSet, pending, issued, obj, heldD, enabled, gtok, kern, rdy, edgeq, pingCnt, closeBit, handles,
                 tdl, treg, heap, expired, nextCtr, now, cbCount, steps, nfaults, nextIdle, failNext, mon, hist>>

\* run (or skip, if cancelled) the next idle of the taken list
IdleBegin ==
  /\ pc = "idle" /\ dsp.i <= Len(dsp.idl)
  /\ UNCHANGED <<slots, lifeSet, pending, idles, issued, obj, heldD, enabled, gtok, kern, rdy, edgeq, pingCnt, closeBit, handles,
                 tdl, treg, heap, expired, nextCtr, now, cbCount, steps, nfaults, nextIdle, failNext>>
  /\ IF dsp.idl[dsp.i].live
     THEN /\ pc' = "inidle" /\ dsp' = [dsp EXCEPT !.ops = MaxCbOps]
          /\ Emit(<<[e |-> "idle_run", i |-> dsp.idl[dsp.i].i]>>)
     ELSE /\ pc' = pc /\ dsp' = [dsp EXCEPT !.i = @ + 1]
          /\ UNCHANGED <<mon, hist>>

IdleEnd ==
  /\ pc = "inidle"
  /\ UNCHANGED <<slots, lifeSet, pending, idles, issued, obj, heldD, enabled, gtok, kern, rdy, edgeq, pingCnt, closeBit, handles,
                 tdl, treg, heap, expired, nextCtr, now, cbCount, steps, nfaults, nextIdle, failNext>>
  /\ pc' = "idle" /\ dsp' = [dsp EXCEPT !.i = @ + 1, !.ops = 0]
  /\ Emit(<<[e |-> "idle_ret", i |-> dsp.idl[dsp.i].i]>>)

DispatchEnd ==
  /\ \/ pc = "idle" /\ dsp.i > Len(dsp.idl)
     \/ pc = "ret"
  /\ UNCHANGED <<slots, lifeSet, pending, idles, issued, obj, heldD, enabled, gtok, kern, rdy, edgeq, pingCnt, closeBit, handles,
                 tdl, treg, heap, expired, nextCtr, now, cbCount, steps, nfaults, nextIdle, failNext>>
  /\ pc' = "top" /\ dsp' = NoDsp
  /\ Emit(<<[e |-> "opret", op |-> "dispatch", ctx |-> 0, r |-> IF dsp.err THEN "err" ELSE "ok", us |-> Us, us0 |-> Us],
            SnapEv(slots, lifeSet, pending, idles, heap, kern)>>)

(***************************************************************************)
(* Next-state relation.                                                    *)
(***************************************************************************)
ApiOp ==
  \/ \E s \in S : Insert(s)
  \/ \E t \in DOMAIN issued : OpRemove(t)
  \/ \E t \in DOMAIN issued, n \in {"disable", "enable", "update"} : TokenOpGuard(n, t) /\ TokenOp(n, t)
  \/ \E s \in S : Ping(s) \/ DropPing(s) \/ Send(s) \/ DropSender(s) \/ Schedule(s) \/ Push("push", s) \/ Push("end_stream", s)
  \/ \E s \in S, f \in 11..39, n \in {"wake", "complete"} : WakeFut(n, s, f)
  \/ \E s \in S, c \in 1..2 : Wr(s, c) \/ Rd(s, c)
  \/ \E s \in S, d \in {now, now + 1, now + 5} : SetDeadline(s, d)
  \/ InsertIdle
  \/ \E i \in 1..3 : CancelIdle(i)

Next ==
  \/ ApiOp
  \/ Advance
  \/ \E s \in S, call \in {"register", "unregister", "reregister"} : Fault(s, call)
  \/ DispatchBegin \/ BeforeSleep \/ BsDone \/ Poll \/ BeforeHandle \/ BheDone
  \/ Lookup \/ ProcessBegin \/ ChanCallbackEnd \/ ExecCallbackEnd \/ StreamCallbackEnd \/ \E r \in Rets \cup TimerRets \cup {"none"} : CallbackEnd(r)
  \/ PostAction \/ EventsDone \/ IdleBegin \/ IdleEnd \/ DispatchEnd

Spec == Init /\ [][Next]_vars

(***************************************************************************)
(* Properties: the contract monitor never records a violated clause.       *)
(***************************************************************************)
ViolOf(p) == {v \in mon.viol : v.p = p}
NoViolation(p) == mon.misuse \/ ViolOf(p) = {}
Inv_C01 == NoViolation("C01")
Inv_C02 == NoViolation("C02")
Inv_C03 == NoViolation("C03")
Inv_C04 == NoViolation("C04")
Inv_C05 == NoViolation("C05")
Inv_C10 == NoViolation("C10")
Inv_C06 == NoViolation("C06")
Inv_C07 == NoViolation("C07")
Inv_C08 == NoViolation("C08")
Inv_C09 == NoViolation("C09")
Inv_C13 == NoViolation("C13")
Inv_C14 == NoViolation("C14")
Inv_C15 == NoViolation("C15")
Inv_C16 == NoViolation("C16")
NoMisuse == ~mon.misuse

\* implementation-level invariants of the model itself
TypeOK == /\ pc \in {"top", "bs", "poll", "bhe", "ev", "incb", "post", "idle", "inidle", "ret"}
          /\ pending \in {"continue", "reregister", "disable", "remove"}
PendingCellClean == pc = "top" => pending = "continue"
LifeSetIsSet == \A i, j \in DOMAIN lifeSet : i # j => lifeSet[i] # lifeSet[j]
HeapCountersUnique == \A a, b \in heap : a.ctr = b.ctr => a = b

Done == pc = "top" /\ steps = MaxSteps
=============================================================================
