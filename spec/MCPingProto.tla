--------------------------- MODULE MCPingProto ---------------------------
EXTENDS PingProto, Json
S_pp_pd == <<<<"ping", "ping">>, <<"ping", "drop">>>>
S_pd_pd == <<<<"ping", "drop">>, <<"ping", "drop">>>>
S_cpd_d == <<<<"clone", "ping", "drop", "drop">>, <<"drop">>>>
S_p_p_p == <<<<"ping">>, <<"ping">>, <<"ping", "drop">>>>
S_p_p   == <<<<"ping">>, <<"ping", "drop">>>>
S_ppp   == <<<<"ping", "ping", "ping", "drop">>>>
\* one line per complete behaviour: the schedule (thread ids, without the final un-interleaved phase) and the events
PrintSched == (RecordHist /\ Done) => PrintT(<<"SCHED", ToJson([scripts |-> Scripts, ndisp |-> NDisp, sched |-> sched, hist |-> hist])>>)
ASSUME PrintT(<<"CFG", ToJson([scripts |-> Scripts, ndisp |-> NDisp])>>)
=============================================================================
