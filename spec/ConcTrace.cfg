SPECIFICATION TSpec
INVARIANT Verdict
POSTCONDITION Consumed
CHECK_DEADLOCK FALSE
