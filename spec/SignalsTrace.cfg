SPECIFICATION TSpec
CONSTANTS
  U = {10, 12, 23, 28}
  Kinds = {"t", "p"}
  Variants = {}
  MaxOps = 0
  AsyncRaise = FALSE
  RecordHist = FALSE
INVARIANT Verdict
POSTCONDITION Consumed
CHECK_DEADLOCK FALSE
