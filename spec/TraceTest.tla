---- MODULE TraceTest ----
EXTENDS Naturals, Sequences, TLC, Json, IOUtils
Rec == ndJsonDeserialize(IOEnv.TRACE)
VARIABLES l, n
Init == l = 1 /\ n = 0
Next == l <= Len(Rec) /\ l' = l + 1 /\ n' = IF Rec[l].e = "cb" THEN n + 1 ELSE n
Spec == Init /\ [][Next]_<<l,n>>
Done == l = Len(Rec) + 1 => PrintT(<<"VERDICT", n, Rec[1]>>)
====
