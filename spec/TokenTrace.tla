----------------------------- MODULE TokenTrace -----------------------------
(***************************************************************************************************)
(* Trace validation for property C20: every record that drive_token logged from the REAL          *)
(* pack / unpack / next_version / TokenFactory is checked against the limb form of Token.tla       *)
(* instantiated with the real layout IB = 32, VB = SB = 16 (limb width LB = 16).                   *)
(*                                                                                                 *)
(* A key is <<id_hi, id_lo, version, sub>> (four 16-bit limbs, most significant first), a slot id  *)
(* is the pair ih, il.  Record kinds (field e):                                                    *)
(*   reset   id, nk (the crate's NOTIFY_KEY), usize_bits           starts a scenario               *)
(*   pack    ih il v s, k = pack(id,v,s), u = unpack(k)                                            *)
(*   unpack  k, u = unpack(k), k2 = pack(u)                                                        *)
(*   chunk   ih il axis fix x0, ks/us : 256 consecutive values of one field (pack + unpack each)   *)
(*   nv      ih il v, r = next_version(id, v)        nvchunk ih il v0 rs : 256 consecutive versions*)
(*   fopen / fchunk / fac : one TokenFactory asked for n tokens (fac = summary; fchunk = every key)*)
(*   bulk    counts of evaluations NOT logged one by one + the driver's own mismatch count         *)
(*           (secondary evidence: not a verdict of this specification)                             *)
(* Violated clauses are reported in the VERDICT line as [p, c, l, scn]:                            *)
(*   p = "C20"           a clause of the property                                                  *)
(*   p = "C20-model"     the record contradicts the implementation-shaped model only (exact        *)
(*                       overflow boundary FactoryCapacity) -- drift, not a property violation     *)
(*   p = "C20-secondary" the driver's own running check reported a mismatch                        *)
(*   p = "C20-harness"   malformed record                                                          *)
(***************************************************************************************************)
EXTENDS Token, Integers, TLC, Json, IOUtils

ASSUME RealLayout == LimbLayout /\ LB = 16 /\ VStore = 16 /\ SStore = 16 /\ Variants = {}

Rec == ndJsonDeserialize(IOEnv.TRACE)

\* FactoryCapacity = 2^16 - 1 = 65535 (Token.tla, from sys.rs `TokenFactory::token`):
\*     let token = self.next_token;
\*     self.next_token = token.increment_sub_id();   // panics when token.sub_id + 1 > MASK_SUBID
\*     Token { inner: token }
\* => requests 1 .. 65535 return sub ids 0 .. 65534; request 65536 (and every later one) panics; sub id 65535 is never handed out.
RealCapacity == FactoryCapacity
SubCount == P2(SB)                      \* 65536 representable sub ids

IsLimbs(k) == Len(k) = 4 /\ \A i \in 1 .. 4 : k[i] \in Limb

NoFac == [open |-> FALSE, ih |-> 0, il |-> 0, v |-> 0, n |-> 0, cnt |-> 0]
Empty == [scn |-> "none", nscn |-> 0, viol |-> {}, fac |-> NoFac, evals |-> 0, bulk |-> 0]

Mk(p, cs, sh, l) == {[p |-> p, c |-> c, l |-> l, scn |-> sh.scn] : c \in cs}
Cl(c, bad) == IF bad THEN {c} ELSE {}

\* ---- clauses of one pack evaluation
PackClauses(ih, il, v, s, k, u) ==
   IF ~(IsLimbs(k) /\ IsLimbs(u) /\ IsLimbs(<<ih, il, v, s>>)) THEN {"malformed"}
   ELSE Cl("pack_limbs", k # PackLimbs(ih, il, v, s))
        \cup Cl("unpack_roundtrip", u # <<ih, il, v, s>>)
        \cup Cl("unpack_limbs", u # UnpackLimbs(k))
        \cup Cl("notify_collision", k = NotifyLimbs /\ ~(IdMaxLimbs(ih, il) /\ v = Base - 1 /\ s = Base - 1))
UnpackClauses(k, u, k2) ==
   IF ~(IsLimbs(k) /\ IsLimbs(u) /\ IsLimbs(k2)) THEN {"malformed"}
   ELSE Cl("unpack_limbs", u # UnpackLimbs(k)) \cup Cl("repack_roundtrip", k2 # k)

Split(cs) == [prop |-> cs \ {"malformed"}, harness |-> cs \cap {"malformed"}]

AddViol(sh, l, prop, model, sec, harness) ==
   sh.viol \cup Mk("C20", prop, sh, l) \cup Mk("C20-model", model, sh, l)
           \cup Mk("C20-secondary", sec, sh, l) \cup Mk("C20-harness", harness, sh, l)

Step(sh, ev, l) ==
   CASE ev.e = "reset" ->
          LET s1 == [sh EXCEPT !.scn = ev.id, !.nscn = sh.nscn + 1, !.fac = NoFac] IN
          [s1 EXCEPT !.viol = AddViol(s1, l, Cl("notify_key_constant", ev.nk # NotifyLimbs), {}, {},
                                      Cl("malformed", ev.usize_bits # 64) \cup Cl("factory_left_open", sh.fac.open))]
     [] ev.e = "pack" ->
          LET cs == Split(PackClauses(ev.ih, ev.il, ev.v, ev.s, ev.k, ev.u)) IN
          [sh EXCEPT !.viol = AddViol(sh, l, cs.prop, {}, {}, cs.harness), !.evals = sh.evals + 1]
     [] ev.e = "unpack" ->
          LET cs == Split(UnpackClauses(ev.k, ev.u, ev.k2)) IN
          [sh EXCEPT !.viol = AddViol(sh, l, cs.prop, {}, {}, cs.harness), !.evals = sh.evals + 1]
     [] ev.e = "chunk" ->
          LET n == Len(ev.ks)
              at(j) == IF ev.axis = "v" THEN PackClauses(ev.ih, ev.il, ev.x0 + j - 1, ev.fix, ev.ks[j], ev.us[j])
                                        ELSE PackClauses(ev.ih, ev.il, ev.fix, ev.x0 + j - 1, ev.ks[j], ev.us[j])
              cs == Split(UNION {at(j) : j \in 1 .. n}) IN
          [sh EXCEPT !.viol = AddViol(sh, l, cs.prop, {}, {}, cs.harness \cup Cl("malformed", Len(ev.us) # n)),
                     !.evals = sh.evals + n]
     [] ev.e = "nv" ->
          [sh EXCEPT !.viol = AddViol(sh, l, Cl("version_successor", ev.r # NextVersionLimb(ev.v)), {}, {},
                                      Cl("malformed", ev.v \notin Limb)),
                     !.evals = sh.evals + 1]
     [] ev.e = "nvchunk" ->
          LET n == Len(ev.rs) IN
          [sh EXCEPT !.viol = AddViol(sh, l, Cl("version_successor", \E j \in 1 .. n : ev.rs[j] # NextVersionLimb(ev.v0 + j - 1)),
                                      {}, {}, Cl("malformed", ev.v0 + n - 1 \notin Limb)),
                     !.evals = sh.evals + n]
     [] ev.e = "fopen" ->
          [sh EXCEPT !.fac = [open |-> TRUE, ih |-> ev.ih, il |-> ev.il, v |-> ev.v, n |-> ev.n, cnt |-> 0],
                     !.viol = AddViol(sh, l, {}, {}, {}, Cl("factory_left_open", sh.fac.open))]
     [] ev.e = "fchunk" ->
          LET f == sh.fac  n == Len(ev.ks) IN
          [sh EXCEPT !.fac.cnt = f.cnt + n,
                     !.viol = AddViol(sh, l,
                                \* the j-th token of a factory is (id, version, j-1): same source, consecutive, hence pairwise distinct
                                Cl("factory_token_key", \E j \in 1 .. n : ev.ks[j] # PackLimbs(f.ih, f.il, f.v, ev.j0 + j - 1))
                                \cup Cl("factory_wrapped", f.cnt + n > SubCount),
                                {}, {}, Cl("factory_chunk_gap", ~f.open \/ ev.j0 # f.cnt)),
                     !.evals = sh.evals + n]
     [] ev.e = "fac" ->
          LET e == FactoryAfter(ev.n)
              f == sh.fac
              prop == Cl("factory_silent_overflow", ev.n > SubCount /\ ev.panics = 0)
                      \cup Cl("factory_wrapped", ev.dup > 0 \/ ev.after > 0 \/ ev.got > SubCount)
                      \cup Cl("factory_foreign_token", ev.own # ev.got)
                      \cup Cl("factory_not_consecutive", ev.got > 0 /\ (ev.s0 # 0 \/ ev.sl # ev.got - 1 \/ ev.step1 # ev.got - 1))
              model == Cl("factory_boundary_drift", ev.got # e.issued \/ ev.panics # e.panics)
              harness == Cl("factory_accounting", ev.got + ev.panics # ev.n)
                         \cup Cl("factory_full_count", ev.full = 1 /\ ~(f.open /\ f.cnt = ev.got /\ f.n = ev.n
                                                                        /\ <<f.ih, f.il, f.v>> = <<ev.ih, ev.il, ev.v>>))
                         \cup Cl("factory_left_open", ev.full # 1 /\ f.open) IN
          [sh EXCEPT !.fac = NoFac, !.viol = AddViol(sh, l, prop, model, {}, harness), !.evals = sh.evals + 1]
     [] ev.e = "bulk" ->
          [sh EXCEPT !.bulk = sh.bulk + 1,
                     !.viol = AddViol(sh, l, {}, {}, Cl("bulk_secondary_mismatch", ev.mismatch # 0), {})]
     [] OTHER -> [sh EXCEPT !.viol = AddViol(sh, l, {}, {}, {}, {"unknown_record"})]

VARIABLES l, sh
vars == <<l, sh, tvars>>

\* the variables of Token's factory machine are not used here (the closed form FactoryAfter is)
TInit == l = 1 /\ sh = Empty /\ tok = <<0, 0, 0>> /\ next = 0 /\ issued = <<>> /\ req = 0 /\ panics = 0
TNext == /\ l <= Len(Rec)
         /\ sh' = Step(sh, Rec[l], l)
         /\ l' = l + 1
         /\ UNCHANGED tvars
TSpec == TInit /\ [][TNext]_vars

Verdict == l = Len(Rec) + 1 =>
             PrintT(<<"VERDICT", ToJson([n |-> Len(Rec), scenarios |-> sh.nscn, misuse |-> 0, evals |-> sh.evals,
                                       bulk |-> sh.bulk, viol |-> sh.viol])>>)
Consumed == TLCGet("stats").diameter = Len(Rec) + 1
=============================================================================
