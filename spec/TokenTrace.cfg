\* the real 64-bit layout; only the limb-form operators of Token.tla are evaluated (2^64 is never computed)
SPECIFICATION TSpec
CONSTANTS
  IB = 32
  VB = 16
  SB = 16
  VStore = 16
  SStore = 16
  MaxReq = 0
  Variants = {}
INVARIANT Verdict
POSTCONDITION Consumed
CHECK_DEADLOCK FALSE
