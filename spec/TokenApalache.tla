--------------------------- MODULE TokenApalache ---------------------------
(***************************************************************************************************)
(* SUPPLEMENT to Token.tla (property C20): the statements of Token.tla at the REAL widths          *)
(* IB = 32, VB = SB = 16, decided symbolically by Apalache (SMT over unbounded integers), i.e. for *)
(* all 2^64 triples / keys and for factories asked for any number of tokens -- something TLC       *)
(* (32-bit integers, explicit enumeration) cannot do.  TLC stays the checker of record: it checks  *)
(* Token.tla exhaustively at reduced widths and validates the records of the real code; this       *)
(* module transcribes Pack / Unpack / NextVersion / the factory machine from Token.tla with the    *)
(* powers of two written out (Apalache has no constant folding for 2^64 inside ranges).            *)
(*                                                                                                 *)
(*   A. apalache-mc check --length=0 --init=Init    --inv=InitInv  TokenApalache.tla               *)
(*        every initial state (= every triple, pair of triples, key) satisfies the codec clauses   *)
(*        and the factory's inductive invariant                                                    *)
(*   B. apalache-mc check --length=1 --init=IndInit --inv=StepInv  TokenApalache.tla               *)
(*        IndInv is inductive under Request and implies the factory clauses                        *)
(*   C. (non-vacuity) --length=0 --init=Init --inv=BadNotNotify must be VIOLATED (id = 2^32 - 1),  *)
(*      and --length=1 --init=IndInit --inv=StepInv --next=NextWrap must be VIOLATED               *)
(* Measured: A 4 s, B 3 s.                                                                         *)
(***************************************************************************************************)
EXTENDS Integers

VARIABLES
  \* @type: Int;
  i1,
  \* @type: Int;
  v1,
  \* @type: Int;
  s1,
  \* @type: Int;
  i2,
  \* @type: Int;
  v2,
  \* @type: Int;
  s2,
  \* @type: Int;
  k,
  \* @type: Int;
  fnext,     \* sub id of TokenFactory.next_token        (factory of source <<i1, v1>>)
  \* @type: Int;
  fnew,      \* sub id of the token returned by the last successful request, -1 if none yet
  \* @type: Int;
  fwit,      \* ghost: the sub id of an arbitrary token returned BEFORE fnew, -1 if none
  \* @type: Int;
  freq,      \* number of requests
  \* @type: Int;
  fpanics    \* number of requests that panicked

P16 == 65536
P32 == 4294967296
P64 == 18446744073709551616
NotifyKey == P64 - 1

\* Token.tla with IB = 32, VB = SB = VStore = SStore = 16
Pack(i, v, s) == i * P32 + v * P16 + s
UnpackI(x) == x \div P32
UnpackV(x) == (x \div P16) % P16
UnpackS(x) == x % P16
NextVersion(v) == ((v + 1) % P16) % P16
SubOverflows(s) == ~(s + 1 < P16 /\ s + 1 <= P16 - 1)       \* NextSub(s) = Overflow
FactoryCapacity == P16 - 1


Init ==
  /\ i1 \in Nat /\ i1 < P32 /\ v1 \in Nat /\ v1 < P16 /\ s1 \in Nat /\ s1 < P16
  /\ i2 \in Nat /\ i2 < P32 /\ v2 \in Nat /\ v2 < P16 /\ s2 \in Nat /\ s2 < P16
  /\ k \in Nat /\ k < P64
  /\ fnext = 0 /\ fnew = -1 /\ fwit = -1 /\ freq = 0 /\ fpanics = 0

Request ==
  /\ freq' = freq + 1
  /\ UNCHANGED <<i1, v1, s1, i2, v2, s2, k>>
  /\ IF SubOverflows(fnext)
     THEN fpanics' = fpanics + 1 /\ UNCHANGED <<fnext, fnew, fwit>>
     ELSE /\ fnext' = fnext + 1
          /\ fnew' = fnext
          /\ \/ fwit' = fwit
             \/ fwit' = fnew          \* the previously returned token becomes the remembered one
          /\ UNCHANGED fpanics
Next == Request

\* deliberately wrong: the sub id wraps
NextWrap ==
  /\ freq' = freq + 1 /\ UNCHANGED <<i1, v1, s1, i2, v2, s2, k>> /\ UNCHANGED fpanics
  /\ fnext' = (fnext + 1) % P16 /\ fnew' = fnext
  /\ (fwit' = fwit \/ fwit' = fnew)

\* ---- codec clauses (names as in Token.tla)
Reversible == LET x == Pack(i1, v1, s1) IN UnpackI(x) = i1 /\ UnpackV(x) = v1 /\ UnpackS(x) = s1
InRange    == Pack(i1, v1, s1) >= 0 /\ Pack(i1, v1, s1) < P64
Injective  == Pack(i1, v1, s1) = Pack(i2, v2, s2) => (i1 = i2 /\ v1 = v2 /\ s1 = s2)
Onto       == /\ UnpackI(k) >= 0 /\ UnpackI(k) < P32 /\ UnpackV(k) >= 0 /\ UnpackV(k) < P16 /\ UnpackS(k) >= 0 /\ UnpackS(k) < P16
              /\ Pack(UnpackI(k), UnpackV(k), UnpackS(k)) = k
NotNotify  == /\ i1 < P32 - 1 => Pack(i1, v1, s1) # NotifyKey
              /\ (Pack(i1, v1, s1) = NotifyKey) = (i1 = P32 - 1 /\ v1 = P16 - 1 /\ s1 = P16 - 1)
Version    == /\ NextVersion(v1) >= 0 /\ NextVersion(v1) < P16
              /\ NextVersion(v1) = (IF v1 = P16 - 1 THEN 0 ELSE v1 + 1)
CodecInv == Reversible /\ InRange /\ Injective /\ Onto /\ NotNotify /\ Version
BadNotNotify == Pack(i1, v1, s1) # NotifyKey

\* ---- factory
CodecRange == /\ i1 \in Nat /\ i1 < P32 /\ v1 \in Nat /\ v1 < P16 /\ s1 \in Nat /\ s1 < P16
              /\ i2 \in Nat /\ i2 < P32 /\ v2 \in Nat /\ v2 < P16 /\ s2 \in Nat /\ s2 < P16
              /\ k \in Nat /\ k < P64
IndInv ==
  /\ fnext >= 0 /\ fnext <= FactoryCapacity
  /\ fnew = fnext - 1
  /\ fwit >= -1 /\ (fnew >= 0 => fwit < fnew) /\ (fnew < 0 => fwit = -1)
  /\ fpanics >= 0 /\ freq = fnext + fpanics
  /\ fpanics > 0 => fnext = FactoryCapacity
IndInit ==
  /\ CodecRange
  /\ fnext \in Int /\ fnew \in Int /\ fwit \in Int /\ freq \in Int /\ fpanics \in Int
  /\ IndInv

\* the clauses of Token.tla about the factory, for the latest token (fnew) and an arbitrary earlier one (fwit)
FactoryDistinct == (fnew >= 0 /\ fwit >= 0) => Pack(i1, v1, fnew) # Pack(i1, v1, fwit)
\* the latest token <<i1, v1, fnew>> is a representable triple with sub id <= 65534.  Run A proves Reversible and
\* NotNotify for EVERY representable triple, hence the key of the token decodes to the factory's own source
\* (Inv_C20_factory_owner) and is never the notify key, even for slot id 2^32 - 1: sub id 65535 is never handed out.
\* (Stated through the codec clauses because the inductive step with div/mod over the symbolic key is slow in z3.)
FactoryRange    == fnew >= -1 /\ fnew <= FactoryCapacity - 1
FactoryLoud     == /\ freq > P16 => fpanics > 0                      \* more than representable => loud failure
                   /\ freq - fpanics <= P16                          \* never more tokens than sub ids
FactoryBoundary == (fpanics > 0) = (freq > FactoryCapacity)          \* exact: request 65536 is the first to panic
FactoryInv == FactoryDistinct /\ FactoryRange /\ FactoryLoud /\ FactoryBoundary

InitInv == CodecInv /\ IndInv /\ FactoryInv
StepInv == IndInv /\ FactoryInv
=============================================================================
