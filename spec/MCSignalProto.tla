--------------------------- MODULE MCSignalProto ---------------------------
EXTENDS SignalProto, Json
S_w_sw   == <<<<"wakeup">>, <<"stop", "wakeup">>>>
S_sw     == <<<<"stop", "wakeup">>>>
S_ww_sw  == <<<<"wakeup", "wakeup">>, <<"stop", "wakeup">>>>
S_k      == <<<<"wake">>>>
S_kk     == <<<<"wake", "wake">>>>
S_k_k    == <<<<"wake">>, <<"wake">>>>
S_k_sw   == <<<<"wake">>, <<"stop", "wakeup">>>>
S_sk     == <<<<"stop", "wake">>>>
S_s_k    == <<<<"stop">>, <<"wake">>>>
PrintSched == (RecordHist /\ Done) =>
   PrintT(<<"SCHED", ToJson([scripts |-> Scripts, ndisp |-> 0, mode |-> Mode, need |-> Need, sched |-> sched, hist |-> hist, blocked |-> IF everBlocked THEN 1 ELSE 0])>>)
ASSUME PrintT(<<"CFG", ToJson([scripts |-> Scripts, ndisp |-> 0, mode |-> Mode, need |-> Need])>>)
=============================================================================
