-------------------------- MODULE ChanHammerTrace --------------------------
(* Judges the summary events of drive_hammer (free-running sender thread against a spinning loop thread, many short      *)
(* rounds) with the clauses of the channel contract that need no interleaving information (C04; C02 for the stranded    *)
(* message): once send() has returned, the next dispatch delivers the message; order; a single Closed at the end.       *)
EXTENDS Naturals, Integers, Sequences, FiniteSets, TLC, Json, IOUtils
Rec == ndJsonDeserialize(IOEnv.TRACE)
VARIABLES l, st
vars == <<l, st>>
Empty0 == [nscn |-> 0, viol |-> {}]
V(ps, c, ln, scn) == {[p |-> x, c |-> c, l |-> ln, scn |-> scn] : x \in ps}
StepH(s, ev, ln) ==
  IF ev.e # "hammer" THEN s ELSE
  [s EXCEPT !.nscn = @ + 1,
            !.viol = @ \cup (IF ev.stranded_round >= 0 THEN V({"C04", "C02"}, "message_stranded_after_send_returned", ln, ev.id) ELSE {})
                       \cup (IF ev.in_order = 0 THEN V({"C04"}, "sender_order_violated", ln, ev.id) ELSE {})
                       \cup (IF ev.errs > 0 THEN V({"C04"}, "dispatch_failed", ln, ev.id) ELSE {})
                       \cup (IF ev.closed # 1 THEN V({"C04"}, "closed_not_delivered_once", ln, ev.id) ELSE {})
                       \cup (IF ev.stranded_round < 0 /\ ev.received # 2 * ev.rounds THEN V({"C04"}, "message_lost_or_duplicated", ln, ev.id) ELSE {})]
TInit == l = 1 /\ st = Empty0
TNext == l <= Len(Rec) /\ st' = StepH(st, Rec[l], l) /\ l' = l + 1
Verdict == l = Len(Rec) + 1 => PrintT(<<"VERDICT", ToJson([n |-> Len(Rec), scenarios |-> st.nscn, misuse |-> 0, viol |-> st.viol])>>)
=============================================================================
