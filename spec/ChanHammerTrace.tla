-------------------------- MODULE ChanHammerTrace --------------------------
(* Judges the summary events of drive_hammer (a free-running thread against a spinning loop thread, many short rounds)  *)
(* with the clauses of the channel / ping / executor contracts that need no interleaving information: once send() /     *)
(* ping() / wake() has returned, the next dispatch delivers the message / runs the callback / polls the future (C04,    *)
(* C03, C10; C02 for the stranded cause); order; a single Closed / a single result at the end.                          *)
EXTENDS Naturals, Integers, Sequences, FiniteSets, TLC, Json, IOUtils
Rec == ndJsonDeserialize(IOEnv.TRACE)
VARIABLES l, st
vars == <<l, st>>
Empty0 == [nscn |-> 0, viol |-> {}]
V(ps, c, ln, scn) == {[p |-> x, c |-> c, l |-> ln, scn |-> scn] : x \in ps}
Props(ev) == IF ev.kind = "chan" THEN {"C04", "C02"} ELSE IF ev.kind = "ping" THEN {"C03", "C02"}
             ELSE IF ev.kind = "pingdrop" THEN {"C03"} ELSE IF ev.kind = "chandrop" THEN {"C04"}
             ELSE IF ev.kind = "wakeup" THEN {"C11"} ELSE {"C10", "C02"}
Own(ev) == Props(ev) \ {"C02"}
StepH(s, ev, ln) ==
  IF ev.e # "hammer" THEN s ELSE
  [s EXCEPT !.nscn = @ + 1,
            !.viol = @ \cup (IF ev.stranded_round >= 0
                              THEN V(Props(ev), IF ev.kind = "chan" THEN "message_stranded_after_send_returned"
                                                ELSE IF ev.kind = "ping" THEN "ping_not_delivered_after_ping_returned"
                                                ELSE IF ev.kind = "wakeup" THEN "wakeup_lost"
                                                ELSE IF ev.kind = "pingdrop" THEN "ping_source_not_removed_after_last_handle_dropped"
                                                ELSE IF ev.kind = "chandrop" THEN "closed_not_delivered_after_last_sender_dropped"
                                                ELSE "woken_future_not_polled_after_wake_returned", ln, ev.id) ELSE {})
                       \cup (IF ev.in_order = 0 THEN V(Own(ev), "sender_order_violated", ln, ev.id) ELSE {})
                       \cup (IF ev.errs > 0 THEN V(Own(ev), "dispatch_failed", ln, ev.id) ELSE {})
                       \* chan: one Closed after the last sender is gone; exec: the one result delivered once
                       \cup (IF ev.kind \in {"chan", "exec"} /\ ev.closed # 1 THEN V(Own(ev), IF ev.kind = "chan" THEN "closed_not_delivered_once" ELSE "exec_result_not_delivered_once", ln, ev.id) ELSE {})
                       \cup (IF ev.kind = "chandrop" /\ ev.stranded_round < 0 /\ ev.closed # ev.rounds
                             THEN V(Own(ev), "closed_not_delivered_once", ln, ev.id) ELSE {})
                       \* the round in progress at a time-out is not judged (the sender may be anywhere in it)
                       \cup (IF ev.kind = "chan" /\ ev.stranded_round < 0 /\ ev.timed_out = 0 /\ ev.received # 2 * ev.rounds
                             THEN V(Own(ev), "message_lost_or_duplicated", ln, ev.id) ELSE {})]
TInit == l = 1 /\ st = Empty0
TNext == l <= Len(Rec) /\ st' = StepH(st, Rec[l], l) /\ l' = l + 1
Verdict == l = Len(Rec) + 1 => PrintT(<<"VERDICT", ToJson([n |-> Len(Rec), scenarios |-> st.nscn, misuse |-> 0, viol |-> st.viol])>>)
=============================================================================
