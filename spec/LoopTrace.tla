----------------------------- MODULE LoopTrace -----------------------------
(* Trace validation: feeds a recorded NDJSON trace of the real crate (drive_core) through the *)
(* LoopContract monitor, one event per step, and reports the violated clauses.               *)
EXTENDS LoopContract, Json, IOUtils

Rec == ndJsonDeserialize(IOEnv.TRACE)

VARIABLES l, sh
vars == <<l, sh>>

TInit == l = 1 /\ sh = Empty
TNext == /\ l <= Len(Rec)
         /\ sh' = Step(sh, Rec[l], l)
         /\ l' = l + 1
TSpec == TInit /\ [][TNext]_vars

\* printed once, in the final state: the verdict that the check driver parses
Verdict == l = Len(Rec) + 1 =>
             PrintT(<<"VERDICT", ToJson([n |-> Len(Rec), scenarios |-> sh.nscn,
                                       misuse |-> sh.nmisuse + (IF sh.misuse THEN 1 ELSE 0), viol |-> sh.viol])>>)
\* the whole trace was consumed (the monitor is total: it never blocks on a well-formed event)
Consumed == TLCGet("stats").diameter = Len(Rec) + 1
=============================================================================
