----------------------------- MODULE ConcTrace -----------------------------
(* Trace validation of concurrent executions recorded by drive_sched against ConcContract. *)
EXTENDS ConcContract, Json, IOUtils

Rec == ndJsonDeserialize(IOEnv.TRACE)

VARIABLES l, sh
vars == <<l, sh>>

TInit == l = 1 /\ sh = CEmpty
TNext == /\ l <= Len(Rec)
         /\ sh' = CStep(sh, Rec[l], l)
         /\ l' = l + 1
TSpec == TInit /\ [][TNext]_vars

Verdict == l = Len(Rec) + 1 =>
             PrintT(<<"VERDICT", ToJson([n |-> Len(Rec), scenarios |-> sh.nscn, misuse |-> 0, viol |-> sh.viol])>>)
Consumed == TLCGet("stats").diameter = Len(Rec) + 1
=============================================================================
