--------------------------- MODULE TransientTrace ---------------------------
(***************************************************************************)
(* Trace validation for C18: replays the calls recorded by drive_transient *)
(* from the real TransientSource through the operators of Transient.tla.   *)
(*                                                                         *)
(* Every call on the wrapper is a bracket  call ... ret  in the trace; the *)
(* instrumented child logs the calls it receives in between.  At `ret` the *)
(* monitor                                                                 *)
(*  - binds the call (and, for process_events, what the child answered),   *)
(*    applies the spec's operator and compares the predicted child calls,  *)
(*    their results, the return value and the kernel's epoll table with    *)
(*    what was recorded: any difference is `impl_differs_from_spec`;       *)
(*  - evaluates the clauses of C18 on the *observed* calls (`oreg` = the   *)
(*    registration of each child according to the results of its own       *)
(*    calls; `ep` = the kernel's view from /proc/self/fdinfo).             *)
(* A scenario that leaves the documented protocol is counted as `misuse`;  *)
(* whatever is observed after that point is filed under                    *)
(* "C18_outside_protocol" (informational: the property says nothing there).*)
(***************************************************************************)
EXTENDS Transient, Json, IOUtils

Rec == ndJsonDeserialize(IOEnv.TRACE)

VARIABLES l, sh
tvars == <<l, sh>>

Has(r, f) == f \in DOMAIN r
SeqSet(q) == {q[i] : i \in DOMAIN q}

NoW == [st |-> "None", cur |-> 0, old |-> 0, reg |-> <<>>, dropped |-> <<>>, kind |-> <<>>]
Empty == [scn |-> "none", nscn |-> 0, nout |-> 0, live |-> FALSE, out |-> FALSE,
          w |-> NoW, env |-> [preg |-> FALSE, pend |-> 0, upend |-> 0, fresh |-> 1], oreg |-> <<>>,
          open |-> FALSE, cop |-> "none", obs |-> <<>>, bviol |-> {}, wheelok |-> TRUE, lastep |-> {},
          viol |-> {}]

MkV(sh0, c, ln, outside) == [p |-> IF outside THEN "C18_outside_protocol" ELSE "C18", c |-> c, l |-> ln, scn |-> sh0.scn]
AddV(sh0, cs, ln, outside) == [sh0 EXCEPT !.viol = @ \cup {MkV(sh0, c, ln, outside) : c \in cs}]
\* strict conformance: inside the protocol a difference between the real crate and the transcription is a C18 alarm
Differs(sh0, ln) == AddV(sh0, {"impl_differs_from_spec"}, ln, sh0.out)

Fresh(sh0, ev) ==
  LET nk == Len(ev.kinds)
      C  == 1..nk
      w0 == [st |-> IF ev.init = "from" THEN "Register" ELSE "None",
             cur |-> IF ev.init = "from" THEN 1 ELSE 0, old |-> 0,
             reg |-> [c \in C |-> FALSE], dropped |-> [c \in C |-> FALSE], kind |-> ev.kinds]
  IN [Empty EXCEPT !.scn = ev.id, !.nscn = sh0.nscn + 1, !.nout = sh0.nout, !.live = TRUE,
                   !.w = w0, !.env = [preg |-> FALSE, pend |-> 0, upend |-> 0, fresh |-> IF ev.init = "from" THEN 2 ELSE 1],
                   !.oreg = [c \in C |-> FALSE], !.viol = sh0.viol]

\* ---------------------------------------------------------------------------- calls received by a child
Role(w, c) == IF c = w.old THEN "old" ELSE IF w.st = "Replace" /\ c = w.cur THEN "new" ELSE "cur"

ChildEv(sh0, ev, ln) ==
  LET c    == ev.c
      known == c \in DOMAIN sh0.oreg
      was  == IF known THEN sh0.oreg[c] ELSE FALSE
      op   == CASE ev.e = "child_reg" -> "reg" [] ev.e = "child_unreg" -> "unreg" [] ev.e = "child_rereg" -> "rereg"
                [] ev.e = "child_pe" -> "pe" [] OTHER -> "drop"
      r    == CASE op = "pe" -> ev.a [] op = "drop" -> "ok" [] OTHER -> ev.r
      cl   == CASE op = "reg"   -> IF was THEN {"child_registered_twice"} ELSE {}
                [] op = "unreg" -> IF ~was THEN {UnregClause(sh0.w.st, Role(sh0.w, c))} ELSE {}
                [] op = "rereg" -> IF ~was THEN {"child_reregistered_while_unregistered"} ELSE {}
                [] op = "pe"    -> IF ~(sh0.w.st = "Keep" /\ c = sh0.w.cur) THEN {"event_forwarded_to_non_current"} ELSE {}
                [] op = "drop"  -> IF ev.inep = 1 \/ was THEN {"child_dropped_while_registered"} ELSE {}
      failed == op \in {"reg", "unreg", "rereg"} /\ r = "err" /\ cl = {}
      cl2  == cl \cup (IF failed THEN {"child_call_failed"} ELSE {})
      now  == CASE op = "reg"   -> IF r = "ok" THEN TRUE ELSE was
                [] op = "unreg" -> IF r = "ok" THEN FALSE ELSE was
                [] op = "rereg" -> IF r = "ok" THEN TRUE ELSE was
                [] op = "drop"  -> IF known /\ sh0.w.kind[c] = "fd" THEN FALSE ELSE was
                [] OTHER        -> was
      s1   == [sh0 EXCEPT !.obs = Append(@, [op |-> op, c |-> c, r |-> r]),
                          !.oreg = IF known THEN [@ EXCEPT ![c] = now] ELSE @,
                          !.bviol = @ \cup cl2,
                          !.wheelok = @ /\ ~(known /\ sh0.w.kind[c] = "tm" /\ (("child_registered_twice" \in cl2) \/ ("child_dropped_while_registered" \in cl2)))]
      s2   == AddV(s1, cl2, ln, sh0.out)
  IN IF ~sh0.open \/ ~known THEN Differs(s2, ln) ELSE s2

\* ---------------------------------------------------------------------------- end of a call on the wrapper
KernelReg(sh0, w, ep) == \A c \in DOMAIN w.reg : w.kind[c] = "fd" => ((c \in ep) <=> w.reg[c])

RetEv(sh0, ev, ln) ==
  LET w     == sh0.w
      env   == sh0.env
      pes   == SelectSeq(sh0.obs, LAMBDA o : o.op = "pe")
      a     == IF Len(pes) > 0 THEN pes[1].r ELSE "none"
      call  == Call(sh0.cop, a)
      known == sh0.cop \in {"pe", "register", "reregister", "unregister", "remove", "replace", "map"}
                 /\ (sh0.cop = "replace" => env.fresh \in DOMAIN w.reg)
      out2  == sh0.out
      r     == Apply(w, env, call)
      env2  == EnvAfter(env, call, r)
      ep    == SeqSet(ev.ep)
      same  == /\ r.evs = sh0.obs
               /\ IF sh0.cop = "map" THEN ev.r = "ok" /\ r.ret = ev.m ELSE r.ret = ev.r
               /\ KernelReg(sh0, r.w, ep)
      \* clauses on the observed behaviour
      obsreg(c) == IF r.w.kind[c] = "fd" THEN c \in ep ELSE sh0.oreg[c]
      ca    == IF sh0.cop \in RegOps /\ ~(\A c \in DOMAIN r.w.reg : obsreg(c) <=> (c = r.w.cur /\ r.w.st = "Keep" /\ env2.preg))
               THEN {"registration_out_of_step"} ELSE {}
      ce    == IF sh0.cop = "pe" /\ ev.r \notin {"continue", "reregister"} THEN {"wrapper_returned_other_action"} ELSE {}
      cf    == IF sh0.cop = "pe" /\ w.st = "None" /\ ~(sh0.obs = <<>> /\ ev.r = "continue" /\ ep = sh0.lastep)
               THEN {"process_events_on_empty_not_noop"} ELSE {}
      cp    == IF ev.r = "panic" THEN {"wrapper_panicked"} ELSE {}
      s1    == [sh0 EXCEPT !.open = FALSE, !.obs = <<>>, !.bviol = {}, !.out = out2, !.w = r.w, !.env = env2, !.lastep = ep]
      s2    == AddV(s1, ca \cup ce \cup cf \cup cp, ln, out2)
  IN IF ~sh0.open \/ ~known \/ sh0.cop # ev.op THEN Differs([sh0 EXCEPT !.open = FALSE, !.obs = <<>>], ln)
     ELSE IF same THEN s2 ELSE Differs(s2, ln)

SnapEv(sh0, ev, ln) ==
  LET w  == sh0.w
      ep == SeqSet(ev.ep)
      okK == KernelReg(sh0, w, ep)
      okW == ~sh0.wheelok \/ ev.wheel = Cardinality({c \in DOMAIN w.reg : w.kind[c] = "tm" /\ w.reg[c]})
  IN IF okK /\ okW THEN [sh0 EXCEPT !.lastep = ep] ELSE Differs([sh0 EXCEPT !.lastep = ep], ln)

Step(sh0, ev, ln) ==
  CASE ev.e = "reset" -> Fresh([sh0 EXCEPT !.nout = @ + (IF sh0.live /\ sh0.out THEN 1 ELSE 0)], ev)
    [] ~sh0.live -> sh0
    [] ev.e = "call" ->
         IF sh0.open THEN Differs(sh0, ln)
         ELSE LET \* the protocol is a predicate on the call alone (for process_events it only looks at env.pend)
                  kn == ev.op \in {"pe", "register", "reregister", "unregister", "remove", "replace", "map"}
                  s1 == [sh0 EXCEPT !.open = TRUE, !.cop = ev.op, !.obs = <<>>, !.bviol = {},
                                    !.out = @ \/ (kn /\ ~InProtocol(sh0.w, sh0.env, Call(ev.op, "none")))]
              IN IF ev.op = "replace" /\ ev.c # sh0.env.fresh THEN Differs(s1, ln) ELSE s1
    [] ev.e \in {"child_reg", "child_unreg", "child_rereg", "child_pe", "child_drop"} -> ChildEv(sh0, ev, ln)
    [] ev.e = "ret" -> RetEv(sh0, ev, ln)
    [] ev.e = "snap" -> SnapEv(sh0, ev, ln)
    [] ev.e = "end" -> [sh0 EXCEPT !.live = FALSE, !.nout = @ + (IF sh0.out THEN 1 ELSE 0), !.out = FALSE]
    [] ev.e \in {"panic", "child_default_constructed"} -> Differs(sh0, ln)
    [] OTHER -> sh0          \* step, stepret, cb: informational

TInit == /\ l = 1 /\ sh = Empty
         \* the variables of the state machine of Transient.tla are not used here
         /\ st = "None" /\ cur = 0 /\ old = 0 /\ reg = <<>> /\ dropped = <<>> /\ kind = <<>>
         /\ preg = FALSE /\ pend = 0 /\ upend = 0 /\ fresh = 1 /\ n = 0 /\ last = NoLast
TNext == /\ l <= Len(Rec)
         /\ sh' = Step(sh, Rec[l], l)
         /\ l' = l + 1
         /\ UNCHANGED vars
TSpec == TInit /\ [][TNext]_<<tvars, vars>>

Verdict == l = Len(Rec) + 1 =>
             PrintT(<<"VERDICT", ToJson([n |-> Len(Rec), scenarios |-> sh.nscn, misuse |-> sh.nout, viol |-> sh.viol])>>)
Consumed == TLCGet("stats").diameter = Len(Rec) + 1
=============================================================================
