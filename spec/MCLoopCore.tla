---------------------------- MODULE MCLoopCore ----------------------------
(* Model-checking shell for LoopCore: concrete source declarations and scenario printing. *)
EXTENDS LoopCore, Json

ChildR(m) == [interest |-> "r", mode |-> m, transient |-> 0, fd |-> "sock"]
PingD(s, fd, life) == [s |-> s, kind |-> "ping", life |-> life, held |-> 0, dl |-> -1000000, hasdl |-> 0, cap |-> -1,
                       children |-> <<>>, fds |-> <<fd>>, synth |-> <<>>, ondrop |-> 0]
ChanD(s, fd) == [s |-> s, kind |-> "chan", life |-> 0, held |-> 0, dl |-> -1000000, hasdl |-> 0, cap |-> -1,
                 children |-> <<>>, fds |-> <<fd>>, synth |-> <<>>, ondrop |-> 0]
ExecD(s, fd, held) == [s |-> s, kind |-> "exec", life |-> 0, held |-> held, dl |-> -1000000, hasdl |-> 0, cap |-> -1,
                       children |-> <<>>, fds |-> <<fd>>, synth |-> <<>>, ondrop |-> 0]
StreamD(s, fd) == [s |-> s, kind |-> "stream", life |-> 0, held |-> 0, dl |-> -1000000, hasdl |-> 0, cap |-> -1,
                   children |-> <<>>, fds |-> <<fd>>, synth |-> <<>>, ondrop |-> 0]
TimerD(s, dl) == [s |-> s, kind |-> "timer", life |-> 0, held |-> 1, dl |-> dl, hasdl |-> 1, cap |-> -1,
                  children |-> <<>>, fds |-> <<>>, synth |-> <<>>, ondrop |-> 0]
CompD(s, fds, modes, life, held) ==
   [s |-> s, kind |-> "comp", life |-> life, held |-> held, dl |-> -1000000, hasdl |-> 0, cap |-> -1,
    children |-> [i \in DOMAIN modes |-> ChildR(modes[i])], fds |-> fds, synth |-> <<>>, ondrop |-> 0]

\* source sets used by the .cfg files
DeclMix   == <<PingD(1, 10, 0), TimerD(2, 1), CompD(3, <<11>>, <<"level">>, 0, 0)>>
DeclReuse == <<PingD(1, 10, 0), CompD(2, <<11>>, <<"oneshot">>, 0, 0), CompD(3, <<12>>, <<"level">>, 0, 0)>>
DeclTimers == <<PingD(1, 10, 0), TimerD(2, 1), TimerD(3, 1)>>
DeclLife  == <<CompD(1, <<11, 12>>, <<"level", "level">>, 1, 0), PingD(2, 10, 1)>>
DeclLifeSynth == <<[CompD(1, <<11, 12>>, <<"level", "level">>, 1, 0) EXCEPT !.synth = <<0, 2>>],
                   [PingD(2, 10, 1) EXCEPT !.synth = <<1>>]>>
DeclDrop  == <<[PingD(1, 10, 0) EXCEPT !.ondrop = 1], [CompD(2, <<11>>, <<"level">>, 0, 0) EXCEPT !.ondrop = 1], PingD(3, 12, 0)>>
DeclChan  == <<ChanD(1, 10), PingD(2, 11, 0), ChanD(3, 12)>>
DeclExec  == <<ExecD(1, 10, 0), PingD(2, 11, 0)>>
DeclStream == <<StreamD(1, 10), PingD(2, 11, 0)>>
DeclEdge  == <<CompD(1, <<11>>, <<"edge">>, 0, 0), CompD(2, <<12>>, <<"oneshot">>, 0, 1)>>

AllRets == {"continue", "reregister", "disable", "remove", "err"}
SafeRets == {"continue", "reregister", "disable", "remove"}

\* scenario extraction (simulation mode): print the emitted events once a behaviour is complete
PrintHist == (RecordHist /\ Done) => PrintT(<<"HIST", ToJson(hist)>>)
=============================================================================
