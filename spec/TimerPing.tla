----------------------------- MODULE TimerPing -----------------------------
(***************************************************************************************************)
(* A composite event source as users write them: two sub-sources, a PingSource (sub-token 0) and a *)
(* Timer (sub-token 1) that re-arms itself from its callback, and a process_events that forwards    *)
(* EVERY event to BOTH sub-sources -- each sub-source recognises its own token and ignores the      *)
(* other's.  The model follows one such source through dispatches:                                  *)
(*   - the batch of a dispatch holds the ping event (if a ping is pending) before the timer event   *)
(*     (if the arming is due); timer events carry the token UNDER WHICH THE ARMING WAS FILED;       *)
(*   - the ping sub-source reacts to events with its token by draining its eventfd: callback if a   *)
(*     ping was pending, an error (EAGAIN) if not;                                                  *)
(*   - the timer sub-source fires if the event has its token and its arming expired in this poll,   *)
(*     and files the next arming under its own token.                                               *)
(* Properties (C01: callbacks only for the own registration and a real cause; C05: every arming     *)
(* fires exactly once; C12 follows): no dispatch fails, the ping callback runs once per ping, the   *)
(* timer callback once per arming.  Variant "no_token_check" (a Timer that relies on the wheel's    *)
(* expiry bookkeeping alone and files the next arming under the token of the event in progress)     *)
(* must violate them.  TimerPingTrace.tla evaluates the same clauses on runs of the real crate.     *)
(***************************************************************************************************)
EXTENDS Naturals, Sequences, FiniteSets

CONSTANTS Rounds,      \* armings of the timer (the callback re-arms Rounds - 1 times, then drops)
          MaxPings,
          Variants

VARIABLES pinged,      \* a ping is pending in the eventfd
          pings,       \* pings sent so far
          armed,       \* the timer holds an arming
          filedUnder,  \* sub-token under which the arming sits in the wheel: "timer" (own) / "ping" (foreign)
          due,         \* the arming's deadline has passed
          armings,     \* armings made so far
          pingCbs, timerCbs, errs
vars == <<pinged, pings, armed, filedUnder, due, armings, pingCbs, timerCbs, errs>>

Init == /\ pinged = FALSE /\ pings = 0 /\ armed = TRUE /\ filedUnder = "timer" /\ due = FALSE /\ armings = 1
        /\ pingCbs = 0 /\ timerCbs = 0 /\ errs = 0

Ping == /\ pings < MaxPings /\ ~pinged /\ pinged' = TRUE /\ pings' = pings + 1
        /\ UNCHANGED <<armed, filedUnder, due, armings, pingCbs, timerCbs, errs>>
Tick == /\ armed /\ ~due /\ due' = TRUE
        /\ UNCHANGED <<pinged, pings, armed, filedUnder, armings, pingCbs, timerCbs, errs>>

\* state record threaded through the events of one batch
St == [pinged |-> pinged, armed |-> armed, filedUnder |-> filedUnder, expired |-> armed /\ due,
       armings |-> armings, pingCbs |-> pingCbs, timerCbs |-> timerCbs, errs |-> errs]

\* the composite's process_events for one event carrying token `tok`
OnEvent(s, tok) ==
  LET \* ping sub-source (first)
      s1 == IF tok = "ping"
            THEN IF s.pinged THEN [s EXCEPT !.pinged = FALSE, !.pingCbs = @ + 1]
                 ELSE [s EXCEPT !.errs = @ + 1]                         \* read() of an empty eventfd: EAGAIN
            ELSE s
      \* timer sub-source (second); on an error of the first the `?` returns before it is reached
      mine == tok = "timer" \/ "no_token_check" \in Variants
  IN IF s1.errs > s.errs THEN s1
     ELSE IF mine /\ s1.expired
     THEN IF s1.armings < Rounds
          THEN [s1 EXCEPT !.expired = FALSE, !.timerCbs = @ + 1, !.armings = @ + 1,
                          !.filedUnder = IF "no_token_check" \in Variants THEN tok ELSE "timer"]
          ELSE [s1 EXCEPT !.expired = FALSE, !.timerCbs = @ + 1, !.armed = FALSE]
     ELSE s1

Dispatch ==
  LET batch == (IF pinged THEN <<"ping">> ELSE <<>>) \o (IF armed /\ due THEN <<filedUnder>> ELSE <<>>)
      s1 == IF Len(batch) >= 1 THEN OnEvent(St, batch[1]) ELSE St
      s2 == IF Len(batch) >= 2 THEN OnEvent(s1, batch[2]) ELSE s1
      fired == s2.timerCbs > timerCbs
  IN /\ pinged' = s2.pinged /\ armed' = s2.armed /\ filedUnder' = s2.filedUnder
     /\ armings' = s2.armings /\ pingCbs' = s2.pingCbs /\ timerCbs' = s2.timerCbs /\ errs' = s2.errs
     \* a new arming is not due yet; an expired arming that nobody consumed is gone from the wheel (lost)
     /\ due' = IF fired THEN FALSE ELSE IF armed /\ due THEN FALSE ELSE due
     /\ armed' = IF armed /\ due /\ ~fired THEN FALSE ELSE s2.armed
     /\ UNCHANGED pings

Next == Ping \/ Tick \/ Dispatch
Spec == Init /\ [][Next]_vars

NoError == errs = 0
PingOncePerPing == pingCbs <= pings /\ (~pinged => pingCbs = pings)
TimerOncePerArming == timerCbs <= armings /\ (~armed => timerCbs = armings) /\ (armed /\ ~due => timerCbs = armings - 1)
Inv_C01 == NoError /\ PingOncePerPing
Inv_C05 == TimerOncePerArming
=============================================================================
