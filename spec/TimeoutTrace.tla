---------------------------- MODULE TimeoutTrace ----------------------------
(* Trace validation for C12: every record measured by harness/src/bin/drive_timeout.rs on the real crate   *)
(* (wall-clock durations of two consecutive dispatch() calls of one configuration, the timers whose         *)
(* callback ran, the source callbacks, the slab occupancy) is judged against the ORACLE of Timeout.tla       *)
(* (SpecWait / SpecFire / SpecCbs / SpecAfter), evaluated on the configuration echoed in the trace with      *)
(* times in MICROSECONDS since t0 (the instant the timers were armed relative to).                           *)
(*                                                                                                           *)
(* The specification contributes the expected values; the numbers it is compared with are ordinary          *)
(* Instant-based measurements, so two tolerances are applied HERE (not in the driver):                       *)
(*   EpsLo  a dispatch may return this much before the computed limit (clock granularity)        1 ms        *)
(*   Slack  scheduling latency allowed on top of the computed limit on a loaded machine        150 ms        *)
(*   Tight  a sharper upper bound that only counts when it is exceeded in EVERY re-measurement   20 ms        *)
(*          (a defect of the code is deterministic, scheduling noise is not)                                 *)
(* Lower bounds cannot be broken by load; upper-bound clauses (LOAD_SENSITIVE in tools/engine_timeout.py:    *)
(* oversleep, oversleep_tight, zero_timeout_blocked, blocked_until_guard, second_oversleep,                  *)
(* second_oversleep_tight) are re-measured by the engine and count only if they repeat every time.           *)
(*                                                                                                           *)
(* Clauses (p = "C12"), first dispatch:                                                                      *)
(*   early_return            end < W - EpsLo: the loop spun / returned before min(timeout, earliest deadline)*)
(*   returned_before_wakeup  only the external wake-up could end the wait, and it returned before it         *)
(*   oversleep               W finite and end > W + Slack                                                    *)
(*   oversleep_tight         W finite and W + Tight < end <= W + Slack                                       *)
(*   zero_timeout_blocked    timeout 0 and the call took more than Slack                                     *)
(*   blocked_until_guard     the dispatch had to be rescued by the guard wake-up                             *)
(*   limit_timer_not_fired   a timer due no later than W did not fire in this dispatch                       *)
(*   timer_fired_early / unarmed_timer_fired / timer_fired_twice / timer_deadline_mismatch                   *)
(*   callbacks_mismatch      a pending one-off event (Closed, synthetic, the ping) not delivered, or a       *)
(*                           callback of an idle / disabled source ran                                       *)
(*   one_off_source_not_removed / unexpected_removal    slab occupancy after the dispatch                    *)
(*   timer_heap_mismatch     heap length # number of representable timers (a far timer was armed)            *)
(*   Mismatch_wait_arg       the timeout handed to Poll::poll differs from the model's (synthetic => 0)      *)
(*   dispatch_failed         dispatch returned Err / panicked                                                *)
(* second dispatch (short timeout s2, right after): second_dispatch_spins, second_oversleep(_tight),              *)
(*   second_limit_timer_not_fired, second_timer_fired_early, second_callbacks, second_removal_mismatch,      *)
(*   Mismatch_second_wait_arg.                                                                               *)
EXTENDS Timeout, IOUtils

CONSTANTS EpsLo, Slack, Tight

Rec == ndJsonDeserialize(IOEnv.TRACE)

VARIABLES l, sh
tvars == <<l, sh>>

ToSet(q) == {q[i] : i \in DOMAIN q}

NoCf == [id |-> "none"]
Empty == [scn |-> "none", nscn |-> 0, cf |-> NoCf, fired |-> {}, viol |-> {}]

Vi(cl, ln, scn) == [p |-> "C12", c |-> cl, l |-> ln, scn |-> scn]

\* ------------------------------------------------------------------------------ the echoed configuration
TmOf(tms) ==
  [n \in {tms[i].n : i \in DOMAIN tms} |->
     LET i == CHOOSE j \in DOMAIN tms : tms[j].n = n
     IN IF tms[i].far = 1 THEN Inf ELSE tms[i].d_us]
ToOf(cf) == IF cf.to_us < 0 THEN Inf ELSE cf.to_us
HasAct(ev, a) == \E i \in DOMAIN ev.acts : ev.acts[i].a = a
ActOf(ev, a)  == ev.acts[CHOOSE i \in DOMAIN ev.acts : ev.acts[i].a = a]

Names(fs)  == {fs[i].n : i \in DOMAIN fs}
If(b, cl)  == IF b THEN {cl} ELSE {}

\* timers that ran: not before their deadline, armed, once, with the deadline they were armed with
FiredClauses(fs, tm, pre) ==
  If(\E i \in DOMAIN fs : fs[i].n \in DOMAIN tm /\ tm[fs[i].n] # Inf /\ fs[i].at_us < tm[fs[i].n], pre \o "timer_fired_early")
  \cup If(\E i \in DOMAIN fs : fs[i].n \notin DOMAIN tm \/ tm[fs[i].n] = Inf, "unarmed_timer_fired")
  \cup If(Cardinality(Names(fs)) # Len(fs), "timer_fired_twice")
  \cup If(\E i \in DOMAIN fs : fs[i].n \in DOMAIN tm /\ tm[fs[i].n] # Inf /\ fs[i].dl_us # tm[fs[i].n], "timer_deadline_mismatch")

\* ------------------------------------------------------------------------------------- first dispatch
First(s0, ev, ln) ==
  LET cf    == s0.cf
      tm    == TmOf(cf.timers)
      src   == ToSet(cf.src)
      woke  == cf.wake # "none" /\ HasAct(ev, cf.wake)
      \* when the slow before_sleep hook (source life_slow) was over, 0 = there was none
      bs    == IF "bs_end_us" \in DOMAIN ev THEN ev.bs_end_us ELSE 0
      base  == [to |-> ToOf(cf), tm |-> tm, src |-> src, wk |-> Inf, wake |-> "none", bs |-> bs]
      \* the wake-up as it really happened: not before b_us (taken just before the call), done by a_us
      qlo   == IF woke THEN [base EXCEPT !.wk = ActOf(ev, cf.wake).b_us, !.wake = cf.wake] ELSE base
      qhi   == IF woke THEN [base EXCEPT !.wk = ActOf(ev, cf.wake).a_us, !.wake = cf.wake] ELSE base
      LB    == SpecWait(qlo)                  \* measured from t0 <= start of the call: a sound lower bound for end_us
      UB    == SpecWait(qhi)
      F     == Names(ev.fired)
      cbs   == ToSet(ev.cbs)
      dcbs  == ToSet(ev.drain_cbs)
      need  == SpecCbs(qlo) \ {"ping"}
      pingD == cf.wake = "ping" /\ woke
      \* (timers bundled in one forwarding composite source are not sources of their own: firing frees no slot)
      bundle == "bundle" \in DOMAIN cf /\ cf.bundle = 1
      gone  == (IF bundle THEN 0 ELSE Cardinality(F)) + Cardinality(src \cap SelfGone)
      cl ==
        If(ev.r # "ok", "dispatch_failed")
        \cup If(ev.end_us < LB - EpsLo,
                IF SpecWait(base) = Inf \/ SpecWait(base) > LB THEN "returned_before_wakeup" ELSE "early_return")
        \cup If(UB # Inf /\ ev.end_us > UB + ev.start_us + Slack, "oversleep")
        \cup If(UB # Inf /\ ev.end_us > UB + ev.start_us + Tight /\ ev.end_us <= UB + ev.start_us + Slack, "oversleep_tight")
        \cup If(cf.to_us = 0 /\ ev.end_us - Max2(ev.start_us, bs) > Slack, "zero_timeout_blocked")
        \cup If(HasAct(ev, "guard"), "blocked_until_guard")
        \cup If(~(SpecFire(qlo) \subseteq F), "limit_timer_not_fired")
        \cup FiredClauses(ev.fired, tm, "")
        \cup FiredClauses(ev.drain_fired, tm, "")
        \cup If(\/ ~(need \subseteq cbs)
                \/ ~(cbs \subseteq need \cup (IF pingD THEN {"ping"} ELSE {}))
                \/ Cardinality(cbs) # Len(ev.cbs)
                \/ ~(dcbs \subseteq (IF pingD /\ "ping" \notin cbs THEN {"ping"} ELSE {}))
                \/ (pingD /\ ev.drained = 1 /\ "ping" \notin cbs \cup dcbs)
                \/ cf.warm_cbs # 0,
                "callbacks_mismatch")
        \cup If(ev.occ_a > ev.occ_b - gone, "one_off_source_not_removed")
        \cup If(ev.occ_a < ev.occ_b - gone, "unexpected_removal")
        \cup If(ev.heap_b # Cardinality(Armed(base)) \/ ev.heap_a # ev.heap_b - Cardinality(F)
                \/ cf.far_unarmed # Cardinality({n \in DOMAIN tm : tm[n] = Inf}), "timer_heap_mismatch")
        \cup If(ev.waits # 1 \/ ev.wait_us # (IF "life_synth" \in src THEN 0 ELSE cf.to_us), "Mismatch_wait_arg")
  IN [s0 EXCEPT !.fired = F \cup Names(ev.drain_fired),
                !.viol = @ \cup {Vi(x, ln, s0.scn) : x \in cl}]

\* ------------------------------------------------------------------------------------ second dispatch
Second(s0, ev, ln) ==
  LET cf    == s0.cf
      tm    == TmOf(cf.timers)
      base  == [to |-> ToOf(cf), tm |-> tm, src |-> ToSet(cf.src), wk |-> Inf, wake |-> "none", bs |-> 0]
      q2    == SpecAfter(base, ev.start_us, s0.fired, cf.s2_us)      \* times relative to the start of this call
      W2    == SpecWait(q2)
      el    == ev.end_us - ev.start_us
      F     == Names(ev.fired)
      cl ==
        If(ev.r # "ok", "dispatch_failed")
        \cup If(el < W2 - EpsLo, "second_dispatch_spins")
        \cup If(el > W2 + Slack, "second_oversleep")
        \cup If(el > W2 + Tight /\ el <= W2 + Slack, "second_oversleep_tight")
        \cup If(~(SpecFire(q2) \subseteq F), "second_limit_timer_not_fired")
        \cup If(F \cap s0.fired # {}, "timer_fired_twice")
        \cup FiredClauses(ev.fired, tm, "second_")
        \cup If(Len(ev.cbs) # 0, "second_callbacks")
        \cup If(ev.occ_a # ev.occ_b - (IF "bundle" \in DOMAIN cf /\ cf.bundle = 1 THEN 0 ELSE Cardinality(F))
                \/ ev.heap_a # ev.heap_b - Cardinality(F), "second_removal_mismatch")
        \cup If(ev.waits # 1 \/ ev.wait_us # cf.s2_us, "Mismatch_second_wait_arg")
  IN [s0 EXCEPT !.fired = @ \cup F, !.viol = @ \cup {Vi(x, ln, s0.scn) : x \in cl}]

Step(s0, ev, ln) ==
  IF ev.e = "reset" THEN [Empty EXCEPT !.scn = ev.id, !.nscn = s0.nscn + 1, !.cf = ev, !.viol = s0.viol]
  ELSE IF ev.e = "d" /\ s0.scn # "none" THEN (IF ev.k = 1 THEN First(s0, ev, ln) ELSE Second(s0, ev, ln))
  ELSE s0

\* (the variables of the transition system of Timeout.tla are not used here: they stay at one initial state)
TInit == /\ l = 1 /\ sh = Empty
         /\ c = [to |-> 0, tm |-> {}, src |-> {}, wake |-> "none", intr |-> 0]
         /\ pc = "done" /\ k = 1 /\ now = 0 /\ start = 0 /\ to = None /\ synth = {} /\ heap = <<>> /\ polled = {}
         /\ cnt = <<>> /\ bsn = 0 /\ eff = None /\ dl = None /\ evs = {} /\ wakeAt = None /\ intrAt = None /\ out = <<>>
TNext == /\ l <= Len(Rec)
         /\ sh' = Step(sh, Rec[l], l)
         /\ l' = l + 1
         /\ UNCHANGED vars
TSpec == TInit /\ [][TNext]_<<tvars, vars>>

\* printed once, in the final state: the verdict that the check driver parses
Verdict == l = Len(Rec) + 1 =>
             PrintT(<<"VERDICT", ToJson([n |-> Len(Rec), scenarios |-> sh.nscn, misuse |-> 0, viol |-> sh.viol])>>)
\* the whole trace was consumed (Step is total: it never blocks on a well-formed event)
Consumed == TLCGet("stats").diameter = Len(Rec) + 1
=============================================================================
