----------------------------- MODULE ExecProto -----------------------------
(***************************************************************************)
(* The futures executor (sources/futures.rs) with waker threads.           *)
(*                                                                         *)
(*   Sender::send(runnable) = push on the mpsc queue; if !swap(notified,   *)
(*                            true) { ping }                               *)
(*   Executor::process_events = drain the eventfd; store(notified, false); *)
(*        up to 1024 (verif: batch limit) times: try_recv -> run the       *)
(*        runnable (poll the future) -> if it finished hand the result to  *)
(*        the callback; Empty -> readiness cleared; limit -> re-ping.      *)
(*   async-task (contract, not verified): waking an idle task marks it     *)
(*        scheduled and calls the schedule function on the waking thread;  *)
(*        waking a scheduled task is a no-op; waking a running task makes  *)
(*        the runner reschedule it after the poll; completed tasks ignore  *)
(*        wakes.                                                           *)
(*                                                                         *)
(* One action = one yield-to-yield step (exec.send.before_enqueue,         *)
(* exec.send.before_swap, ping.write.*, exec.run.before_clear,             *)
(* exec.run.before_try_recv, user.poll inside a future's poll, user.cb     *)
(* inside the result callback, exec.rearm.before).                         *)
(***************************************************************************)
EXTENDS ConcContract, SequencesExt

CONSTANTS Scripts,   \* [tid -> sequence of future ids to wake]
          Needs,     \* [future id (0-based, as sequence index f+1) -> wakes needed before it completes]
          Limit, NDisp, Variants, RecordHist

T == DOMAIN Scripts
F == 0..(Len(Needs) - 1)
Loop == 0
Th == T \cup {Loop}

VARIABLES queue, notified, counter,
          st,        \* per future: "new" | "idle" | "sched" | "running" | "running_woken" | "done"
          woken, hasWaker,
          pc, ip, sending,      \* per thread (workers and loop): control state, script index, future being sent
          lpc, lready, ltries, ldisp, lnext,   \* loop: dispatch control; lnext = next future to schedule
          registered, finished, results,
          mon, hist, sched
vars == <<queue, notified, counter, st, woken, hasWaker, pc, ip, sending, lpc, lready, ltries, ldisp, lnext,
          registered, finished, results, mon, hist, sched>>
ProtoView == <<queue, notified, counter, st, woken, hasWaker, pc, ip, sending, lpc, lready, ltries, ldisp, lnext,
               registered, finished, results>>

Feed(m, evs) == FoldLeft(LAMBDA acc, e : CStep(acc, e, 0), m, evs)
Emit(evs, t) == /\ mon' = Feed(mon, evs)
                /\ hist' = IF RecordHist THEN hist \o evs ELSE hist
                /\ sched' = IF RecordHist THEN Append(sched, t) ELSE sched
Y(t, l) == [e |-> "y", t |-> t, l |-> l]
Call(t, n, f) == [e |-> "call", t |-> t, n |-> n, op |-> "wake", f |-> f]
Ret(t, n, r) == [e |-> "ret", t |-> t, n |-> n, op |-> "wake", r |-> r, m |-> 0]
NeedOf(f) == Needs[f + 1]

ResetEv == [e |-> "reset", id |-> "model", kind |-> "exec", cap |-> -1, limit |-> Limit,
            threads |-> [t \in {ToString(x) : x \in T} |-> [i \in DOMAIN Scripts[CHOOSE x \in T : ToString(x) = t] |-> "wake"]],
            loop |-> [i \in 1..Len(Needs) |-> "schedule"] \o [i \in 1..NDisp |-> "dispatch"]]

FirstSendLabel == IF "swap_before_enqueue" \in Variants THEN "exec.send.before_swap" ELSE "exec.send.before_enqueue"
FirstSendPc == IF "swap_before_enqueue" \in Variants THEN "e_swap" ELSE "e_enq"

\* a worker from script position i to its next yield point.  The async-task state change of wake() is atomic.
\* Result: [ip, evs, pc, st, woken, sending]
RECURSIVE RunTo(_, _, _, _, _)
RunTo(t, i, s, w, evs) ==
  IF i > Len(Scripts[t]) THEN [ip |-> i, evs |-> evs, pc |-> "done", st |-> s, woken |-> w, sending |-> -1]
  ELSE LET f == Scripts[t][i]  n == i - 1
           w2 == [w EXCEPT ![f] = @ + 1]
       IN IF ~hasWaker[f]
          THEN RunTo(t, i + 1, s, w2, evs \o <<Call(t, n, f), Ret(t, n, "nowaker")>>)
          ELSE CASE s[f] = "idle" ->
                      [ip |-> i, st |-> [s EXCEPT ![f] = "sched"], woken |-> w2, sending |-> f, pc |-> FirstSendPc,
                       evs |-> evs \o <<Call(t, n, f), Y(t, FirstSendLabel)>>]
                 [] s[f] = "running" ->
                      RunTo(t, i + 1, [s EXCEPT ![f] = "running_woken"], w2, evs \o <<Call(t, n, f), Ret(t, n, "ok")>>)
                 [] OTHER -> RunTo(t, i + 1, s, w2, evs \o <<Call(t, n, f), Ret(t, n, "ok")>>)

Init ==
  /\ queue = <<>> /\ notified = FALSE /\ counter = 0
  /\ st = [f \in F |-> "new"] /\ woken = [f \in F |-> 0] /\ hasWaker = [f \in F |-> FALSE]
  /\ pc = [t \in Th |-> "start"] /\ ip = [t \in T |-> 1] /\ sending = [t \in Th |-> -1]
  /\ lpc = "script" /\ lready = FALSE /\ ltries = 0 /\ ldisp = 0 /\ lnext = 0
  /\ registered = TRUE /\ finished = FALSE /\ results = <<>>
  /\ mon = Feed(CEmpty, <<ResetEv>>) /\ hist = (IF RecordHist THEN <<ResetEv>> ELSE <<>>) /\ sched = <<>>

Write2 == counter' = IF counter + 2 > 8 THEN counter ELSE counter + 2

(***************************************************************************)
(* Sender::send, executed by thread t (a waker thread or the loop thread): *)
(* returns the conjunct describing one step; `after` tells what the thread *)
(* does when send() has returned.                                          *)
(***************************************************************************)
SendStep(t) ==
  CASE pc[t] = "e_enq" ->
         /\ queue' = Append(queue, sending[t])
         /\ IF "swap_before_enqueue" \in Variants
            THEN \* (variant) the swap already happened and returned false: ping
                 /\ UNCHANGED <<notified, counter>>
                 /\ pc' = [pc EXCEPT ![t] = "e_wbefore"]
                 /\ Emit(<<Y(t, "ping.write.before")>>, t)
            ELSE /\ UNCHANGED <<notified, counter>> /\ pc' = [pc EXCEPT ![t] = "e_swap"] /\ Emit(<<Y(t, "exec.send.before_swap")>>, t)
    [] pc[t] = "e_swap" ->
         /\ notified' = TRUE /\ counter' = counter
         /\ IF "swap_before_enqueue" \in Variants
            THEN /\ queue' = queue
                 /\ pc' = [pc EXCEPT ![t] = IF notified THEN "e_enq_noping" ELSE "e_enq"]
                 /\ Emit(<<Y(t, "exec.send.before_enqueue")>>, t)
            ELSE /\ queue' = queue
                 /\ IF notified THEN pc' = [pc EXCEPT ![t] = "e_ret"] /\ Emit(<<>>, t)
                    ELSE pc' = [pc EXCEPT ![t] = "e_wbefore"] /\ Emit(<<Y(t, "ping.write.before")>>, t)
    [] pc[t] = "e_wbefore" ->
         /\ Write2 /\ UNCHANGED <<queue, notified>> /\ pc' = [pc EXCEPT ![t] = "e_wafter"] /\ Emit(<<Y(t, "ping.write.after")>>, t)
    [] OTHER -> FALSE


WorkerStep(t) ==
  /\ t \in T /\ pc[t] # "done"
  /\ IF pc[t] = "start"
     THEN LET r == RunTo(t, ip[t], st, woken, <<>>) IN
          /\ ip' = [ip EXCEPT ![t] = r.ip] /\ pc' = [pc EXCEPT ![t] = r.pc] /\ st' = r.st /\ woken' = r.woken
          /\ sending' = [sending EXCEPT ![t] = r.sending] /\ Emit(r.evs, t) /\ UNCHANGED <<queue, notified, counter>>
     ELSE IF pc[t] \in {"e_ret", "e_wafter", "e_enq_noping"} \/ (pc[t] = "e_swap" /\ notified /\ "swap_before_enqueue" \notin Variants)
     THEN \* send() returned (also: the swap found the executor already notified - no ping, no yield point):
          \* the wake call returns; on to the next yield point
          LET r == RunTo(t, ip[t] + 1, st, woken, <<Ret(t, ip[t] - 1, "ok")>>) IN
          /\ ip' = [ip EXCEPT ![t] = r.ip] /\ pc' = [pc EXCEPT ![t] = r.pc] /\ st' = r.st /\ woken' = r.woken
          /\ sending' = [sending EXCEPT ![t] = r.sending] /\ Emit(r.evs, t) /\ UNCHANGED <<notified, counter>>
          \* (variant: the push comes after a swap that returned true, and nothing follows it)
          /\ queue' = IF pc[t] = "e_enq_noping" THEN Append(queue, sending[t]) ELSE queue
     ELSE /\ SendStep(t) /\ UNCHANGED <<ip, st, woken, sending>>
  /\ UNCHANGED <<hasWaker, lpc, lready, ltries, ldisp, lnext, registered, finished, results>>

(***************************************************************************)
(* The loop thread.                                                        *)
(***************************************************************************)
LCall(op, k, f, need) == [e |-> "lcall", op |-> op, k |-> k, f |-> f, need |-> need]
LRet(op, k) == [e |-> "lret", op |-> op, k |-> k, r |-> "ok"]
NSched == Len(Needs)

\* what the loop does once the current step of its script (a schedule or a dispatch) is over
NextScriptStep(evs) ==
  IF lnext < NSched
  THEN \* Scheduler::schedule(future lnext): the task is created scheduled and sent
       /\ st' = [st EXCEPT ![lnext] = "sched"] /\ sending' = [sending EXCEPT ![Loop] = lnext] /\ lnext' = lnext + 1
       /\ lpc' = "sched_send" /\ pc' = [pc EXCEPT ![Loop] = FirstSendPc]
       /\ Emit(evs \o <<LCall("schedule", lnext, lnext, NeedOf(lnext)), Y(0, FirstSendLabel)>>, Loop)
       /\ UNCHANGED <<ldisp>>
  ELSE IF ldisp < NDisp
  THEN /\ lpc' = "wait_before" /\ ldisp' = ldisp + 1 /\ pc' = pc
       /\ Emit(evs \o <<LCall("dispatch", NSched + ldisp, 0, 0), Y(0, "loop.wait.before")>>, Loop)
       /\ UNCHANGED <<st, sending, lnext>>
  ELSE /\ lpc' = "barrier" /\ pc' = pc /\ Emit(evs \o <<Y(0, "barrier")>>, Loop) /\ UNCHANGED <<st, sending, lnext, ldisp>>

DispRet == <<LRet("dispatch", NSched + ldisp - 1)>>

\* the executor's loop body reached the top of an iteration
IterTop(evs) ==
  IF ltries >= Limit
  THEN \* batch limit: re-ping
       IF "no_rearm_at_limit" \in Variants THEN NextScriptStep(evs \o DispRet)
       ELSE /\ lpc' = "x_rearm" /\ Emit(evs \o <<Y(0, "exec.rearm.before")>>, Loop) /\ UNCHANGED <<st, sending, lnext, ldisp, pc>>
  ELSE /\ lpc' = "x_recv" /\ Emit(evs \o <<Y(0, "exec.run.before_try_recv")>>, Loop) /\ UNCHANGED <<st, sending, lnext, ldisp, pc>>

LoopStep ==
  /\ lpc \notin {"barrier", "done"}
  /\ CASE lpc = "script" ->
            NextScriptStep(<<>>) /\ UNCHANGED <<queue, notified, counter, woken, hasWaker, lready, ltries, registered, results>>
       [] lpc \in {"sched_send", "run_send"} ->
            \* Sender::send on the loop thread
            IF pc[Loop] \in {"e_ret", "e_wafter", "e_enq_noping"} \/ (pc[Loop] = "e_swap" /\ notified /\ "swap_before_enqueue" \notin Variants)
            THEN /\ queue' = IF pc[Loop] = "e_enq_noping" THEN Append(queue, sending[Loop]) ELSE queue
                 /\ IF lpc = "sched_send"
                    THEN /\ NextScriptStep(<<LRet("schedule", lnext - 1)>>)
                         /\ UNCHANGED <<notified, counter, woken, hasWaker, lready, ltries, registered, results>>
                    ELSE /\ IterTop(<<>>) /\ UNCHANGED <<notified, counter, woken, hasWaker, lready, ltries, registered, results>>
            ELSE /\ SendStep(Loop)
                 /\ UNCHANGED <<st, woken, hasWaker, sending, lpc, lready, ltries, ldisp, lnext, registered, results>>
       [] lpc = "wait_before" ->
            /\ lready' = (registered /\ counter > 0) /\ lpc' = "wait_after" /\ Emit(<<Y(0, "loop.wait.after")>>, Loop)
            /\ UNCHANGED <<queue, notified, counter, st, woken, hasWaker, pc, sending, ltries, ldisp, lnext, registered, results>>
       [] lpc = "wait_after" ->
            IF lready THEN /\ lpc' = "drain_before" /\ Emit(<<Y(0, "ping.drain.before")>>, Loop)
                           /\ UNCHANGED <<queue, notified, counter, st, woken, hasWaker, pc, sending, lready, ltries, ldisp, lnext, registered, results>>
            ELSE /\ NextScriptStep(DispRet) /\ UNCHANGED <<queue, notified, counter, woken, hasWaker, lready, ltries, registered, results>>
       [] lpc = "drain_before" ->
            /\ counter' = 0 /\ lpc' = "drain_after" /\ Emit(<<Y(0, "ping.drain.after")>>, Loop)
            /\ UNCHANGED <<queue, notified, st, woken, hasWaker, pc, sending, lready, ltries, ldisp, lnext, registered, results>>
       [] lpc = "drain_after" ->
            /\ lpc' = "x_clear" /\ Emit(<<Y(0, "exec.run.before_clear")>>, Loop)
            /\ UNCHANGED <<queue, notified, counter, st, woken, hasWaker, pc, sending, lready, ltries, ldisp, lnext, registered, results>>
       [] lpc = "x_clear" ->
            /\ notified' = (IF "clear_after_drain" \in Variants THEN notified ELSE FALSE) /\ ltries' = 1 /\ lpc' = "x_recv"
            /\ Emit(<<Y(0, "exec.run.before_try_recv")>>, Loop)
            /\ UNCHANGED <<queue, counter, st, woken, hasWaker, pc, sending, lready, ldisp, lnext, registered, results>>
       [] lpc = "x_recv" ->
            IF queue = <<>>
            THEN \* Empty: readiness cleared; the dispatch returns
                 /\ notified' = (IF "clear_after_drain" \in Variants THEN FALSE ELSE notified)
                 /\ NextScriptStep(DispRet) /\ UNCHANGED <<queue, counter, woken, hasWaker, lready, ltries, registered, results>>
            ELSE LET f == Head(queue) IN
                 \* run the runnable: poll the future
                 IF woken[f] >= NeedOf(f)
                 THEN /\ queue' = Tail(queue) /\ st' = [st EXCEPT ![f] = "done"] /\ results' = Append(results, f) /\ lpc' = "x_usercb"
                      /\ Emit(<<[e |-> "poll", f |-> f, woken |-> woken[f], on_loop |-> 1], [e |-> "fdrop", f |-> f, on_loop |-> 1],
                                [e |-> "cb", p |-> f], Y(0, "user.cb")>>, Loop)
                      /\ UNCHANGED <<notified, counter, woken, hasWaker, pc, sending, lready, ltries, ldisp, lnext, registered>>
                 ELSE /\ queue' = Tail(queue) /\ st' = [st EXCEPT ![f] = "running"] /\ hasWaker' = [hasWaker EXCEPT ![f] = TRUE]
                      /\ sending' = [sending EXCEPT ![Loop] = f] /\ lpc' = "x_inpoll"
                      /\ Emit(<<[e |-> "poll", f |-> f, woken |-> woken[f], on_loop |-> 1], Y(0, "user.poll")>>, Loop)
                      /\ UNCHANGED <<notified, counter, woken, pc, lready, ltries, ldisp, lnext, registered, results>>
       [] lpc = "x_inpoll" ->
            \* the poll returned Pending; a task woken while it ran is rescheduled by the runner (this thread)
            LET f == sending[Loop] IN
            IF st[f] = "running_woken"
            THEN /\ st' = [st EXCEPT ![f] = "sched"] /\ lpc' = "run_send" /\ pc' = [pc EXCEPT ![Loop] = FirstSendPc]
                 /\ ltries' = ltries + 1
                 /\ Emit(<<Y(0, FirstSendLabel)>>, Loop)
                 /\ UNCHANGED <<queue, notified, counter, woken, hasWaker, sending, lready, ldisp, lnext, registered, results>>
            ELSE /\ ltries' = ltries + 1
                 /\ LET lt == ltries + 1 IN
                    IF lt > Limit
                    THEN IF "no_rearm_at_limit" \in Variants
                         THEN NextScriptStep(DispRet) /\ st' = [st EXCEPT ![f] = "idle"] /\ FALSE
                         ELSE /\ lpc' = "x_rearm" /\ st' = [st EXCEPT ![f] = "idle"] /\ Emit(<<Y(0, "exec.rearm.before")>>, Loop)
                              /\ UNCHANGED <<sending, lnext, ldisp, pc>>
                    ELSE /\ lpc' = "x_recv" /\ st' = [st EXCEPT ![f] = "idle"] /\ Emit(<<Y(0, "exec.run.before_try_recv")>>, Loop)
                         /\ UNCHANGED <<sending, lnext, ldisp, pc>>
                 /\ UNCHANGED <<queue, notified, counter, woken, hasWaker, lready, registered, results>>
       [] lpc = "x_usercb" ->
            /\ ltries' = ltries + 1
            /\ LET lt == ltries + 1 IN
               IF lt > Limit
               THEN /\ lpc' = "x_rearm" /\ Emit(<<Y(0, "exec.rearm.before")>>, Loop) /\ UNCHANGED <<st, sending, lnext, ldisp, pc>>
               ELSE /\ lpc' = "x_recv" /\ Emit(<<Y(0, "exec.run.before_try_recv")>>, Loop) /\ UNCHANGED <<st, sending, lnext, ldisp, pc>>
            /\ UNCHANGED <<queue, notified, counter, woken, hasWaker, lready, registered, results>>
       [] lpc = "x_rearm" ->
            /\ lpc' = "x_wbefore" /\ Emit(<<Y(0, "ping.write.before")>>, Loop)
            /\ UNCHANGED <<queue, notified, counter, st, woken, hasWaker, pc, sending, lready, ltries, ldisp, lnext, registered, results>>
       [] lpc = "x_wbefore" ->
            /\ Write2 /\ lpc' = "x_wafter" /\ Emit(<<Y(0, "ping.write.after")>>, Loop)
            /\ UNCHANGED <<queue, notified, st, woken, hasWaker, pc, sending, lready, ltries, ldisp, lnext, registered, results>>
       [] OTHER -> \* "x_wafter"
            /\ NextScriptStep(DispRet) /\ UNCHANGED <<queue, notified, counter, woken, hasWaker, lready, ltries, registered, results>>
  /\ UNCHANGED <<ip, finished>>

\* final phase: run the executor to quiescence (three un-interleaved dispatches), idle wait, snapshot
RECURSIVE FinalRun(_, _, _, _, _, _, _, _)
FinalRun(n, k, c, q, s, hw, rs, evs) ==
  IF n = 0 THEN [c |-> c, q |-> q, st |-> s, hw |-> hw, rs |-> rs, evs |-> evs, k |-> k]
  ELSE IF ~(registered /\ c > 0)
       THEN FinalRun(n - 1, k + 1, c, q, s, hw, rs, evs \o <<LCall("dispatch", k, 0, 0), LRet("dispatch", k)>>)
       ELSE LET take == IF Len(q) < Limit THEN Len(q) ELSE Limit
                RECURSIVE Proc(_, _, _, _, _)
                Proc(i, s1, hw1, rs1, e1) ==
                  IF i > take THEN [st |-> s1, hw |-> hw1, rs |-> rs1, evs |-> e1]
                  ELSE LET f == q[i] IN
                       IF woken[f] >= NeedOf(f)
                       THEN Proc(i + 1, [s1 EXCEPT ![f] = "done"], hw1, Append(rs1, f),
                                 e1 \o <<[e |-> "poll", f |-> f, woken |-> woken[f], on_loop |-> 1], [e |-> "fdrop", f |-> f, on_loop |-> 1], [e |-> "cb", p |-> f]>>)
                       ELSE Proc(i + 1, [s1 EXCEPT ![f] = "idle"], [hw1 EXCEPT ![f] = TRUE], rs1,
                                 e1 \o <<[e |-> "poll", f |-> f, woken |-> woken[f], on_loop |-> 1]>>)
                r == Proc(1, s, hw, rs, <<LCall("dispatch", k, 0, 0)>>)
                rest == SubSeq(q, take + 1, Len(q))
                c2 == IF take = Limit /\ "no_rearm_at_limit" \notin Variants THEN 2 ELSE 0
            IN FinalRun(n - 1, k + 1, c2, rest, r.st, r.hw, r.rs, evs \o r.evs \o <<LRet("dispatch", k)>>)

Final ==
  /\ ~finished /\ lpc = "barrier" /\ \A t \in T : pc[t] = "done"
  /\ LET r == FinalRun(3, NSched + ldisp, counter, queue, st, hasWaker, results, <<>>)
         spin == registered /\ r.c > 0
     IN /\ counter' = r.c /\ queue' = r.q /\ st' = r.st /\ hasWaker' = r.hw /\ results' = r.rs
        /\ notified' = FALSE /\ finished' = TRUE /\ lpc' = "done"
        /\ Emit(r.evs \o <<LCall("idle_wait", r.k, 0, 0),
                          [e |-> "lret", op |-> "idle_wait", k |-> r.k, r |-> "ok", elapsed_us |-> IF spin THEN 0 ELSE 4000, timeout_us |-> 4000],
                          LCall("snap", r.k + 1, 0, 0),
                          [e |-> "lret", op |-> "snap", k |-> r.k + 1, r |-> "ok", occupied |-> 1],
                          [e |-> "loop_done"]>>
                 \o <<[e |-> "end", id |-> "model", stuck |-> 0, loop_ok |-> 1]>>, Loop)
  /\ UNCHANGED <<woken, pc, ip, sending, lready, ltries, ldisp, lnext, registered>>

Next == (\E t \in T : WorkerStep(t)) \/ LoopStep \/ Final
Spec == Init /\ [][Next]_vars

Inv_C10 == {v \in mon.viol : v.p = "C10"} = {}

(***************************************************************************)
(* State invariants of the protocol.                                       *)
(***************************************************************************)
\* a queued runnable always has a wake-up pending, or somebody who is about to make / consume one
SomeoneWillWake == \/ \E t \in Th : pc[t] \in {"e_swap", "e_wbefore"} /\ (t \in T \/ lpc \in {"sched_send", "run_send"})
                   \/ lpc \in {"drain_before", "drain_after", "x_clear", "x_recv", "x_inpoll", "x_usercb", "x_rearm", "x_wbefore", "run_send"}
NoLostWake == (registered /\ queue # <<>>) => (counter >= 2 \/ SomeoneWillWake)
\* every task marked scheduled is in the queue or on its way into it
ScheduledIsQueued == \A f \in F : st[f] = "sched" =>
                        (\E i \in DOMAIN queue : queue[i] = f) \/ (\E t \in Th : sending[t] = f /\ pc[t] \in {"e_enq", "e_swap", "e_enq_noping"})
                        \/ (lpc = "x_inpoll" /\ FALSE)
\* each result is delivered once
ResultsOnce == \A i, j \in DOMAIN results : i # j => results[i] # results[j]
\* at quiescence every future that got the wakes it needs has completed and delivered its result
Quiescent == finished => \A f \in F : (woken[f] >= NeedOf(f)) => (st[f] = "done" /\ \E i \in DOMAIN results : results[i] = f)
SInv_C10 == NoLostWake /\ ScheduledIsQueued /\ ResultsOnce /\ Quiescent
\* end-to-end form (used to obtain *complete* counterexample schedules from the variants)
EndInv == finished => (Inv_C10 /\ Quiescent)
EndInvS == Quiescent
Done == finished
=============================================================================
