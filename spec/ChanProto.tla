----------------------------- MODULE ChanProto -----------------------------
(***************************************************************************)
(* The channel protocol (sources/channel.rs): an std mpsc queue whose      *)
(* receiver sits in the loop behind an eventfd ping.                       *)
(*                                                                         *)
(*   Sender::send      = push, then ping (write 2 to the eventfd)          *)
(*   SyncSender::try_send = try_push; ping if Ok or Full                   *)
(*   SyncSender::send  = try_send; if Full: blocking push, then ping       *)
(*   drop of a sender  = drop the mpsc sender, then ping (PingOnDrop)      *)
(*   Channel::process_events = drain the eventfd, then up to               *)
(*       max = min(capacity + 1, 1024[, verif batch limit]) try_recv:      *)
(*       Ok(m) -> callback(Msg m); Empty -> stop (readiness cleared);      *)
(*       Disconnected -> callback(Closed), Remove;                         *)
(*       limit reached -> re-ping itself.                                  *)
(*                                                                         *)
(* One action = one yield-to-yield step of a thread (the labels of the     *)
(* crate's cfg(calloop_verif) yield points), so that behaviours are        *)
(* schedules the harness replays on real threads.  Blocking pushes are     *)
(* modelled (pc = "blocked") but their wake-up is not a scheduling point   *)
(* of the real code, so schedules that block are validated by the contract *)
(* only, not compared event-for-event.                                     *)
(***************************************************************************)
EXTENDS ConcContract, SequencesExt

CONSTANTS Scripts,     \* [tid -> sequence of "send" | "try_send" | "clone" | "drop"]
          Cap,         \* -1 = channel(), n >= 0 = sync_channel(n)
          Limit,       \* verif batch limit (1024 = the code's own)
          NDisp, Variants, RecordHist

T == DOMAIN Scripts
Loop == 0
MaxTry == LET a == IF Cap < 0 THEN 1024 ELSE (IF "max_without_plus_one" \in Variants THEN Cap ELSE Cap + 1)
          IN IF a < Limit THEN a ELSE Limit

VARIABLES queue,      \* the mpsc queue (message ids)
          offers,     \* rendezvous / blocked senders: set of <<tid, msg>> waiting to push
          senders,    \* live mpsc senders
          held,       \* per thread: handles held
          counter,    \* eventfd
          pc, ip, cur,      \* per thread: control state, script index, message of the op in progress
          nmsg,       \* per thread: messages announced so far
          lpc, lready, ltries, ldisp, registered, finished,
          delivered, closedSeen,       \* ghost
          mon, hist, sched, everBlocked
vars == <<queue, offers, senders, held, counter, pc, ip, cur, nmsg, lpc, lready, ltries, ldisp, registered, finished,
          delivered, closedSeen, mon, hist, sched, everBlocked>>
ProtoView == <<queue, offers, senders, held, counter, pc, ip, cur, nmsg, lpc, lready, ltries, ldisp, registered, finished,
               delivered, closedSeen>>

Feed(m, evs) == FoldLeft(LAMBDA acc, e : CStep(acc, e, 0), m, evs)
Emit(evs, t) == /\ mon' = Feed(mon, evs)
                /\ hist' = IF RecordHist THEN hist \o evs ELSE hist
                /\ sched' = IF RecordHist THEN Append(sched, t) ELSE sched

Y(t, l) == [e |-> "y", t |-> t, l |-> l]
Call(t, n, op) == [e |-> "call", t |-> t, n |-> n, op |-> op, f |-> 0]
Ret(t, n, op, r, m) == [e |-> "ret", t |-> t, n |-> n, op |-> op, r |-> r, m |-> m]
Msg(t, k) == t * 1000 + k

ResetEv == [e |-> "reset", id |-> "model", kind |-> "chan", cap |-> Cap, limit |-> Limit,
            threads |-> [t \in {ToString(x) : x \in T} |-> Scripts[CHOOSE x \in T : ToString(x) = t]],
            loop |-> [i \in 1..NDisp |-> "dispatch"]]

\* run thread t from script position i to its next yield point
RECURSIVE RunTo(_, _, _, _, _, _)
RunTo(t, i, h, snd, k, evs) ==
  IF i > Len(Scripts[t]) THEN [ip |-> i, held |-> h, senders |-> snd, nmsg |-> k, evs |-> evs, pc |-> "done", cur |-> 0]
  ELSE LET op == Scripts[t][i] n == i - 1 IN
       IF h = 0 THEN RunTo(t, i + 1, h, snd, k, evs \o <<Call(t, n, op), Ret(t, n, op, "nohandle", 0)>>)
       ELSE CASE op = "clone" -> RunTo(t, i + 1, h + 1, snd + 1, k, evs \o <<Call(t, n, op), Ret(t, n, op, "ok", 0)>>)
              [] op = "drop" /\ Cap >= 0 /\ snd > 1 ->
                   \* SyncSender clones share one Arc<PingOnDrop>: only the last one pings
                   RunTo(t, i + 1, h - 1, snd - 1, k, evs \o <<Call(t, n, op), Ret(t, n, op, "ok", 0)>>)
              [] op = "drop" ->
                   \* the mpsc sender goes first, then PingOnDrop pings
                   [ip |-> i, held |-> h - 1, senders |-> IF "ping_before_sender_drop" \in Variants THEN snd ELSE snd - 1,
                    nmsg |-> k, evs |-> evs \o <<Call(t, n, op), Y(t, "ping.write.before")>>, pc |-> "d_wbefore", cur |-> 0]
              [] op = "send" /\ Cap < 0 ->
                   [ip |-> i, held |-> h, senders |-> snd, nmsg |-> k + 1, cur |-> Msg(t, k + 1), pc |-> "s_enq",
                    evs |-> evs \o <<Call(t, n, op), [e |-> "sending", t |-> t, m |-> Msg(t, k + 1)], Y(t, "chan.send.before_enqueue")>>]
              [] op = "send" ->
                   [ip |-> i, held |-> h, senders |-> snd, nmsg |-> k + 1, cur |-> Msg(t, k + 1), pc |-> "ss_before",
                    evs |-> evs \o <<Call(t, n, op), [e |-> "sending", t |-> t, m |-> Msg(t, k + 1)], Y(t, "chan.sync_send.before")>>]
              [] OTHER -> \* try_send (sync flavour only)
                   [ip |-> i, held |-> h, senders |-> snd, nmsg |-> k + 1, cur |-> Msg(t, k + 1), pc |-> "ts_enq",
                    evs |-> evs \o <<Call(t, n, op), [e |-> "sending", t |-> t, m |-> Msg(t, k + 1)], Y(t, "chan.try_send.before_enqueue")>>]

Init ==
  /\ queue = <<>> /\ offers = {} /\ senders = Cardinality(T) /\ held = [t \in T |-> 1] /\ counter = 0
  /\ pc = [t \in T |-> "start"] /\ ip = [t \in T |-> 1] /\ cur = [t \in T |-> 0] /\ nmsg = [t \in T |-> 0]
  /\ lpc = "start" /\ lready = FALSE /\ ltries = 0 /\ ldisp = 0 /\ registered = TRUE /\ finished = FALSE
  /\ delivered = <<>> /\ closedSeen = FALSE
  /\ mon = Feed(CEmpty, <<ResetEv>>)
  /\ hist = IF RecordHist THEN <<ResetEv>> ELSE <<>>
  /\ sched = <<>> /\ everBlocked = FALSE

Apply(t, r) == /\ ip' = [ip EXCEPT ![t] = r.ip] /\ held' = [held EXCEPT ![t] = r.held] /\ senders' = r.senders
               /\ nmsg' = [nmsg EXCEPT ![t] = r.nmsg] /\ pc' = [pc EXCEPT ![t] = r.pc] /\ cur' = [cur EXCEPT ![t] = r.cur]
Stay(t, p) == /\ pc' = [pc EXCEPT ![t] = p] /\ UNCHANGED <<ip, held, senders, nmsg, cur>>
Write2 == counter' = IF counter + 2 > 8 THEN counter ELSE counter + 2
Full == Cap >= 0 /\ Len(queue) >= Cap
OpName(t) == Scripts[t][ip[t]]

WorkerStep(t) ==
  /\ pc[t] \notin {"done", "blocked"}
  /\ CASE pc[t] = "start" ->
            LET r == RunTo(t, ip[t], held[t], senders, nmsg[t], <<>>) IN
            /\ Apply(t, r) /\ Emit(r.evs, t) /\ UNCHANGED <<queue, offers, counter>>
       [] pc[t] = "s_enq" ->
            \* mpsc push, then Ping::ping up to its first yield point
            /\ IF "wake_before_enqueue" \in Variants THEN queue' = queue ELSE queue' = Append(queue, cur[t])
            /\ Stay(t, "s_wbefore") /\ Emit(<<Y(t, "ping.write.before")>>, t) /\ UNCHANGED <<offers, counter>>
       [] pc[t] \in {"s_wbefore", "d_wbefore", "ts_wbefore_ok", "ts_wbefore_full"} ->
            /\ Write2
            /\ queue' = queue
            /\ Stay(t, CASE pc[t] = "s_wbefore" -> "s_wafter" [] pc[t] = "d_wbefore" -> "d_wafter"
                         [] pc[t] = "ts_wbefore_ok" -> "ts_wafter_ok" [] OTHER -> "ts_wafter_full")
            /\ Emit(<<Y(t, "ping.write.after")>>, t) /\ UNCHANGED offers
       [] pc[t] = "s_wafter" ->
            LET r == RunTo(t, ip[t] + 1, held[t], senders, nmsg[t], <<Ret(t, ip[t] - 1, OpName(t), "ok", cur[t])>>) IN
            /\ Apply(t, r) /\ Emit(r.evs, t) /\ UNCHANGED <<offers, counter>>
            \* (variant: the wake-up was written first, the push comes only now)
            /\ IF "wake_before_enqueue" \in Variants /\ OpName(t) = "send" /\ Cap < 0 THEN queue' = Append(queue, cur[t]) ELSE queue' = queue
       [] pc[t] = "d_wafter" ->
            LET snd == IF "ping_before_sender_drop" \in Variants THEN senders - 1 ELSE senders
                r == RunTo(t, ip[t] + 1, held[t], snd, nmsg[t], <<Ret(t, ip[t] - 1, "drop", "ok", 0)>>) IN
            /\ Apply(t, r) /\ Emit(r.evs, t) /\ UNCHANGED <<queue, offers, counter>>
       [] pc[t] = "ss_before" ->
            /\ Stay(t, "ts_enq") /\ Emit(<<Y(t, "chan.try_send.before_enqueue")>>, t) /\ UNCHANGED <<queue, offers, counter>>
       [] pc[t] = "ts_enq" ->
            \* try_push: Ok if there is room (never for a rendezvous channel: the loop only try_recv's)
            IF Full THEN /\ Stay(t, "ts_wbefore_full") /\ Emit(<<Y(t, "ping.write.before")>>, t) /\ UNCHANGED <<queue, offers, counter>>
            ELSE /\ queue' = Append(queue, cur[t]) /\ Stay(t, "ts_wbefore_ok")
                 /\ Emit(<<Y(t, "ping.write.before")>>, t) /\ UNCHANGED <<offers, counter>>
       [] pc[t] \in {"ts_wafter_ok", "ts_wafter_full"} ->
            IF OpName(t) = "try_send"
            THEN LET res == IF pc[t] = "ts_wafter_ok" THEN "ok" ELSE "full"
                     r == RunTo(t, ip[t] + 1, held[t], senders, nmsg[t], <<Ret(t, ip[t] - 1, "try_send", res, cur[t])>>) IN
                 /\ Apply(t, r) /\ Emit(r.evs, t) /\ UNCHANGED <<queue, offers, counter>>
            ELSE /\ Stay(t, IF pc[t] = "ts_wafter_ok" THEN "ss_after_ok" ELSE "ss_after_full")
                 /\ Emit(<<Y(t, "chan.sync_send.after_try")>>, t) /\ UNCHANGED <<queue, offers, counter>>
       [] pc[t] = "ss_after_ok" ->
            LET r == RunTo(t, ip[t] + 1, held[t], senders, nmsg[t], <<Ret(t, ip[t] - 1, "send", "ok", cur[t])>>) IN
            /\ Apply(t, r) /\ Emit(r.evs, t) /\ UNCHANGED <<queue, offers, counter>>
       [] OTHER -> \* "ss_after_full": the blocking push
            IF Cap > 0 /\ ~Full
            THEN /\ queue' = Append(queue, cur[t]) /\ Stay(t, "s_wbefore")
                 /\ Emit(<<Y(t, "ping.write.before")>>, t) /\ UNCHANGED <<offers, counter>>
            ELSE /\ offers' = offers \cup {<<t, cur[t]>>} /\ Stay(t, "blocked")
                 /\ Emit(<<>>, t) /\ UNCHANGED <<queue, counter>>
  /\ everBlocked' = (everBlocked \/ pc'[t] = "blocked")
  /\ UNCHANGED <<lpc, lready, ltries, ldisp, registered, finished, delivered, closedSeen>>

\* a blocked sender whose push went through (room was made / the rendezvous happened) runs on, without the scheduler
Unblock(t) ==
  /\ pc[t] = "blocked" /\ <<t, cur[t]>> \notin offers
  /\ Stay(t, "s_wbefore") /\ Emit(<<Y(t, "ping.write.before")>>, t)
  /\ UNCHANGED <<queue, offers, counter, lpc, lready, ltries, ldisp, registered, finished, delivered, closedSeen, everBlocked>>

AfterDispatch(evs) ==
  LET done == evs \o <<[e |-> "lret", op |-> "dispatch", k |-> ldisp - 1, r |-> "ok"]>> IN
  IF ldisp < NDisp
  THEN /\ lpc' = "wait_before" /\ ldisp' = ldisp + 1
       /\ Emit(done \o <<[e |-> "lcall", op |-> "dispatch", k |-> ldisp, f |-> 0], Y(0, "loop.wait.before")>>, Loop)
  ELSE /\ lpc' = "barrier" /\ ldisp' = ldisp /\ Emit(done \o <<Y(0, "barrier")>>, Loop)

\* the receiver's try_recv: the head of the queue, else (rendezvous / woken pusher) one waiting offer
TryRecv ==
  IF queue # <<>> THEN [m |-> Head(queue), q |-> Tail(queue),
                       \* taking a message makes room: one blocked pusher gets its message in
                       o |-> IF Cap > 0 /\ offers # {} THEN offers \ {CHOOSE x \in offers : TRUE} ELSE offers,
                       q2 |-> IF Cap > 0 /\ offers # {} THEN Append(Tail(queue), (CHOOSE x \in offers : TRUE)[2]) ELSE Tail(queue)]
  ELSE IF Cap = 0 /\ offers # {} THEN [m |-> (CHOOSE x \in offers : TRUE)[2], q |-> queue, q2 |-> queue,
                                      o |-> offers \ {CHOOSE x \in offers : TRUE}]
  ELSE [m |-> 0, q |-> queue, q2 |-> queue, o |-> offers]

LoopStep ==
  /\ lpc \notin {"barrier", "done"}
  /\ CASE lpc = "start" ->
            IF NDisp = 0 THEN /\ lpc' = "barrier" /\ Emit(<<Y(0, "barrier")>>, Loop)
                              /\ UNCHANGED <<ldisp, lready, ltries, counter, registered, queue, offers, delivered, closedSeen>>
            ELSE /\ lpc' = "wait_before" /\ ldisp' = 1
                 /\ Emit(<<[e |-> "lcall", op |-> "dispatch", k |-> 0, f |-> 0], Y(0, "loop.wait.before")>>, Loop)
                 /\ UNCHANGED <<lready, ltries, counter, registered, queue, offers, delivered, closedSeen>>
       [] lpc = "wait_before" ->
            /\ lready' = (registered /\ counter > 0) /\ lpc' = "wait_after" /\ Emit(<<Y(0, "loop.wait.after")>>, Loop)
            /\ UNCHANGED <<ldisp, ltries, counter, registered, queue, offers, delivered, closedSeen>>
       [] lpc = "wait_after" ->
            IF lready THEN /\ lpc' = "drain_before" /\ Emit(<<Y(0, "ping.drain.before")>>, Loop)
                           /\ UNCHANGED <<ldisp, lready, ltries, counter, registered, queue, offers, delivered, closedSeen>>
            ELSE AfterDispatch(<<>>) /\ UNCHANGED <<lready, ltries, counter, registered, queue, offers, delivered, closedSeen>>
       [] lpc = "drain_before" ->
            /\ counter' = 0 /\ lpc' = "drain_after" /\ Emit(<<Y(0, "ping.drain.after")>>, Loop)
            /\ UNCHANGED <<ldisp, lready, ltries, registered, queue, offers, delivered, closedSeen>>
       [] lpc = "drain_after" ->
            \* the ping callback = the channel's drain loop (always entered: the counter held at least one ping)
            /\ lpc' = "recv" /\ ltries' = 0 /\ Emit(<<Y(0, "chan.recv.before_try_recv")>>, Loop)
            /\ UNCHANGED <<ldisp, lready, counter, registered, queue, offers, delivered, closedSeen>>
       [] lpc = "recv" ->
            LET r == TryRecv IN
            IF r.m # 0
            THEN /\ queue' = r.q2 /\ offers' = r.o /\ delivered' = Append(delivered, r.m) /\ lpc' = "user_cb" /\ ltries' = ltries + 1
                 /\ Emit(<<[e |-> "cb", p |-> r.m], Y(0, "user.cb")>>, Loop)
                 /\ UNCHANGED <<ldisp, lready, counter, registered, closedSeen>>
            ELSE IF senders = 0 /\ offers = {}
            THEN /\ closedSeen' = TRUE /\ lpc' = "user_cb_closed" /\ Emit(<<[e |-> "cb", p |-> -1], Y(0, "user.cb")>>, Loop)
                 /\ UNCHANGED <<ldisp, lready, ltries, counter, registered, queue, offers, delivered>>
            ELSE \* Empty: readiness cleared, Continue
                 /\ AfterDispatch(<<>>) /\ UNCHANGED <<lready, ltries, counter, registered, queue, offers, delivered, closedSeen>>
       [] lpc = "user_cb" ->
            IF ltries < MaxTry
            THEN /\ lpc' = "recv" /\ Emit(<<Y(0, "chan.recv.before_try_recv")>>, Loop)
                 /\ UNCHANGED <<ldisp, lready, ltries, counter, registered, queue, offers, delivered, closedSeen>>
            ELSE IF "no_rearm_at_limit" \in Variants
            THEN AfterDispatch(<<>>) /\ UNCHANGED <<lready, ltries, counter, registered, queue, offers, delivered, closedSeen>>
            ELSE /\ lpc' = "rearm" /\ Emit(<<Y(0, "chan.rearm.before")>>, Loop)
                 /\ UNCHANGED <<ldisp, lready, ltries, counter, registered, queue, offers, delivered, closedSeen>>
       [] lpc = "rearm" ->
            /\ lpc' = "l_wbefore" /\ Emit(<<Y(0, "ping.write.before")>>, Loop)
            /\ UNCHANGED <<ldisp, lready, ltries, counter, registered, queue, offers, delivered, closedSeen>>
       [] lpc = "l_wbefore" ->
            /\ Write2 /\ lpc' = "l_wafter" /\ Emit(<<Y(0, "ping.write.after")>>, Loop)
            /\ UNCHANGED <<ldisp, lready, ltries, registered, queue, offers, delivered, closedSeen>>
       [] lpc = "l_wafter" ->
            AfterDispatch(<<>>) /\ UNCHANGED <<lready, ltries, counter, registered, queue, offers, delivered, closedSeen>>
       [] OTHER -> \* "user_cb_closed": Remove
            /\ registered' = FALSE /\ AfterDispatch(<<>>)
            /\ UNCHANGED <<lready, ltries, counter, queue, offers, delivered, closedSeen>>
  /\ UNCHANGED <<senders, held, pc, ip, cur, nmsg, finished, everBlocked>>

\* final phase (all workers done): three dispatches run to completion, idle wait, snapshot
RECURSIVE FinalRun(_, _, _, _, _, _, _)
FinalRun(n, k, c, reg, q, cs, evs) ==
  IF n = 0 THEN [c |-> c, reg |-> reg, q |-> q, cs |-> cs, evs |-> evs, k |-> k]
  ELSE LET fire == reg /\ c > 0
           take == IF Len(q) < MaxTry THEN Len(q) ELSE MaxTry
           cbs == [i \in 1..take |-> [e |-> "cb", p |-> q[i]]]
           rest == SubSeq(q, take + 1, Len(q))
           closedNow == fire /\ rest = <<>> /\ take < MaxTry /\ senders = 0 /\ ~cs
           hitLimit == fire /\ take = MaxTry /\ "no_rearm_at_limit" \notin Variants
           evs2 == evs \o <<[e |-> "lcall", op |-> "dispatch", k |-> k, f |-> 0]>>
                   \o (IF fire THEN cbs \o (IF closedNow THEN <<[e |-> "cb", p |-> -1]>> ELSE <<>>) ELSE <<>>)
                   \o <<[e |-> "lret", op |-> "dispatch", k |-> k, r |-> "ok"]>>
       IN FinalRun(n - 1, k + 1, IF fire THEN (IF hitLimit THEN 2 ELSE 0) ELSE c, IF closedNow THEN FALSE ELSE reg,
                   IF fire THEN rest ELSE q, cs \/ closedNow, evs2)

Final ==
  /\ ~finished /\ lpc = "barrier" /\ \A t \in T : pc[t] = "done"
  /\ LET r == FinalRun(3, ldisp, counter, registered, queue, closedSeen, <<>>)
         spin == r.reg /\ r.c > 0
     IN /\ counter' = r.c /\ registered' = r.reg /\ queue' = r.q /\ closedSeen' = r.cs /\ finished' = TRUE /\ lpc' = "done"
        /\ delivered' = delivered \o SubSeq(queue, 1, Len(queue) - Len(r.q))
        /\ Emit(r.evs \o <<[e |-> "lcall", op |-> "idle_wait", k |-> r.k, f |-> 0],
                          [e |-> "lret", op |-> "idle_wait", k |-> r.k, r |-> "ok",
                           elapsed_us |-> IF spin THEN 0 ELSE 4000, timeout_us |-> 4000],
                          [e |-> "lcall", op |-> "snap", k |-> r.k + 1, f |-> 0],
                          [e |-> "lret", op |-> "snap", k |-> r.k + 1, r |-> "ok", occupied |-> IF r.reg THEN 1 ELSE 0],
                          [e |-> "loop_done"], [e |-> "end", id |-> "model", stuck |-> 0, loop_ok |-> 1]>>, Loop)
  /\ UNCHANGED <<offers, senders, held, pc, ip, cur, nmsg, lready, ltries, ldisp, everBlocked>>

Next == (\E t \in T : WorkerStep(t) \/ Unblock(t)) \/ LoopStep \/ Final
Spec == Init /\ [][Next]_vars

Inv_C04 == {v \in mon.viol : v.p = "C04"} = {}

(***************************************************************************)
(* State invariants of the protocol (no observation variables).            *)
(***************************************************************************)
WakeInFlight == \/ \E t \in T : pc[t] \in {"s_wbefore", "d_wbefore", "ts_wbefore_ok", "ts_wbefore_full"}
                \/ lpc \in {"drain_before", "drain_after", "recv", "user_cb", "rearm", "l_wbefore"}
\* no message (and no pending Closed) is ever left without a pending wake-up
NoStrand == (registered /\ (queue # <<>> \/ (senders = 0 /\ ~closedSeen /\ offers = {})))
               => (counter >= 2 \/ WakeInFlight \/ \E t \in T : pc[t] = "s_enq" /\ "wake_before_enqueue" \in Variants /\ FALSE)
\* exactly-once, per-sender order
NoDup == \A i, j \in DOMAIN delivered : i # j => delivered[i] # delivered[j]
SenderOrder == \A i, j \in DOMAIN delivered : (i < j /\ delivered[i] \div 1000 = delivered[j] \div 1000) => delivered[i] < delivered[j]
ClosedLast == closedSeen => (senders = 0 /\ queue = <<>>)
\* a sender blocked on a full bounded channel is always going to be served (bound >= 1)
BlockedServed == (Cap > 0 /\ \E t \in T : pc[t] = "blocked" /\ <<t, cur[t]>> \in offers /\ registered)
                    => (counter >= 2 \/ WakeInFlight)
SInv_C04 == NoStrand /\ NoDup /\ SenderOrder /\ ClosedLast /\ BlockedServed
\* expected to FAIL for Cap = 0 (known finding KF-C04-rendezvous): a rendezvous sender can wait with no wake-up pending
RendezvousServed == (Cap = 0 /\ \E t \in T : pc[t] = "blocked" /\ registered) => (counter >= 2 \/ WakeInFlight)
\* end-to-end form (used to obtain *complete* counterexample schedules from the variants)
\* state form of the end-to-end check: nothing stranded, Closed delivered once all senders are gone
QuiescentC == finished => (queue = <<>> /\ offers = {} /\ (senders = 0 => closedSeen))
EndInv == finished => Inv_C04
EndInvS == QuiescentC
Done == finished
=============================================================================
