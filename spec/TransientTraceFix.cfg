\* same monitor, but the transcription with the candidate fix of O9 (the wrapper remembers that the child is
\* already unregistered): used by the engine to recognise a repaired implementation
SPECIFICATION TSpec
CONSTANTS
  NChildren = 3
  KindSets = {}
  Inits = {}
  MaxLen = 0
  MaxChanges = 2
  MaxUser = 1
  AfterChange = "rereg_only"
  ReEnable = TRUE
  Variants = {"fix_track_registered"}
  Ignore = {}
INVARIANT Verdict
POSTCONDITION Consumed
CHECK_DEADLOCK FALSE
