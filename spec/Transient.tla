------------------------------ MODULE Transient ------------------------------
(***************************************************************************)
(* Property C18: TransientSource keeps its child's registration in step    *)
(* with its state.                                                         *)
(*                                                                         *)
(* An implementation-shaped transcription of /repo/src/sources/transient.rs*)
(* One operator per method of TransientSource (`DoRegister`, `DoReregister`,*)
(* `DoUnregister`, `DoProcessEvents`, `DoRemove`, `DoReplace`, `DoMap`),   *)
(* written as the same `match` on the same enum; the `?` after every child *)
(* call is modelled (a failing child call aborts the rest of the method,   *)
(* the state is left as it was at that point).  The children are modelled  *)
(* by what the two real child kinds used in the harness do:                *)
(*   "fd" = calloop::generic::Generic  (epoll_ctl: ADD of a registered fd  *)
(*          fails EEXIST, DEL/MOD of an unregistered fd fail ENOENT; Drop  *)
(*          deletes the fd from the poller),                               *)
(*   "tm" = calloop::timer::Timer (register pushes a wheel entry, unregister*)
(*          of an unregistered timer is a silent no-op, no Drop impl: a    *)
(*          timer dropped while registered leaks its wheel entry).         *)
(*                                                                         *)
(* The pure part (everything up to `Apply`) is shared with                 *)
(* TransientTrace.tla, which replays the calls recorded from the real      *)
(* crate through the same operators.                                       *)
(***************************************************************************)
EXTENDS Naturals, Sequences, FiniteSets, TLC

CONSTANTS
  NChildren,    \* number of child identities available (child 1 = the From<T> child, the others arrive by replace())
  KindSets,     \* set of tuples <<kind of child 1, ..., kind of child NChildren>>, kinds "fd" | "tm"
  Inits,        \* subset of {"from", "default"}
  MaxLen,       \* bound on the number of calls of one behaviour; 0 = unbounded (the graph is finite anyway)
  MaxChanges,   \* protocol: how many changes may pile up before the re-registration (documented protocol: 2 = what the
                \*           child returned + one remove()/replace() made during the same process_events, as in the
                \*           crate's own test_transient_replace_unregister)
  MaxUser,      \* protocol: how many remove()/replace() calls may pile up before the re-registration (documented: 1)
  AfterChange,  \* protocol: "rereg_only" = after a change the next registration call is the requested re-registration
                \*           "any_regcall" = a parent unregister may come first (outside the documented protocol)
  ReEnable,     \* TRUE: LoopHandle::enable() on a registered parent whose child disabled itself (test_transient_disable)
  Variants,     \* deliberately wrong / alternative behaviours of the wrapper (non-vacuity, candidate fix)
  Ignore        \* clause names not counted by Inv_C18 (used by the engine to enumerate every violated clause)

Children == 1..NChildren
WStates == {"Keep", "Register", "Disable", "Remove", "Replace", "None"}
PostActions == {"continue", "reregister", "disable", "remove"}

(***************************************************************************)
(* Pure part.  A wrapper value `w`:                                        *)
(*   st      variant of TransientSourceState                               *)
(*   cur     the child held by Keep/Register/Disable/Remove, `new` of      *)
(*           Replace; 0 in None                                            *)
(*   old     `old` of Replace, else 0                                      *)
(*   reg     child -> is it registered with the poller                     *)
(*   dropped child -> has it been dropped                                  *)
(*   kind    child -> "fd" | "tm"                                          *)
(***************************************************************************)
Ev(op, c, r) == [op |-> op, c |-> c, r |-> r]
S0(w) == [w |-> w, evs |-> <<>>, ok |-> TRUE, viol |-> {}]

\* clause names of the family (b): which unregister-of-an-unregistered-child is it
UnregClause(wst, role) ==
  CASE wst = "Disable"                   -> "child_unregistered_twice_after_disable"
    [] wst = "Remove"                    -> "removed_child_unregistered_twice"
    [] wst = "Replace" /\ role = "old"   -> "replaced_child_unregistered_twice"
    [] wst = "Replace" /\ role = "new"   -> "new_child_unregistered_before_registered"
    [] OTHER                             -> "child_unregistered_while_unregistered"
BClauses == {"child_unregistered_twice_after_disable", "removed_child_unregistered_twice",
             "replaced_child_unregistered_twice", "new_child_unregistered_before_registered",
             "child_unregistered_while_unregistered", "child_registered_twice",
             "child_reregistered_while_unregistered"}

\* source.register(poll, token_factory)?
ThenReg(s, c) ==
  IF ~s.ok THEN s ELSE
  LET was   == s.w.reg[c]
      fails == was /\ s.w.kind[c] = "fd"
  IN [w    |-> [s.w EXCEPT !.reg[c] = TRUE],
      evs  |-> Append(s.evs, Ev("reg", c, IF fails THEN "err" ELSE "ok")),
      ok   |-> ~fails,
      viol |-> s.viol \cup (IF was THEN {"child_registered_twice"} ELSE {})]

\* source.unregister(poll)?     `name` = the clause raised when the child is not registered
ThenUnreg(s, c, name) ==
  IF ~s.ok THEN s ELSE
  LET was   == s.w.reg[c]
      fails == ~was /\ s.w.kind[c] = "fd"
  IN [w    |-> [s.w EXCEPT !.reg[c] = FALSE],
      evs  |-> Append(s.evs, Ev("unreg", c, IF fails THEN "err" ELSE "ok")),
      ok   |-> ~fails,
      viol |-> s.viol \cup (IF ~was THEN {name} ELSE {})]

\* source.reregister(poll, token_factory)?   (Timer: unregister + register)
ThenRereg(s, c) ==
  IF ~s.ok THEN s ELSE
  LET was   == s.w.reg[c]
      fails == ~was /\ s.w.kind[c] = "fd"
  IN [w    |-> [s.w EXCEPT !.reg[c] = IF s.w.kind[c] = "tm" THEN TRUE ELSE was],
      evs  |-> Append(s.evs, Ev("rereg", c, IF fails THEN "err" ELSE "ok")),
      ok   |-> ~fails,
      viol |-> s.viol \cup (IF ~was THEN {"child_reregistered_while_unregistered"} ELSE {})]

\* the value is dropped (end of `replace_state`, or the closure owning `new` is dropped)
ThenDrop(s, c) ==
  IF ~s.ok THEN s ELSE
  LET was == s.w.reg[c]
  IN [w    |-> [s.w EXCEPT !.dropped[c] = TRUE,
                           \* Generic::drop deletes the fd from the poller; a Timer leaks its wheel entry
                           !.reg[c] = IF s.w.kind[c] = "fd" THEN FALSE ELSE was],
      evs  |-> Append(s.evs, Ev("drop", c, "ok")),
      ok   |-> TRUE,
      viol |-> s.viol \cup (IF was THEN {"child_dropped_while_registered"} ELSE {})]

\* self.state.replace_state(..) / assignment of the variant
ThenSet(s, wst, c, o) ==
  IF ~s.ok THEN s ELSE [s EXCEPT !.w.st = wst, !.w.cur = c, !.w.old = o]

Skip(v, w, c) == v \in Variants /\ ~w.reg[c]     \* candidate fix: remember that the child is already unregistered

(* fn register(&mut self, poll, token_factory) *)
DoRegister(w) ==
  LET s0 == S0(w) IN
  CASE w.st = "Keep"                    -> ThenReg(s0, w.cur)
    [] w.st \in {"Register", "Disable"} -> ThenSet(ThenReg(s0, w.cur), "Keep", w.cur, 0)
    [] w.st = "Replace"                 -> ThenDrop(ThenSet(ThenReg(s0, w.cur), "Keep", w.cur, 0), w.old)
    [] w.st = "Remove"                  -> ThenDrop(ThenSet(s0, "None", 0, 0), w.cur)
    [] w.st = "None"                    -> s0

(* fn reregister(&mut self, poll, token_factory) *)
DoReregister(w) ==
  LET s0 == S0(w) IN
  CASE w.st = "Keep"     -> ThenRereg(s0, w.cur)
    [] w.st = "Register" -> ThenSet(ThenReg(s0, w.cur), "Keep", w.cur, 0)
    [] w.st = "Disable"  -> IF Skip("fix_track_registered", w, w.cur) THEN s0
                            ELSE ThenUnreg(s0, w.cur, UnregClause("Disable", "cur"))
    [] w.st = "Remove"   -> LET s1 == IF "drop_without_unregister" \in Variants \/ Skip("fix_track_registered", w, w.cur)
                                      THEN s0 ELSE ThenUnreg(s0, w.cur, UnregClause("Remove", "cur"))
                            IN ThenDrop(ThenSet(s1, "None", 0, 0), w.cur)
    [] w.st = "Replace"  -> LET s1 == IF Skip("fix_track_registered", w, w.old)
                                      THEN s0 ELSE ThenUnreg(s0, w.old, UnregClause("Replace", "old"))
                            IN ThenDrop(ThenSet(ThenReg(s1, w.cur), "Keep", w.cur, 0), w.old)
    [] w.st = "None"     -> s0

(* fn unregister(&mut self, poll) *)
DoUnregister(w) ==
  LET s0 == S0(w) IN
  CASE w.st \in {"Keep", "Register", "Disable"} ->
            IF Skip("fix_track_registered", w, w.cur) THEN s0
            ELSE ThenUnreg(s0, w.cur, UnregClause(w.st, "cur"))
    [] w.st = "Remove"   -> LET s1 == IF Skip("fix_track_registered", w, w.cur)
                                      THEN s0 ELSE ThenUnreg(s0, w.cur, UnregClause("Remove", "cur"))
                            IN ThenDrop(ThenSet(s1, "None", 0, 0), w.cur)
    [] w.st = "Replace"  -> LET s1 == IF Skip("fix_track_registered", w, w.old)
                                      THEN s0 ELSE ThenUnreg(s0, w.old, UnregClause("Replace", "old"))
                                s2 == IF Skip("fix_track_registered", w, w.cur)
                                      THEN s1 ELSE ThenUnreg(s1, w.cur, UnregClause("Replace", "new"))
                            IN ThenDrop(ThenSet(s2, "Register", w.cur, 0), w.old)
    [] w.st = "None"     -> s0

(* fn process_events(&mut self, readiness, token, callback); `a` = what the child returns when it is asked *)
Forwards(w) == w.st = "Keep" \/ ("forward_in_disable" \in Variants /\ w.st = "Disable")
DoProcessEvents(w, a) ==
  IF Forwards(w)
  THEN LET s1 == [S0(w) EXCEPT !.evs = <<Ev("pe", w.cur, a)>>]
           s2 == CASE a = "disable" -> ThenSet(s1, "Disable", w.cur, 0)
                   [] a = "remove"  -> ThenSet(s1, "Remove", w.cur, 0)
                   [] OTHER         -> s1
           r  == IF "return_child_action" \in Variants THEN a
                 ELSE IF a = "continue" THEN "continue" ELSE "reregister"
       IN [s2 EXCEPT !.ok = TRUE] @@ [ret |-> r]
  ELSE S0(w) @@ [ret |-> "continue"]

(* pub fn remove(&mut self): replace_state(Remove) *)
DoRemove(w) ==
  LET s0 == S0(w) IN
  CASE w.st \in {"Keep", "Register", "Remove", "Disable"} -> ThenSet(s0, "Remove", w.cur, 0)
    [] w.st = "Replace" -> ThenDrop(ThenSet(s0, "Remove", w.cur, 0), w.old)    \* `Replace { new: source, .. }`: old is dropped
    [] w.st = "None"    -> s0

(* pub fn replace(&mut self, new): replace_state(|old| Replace { new, old }) *)
DoReplace(w, nw) ==
  LET s0 == S0(w) IN
  CASE w.st \in {"Keep", "Register", "Remove", "Disable"} -> ThenSet(s0, "Replace", nw, w.cur)
    [] w.st = "Replace" -> ThenDrop(ThenSet(s0, "Replace", nw, w.cur), w.old)  \* the not yet unregistered `old` is dropped
    [] w.st = "None"    -> ThenDrop(s0, nw)                                     \* `Self::None => return`: the closure owning `new` is dropped

(* pub fn map(&mut self, f): the child f is applied to, 0 = Option::None *)
DoMap(w) == IF w.st \in {"Keep", "Register", "Disable", "Replace"} THEN w.cur ELSE 0

(***************************************************************************)
(* Calls and the environment (parent + event loop + user).                 *)
(*   env.preg   the parent is registered (register/unregister alternate)   *)
(*   env.pend   changes since the last registration call                   *)
(*   env.upend  remove()/replace() calls since the last registration call  *)
(*   env.fresh  next unused child identity                                 *)
(***************************************************************************)
RegOps == {"register", "reregister", "unregister"}
Call(op, a) == [op |-> op, a |-> a]

\* result of one call on the wrapper: [w, evs, ok, viol, ret]
Apply(w, env, call) ==
  CASE call.op = "pe"         -> DoProcessEvents(w, call.a)
    [] call.op = "register"   -> LET s == DoRegister(w)   IN s @@ [ret |-> IF s.ok THEN "ok" ELSE "err"]
    [] call.op = "reregister" -> LET s == DoReregister(w) IN s @@ [ret |-> IF s.ok THEN "ok" ELSE "err"]
    [] call.op = "unregister" -> LET s == DoUnregister(w) IN s @@ [ret |-> IF s.ok THEN "ok" ELSE "err"]
    [] call.op = "remove"     -> DoRemove(w) @@ [ret |-> "ok"]
    [] call.op = "replace"    -> DoReplace(w, env.fresh) @@ [ret |-> "ok"]
    [] call.op = "map"        -> S0(w) @@ [ret |-> DoMap(w)]

IsChange(call, r) == call.op \in {"remove", "replace"} \/ (call.op = "pe" /\ r.ret # "continue")

EnvAfter(env, call, r) ==
  [preg  |-> CASE call.op \in {"register", "reregister"} -> TRUE
               [] call.op = "unregister" -> FALSE
               [] OTHER -> env.preg,
   pend  |-> IF call.op \in RegOps THEN 0 ELSE IF IsChange(call, r) THEN env.pend + 1 ELSE env.pend,
   upend |-> IF call.op \in RegOps THEN 0 ELSE IF call.op \in {"remove", "replace"} THEN env.upend + 1 ELSE env.upend,
   fresh |-> IF call.op = "replace" THEN env.fresh + 1 ELSE env.fresh]

(* The documented protocol, as a predicate on the next call:                                            *)
(*  "Both [remove(), replace()] require either returning PostAction::Reregister from the process_event() *)
(*   call that does this, or reregistering the event source some other way eg. via the top-level loop    *)
(*   handle."  and  "the event loop might call reregister() on your source. All your source has to do    *)
(*   is: self.mpsc_receiver.reregister(poll, token_factory)"                                             *)
(*  "Either of these may be called at any time during processing or from outside the event loop": a      *)
(*   remove()/replace() may follow what the child returned in the same process_events (one Reregister    *)
(*   then covers both), but a second remove()/replace() before the re-registration is not covered.       *)
(* Further registration calls (LoopHandle::update / disable / enable, the loop acting on Reregister) are *)
(* legal at any time as long as the parent's register and unregister alternate.                          *)
InProtocol(w, env, call) ==
  CASE call.op = "pe"                    -> env.pend = 0
    [] call.op \in {"remove", "replace"} -> env.pend < MaxChanges /\ env.upend < MaxUser
    [] call.op = "map"                   -> TRUE
    [] call.op = "register"              -> \/ ~env.preg
                                            \/ (ReEnable /\ env.preg /\ env.pend = 0 /\ w.st = "Disable")
    [] call.op = "reregister"            -> env.preg
    [] call.op = "unregister"            -> env.preg /\ (env.pend = 0 \/ AfterChange = "any_regcall")

\* clause (a), evaluated at the end of a registration call
InStep(w, preg) == \A c \in DOMAIN w.reg : w.reg[c] <=> (c = w.cur /\ w.st = "Keep" /\ preg)

\* every clause of C18 raised by one call (pre-state w, result r, environment after the call)
ClausesOf(w, call, r, pregAfter) ==
  r.viol
  \cup (IF call.op \in RegOps /\ ~InStep(r.w, pregAfter) THEN {"registration_out_of_step"} ELSE {})
  \cup (IF \E i \in DOMAIN r.evs : r.evs[i].op = "pe" /\ ~(w.st = "Keep" /\ r.evs[i].c = w.cur)
        THEN {"event_forwarded_to_non_current"} ELSE {})
  \cup (IF call.op = "pe" /\ r.ret \notin {"continue", "reregister"} THEN {"wrapper_returned_other_action"} ELSE {})
  \cup (IF call.op = "pe" /\ w.st = "None" /\ ~(r.evs = <<>> /\ r.ret = "continue" /\ r.w = w)
        THEN {"process_events_on_empty_not_noop"} ELSE {})
  \cup (IF call.op \in RegOps /\ r.ret = "err" /\ r.viol \cap BClauses = {} THEN {"child_call_failed"} ELSE {})

(***************************************************************************)
(* The state machine.                                                      *)
(***************************************************************************)
VARIABLES st, cur, old, reg, dropped, kind,    \* the wrapper and its children
          preg, pend, upend, fresh,            \* environment / protocol monitor
          n,                                   \* calls made so far (only counted when MaxLen > 0)
          last                                 \* the last call: [call, pre, evs, ret, viol]

vars == <<st, cur, old, reg, dropped, kind, preg, pend, upend, fresh, n, last>>

W == [st |-> st, cur |-> cur, old |-> old, reg |-> reg, dropped |-> dropped, kind |-> kind]
E == [preg |-> preg, pend |-> pend, upend |-> upend, fresh |-> fresh]
NoLast == [call |-> Call("init", "none"), pre |-> "None", evs |-> <<>>, ret |-> "ok", viol |-> {}]

Init ==
  /\ kind \in KindSets
  /\ \E i \in Inits :
       /\ st = (IF i = "from" THEN "Register" ELSE "None")      \* From<T>: Register(source); Default: None
       /\ cur = (IF i = "from" THEN 1 ELSE 0)
       /\ fresh = (IF i = "from" THEN 2 ELSE 1)
  /\ old = 0
  /\ reg = [c \in Children |-> FALSE]
  /\ dropped = [c \in Children |-> FALSE]
  /\ preg = FALSE /\ pend = 0 /\ upend = 0 /\ n = 0
  /\ last = NoLast

Do(call) ==
  /\ MaxLen = 0 \/ n < MaxLen
  /\ InProtocol(W, E, call)
  /\ LET r  == Apply(W, E, call)
         e2 == EnvAfter(E, call, r)
     IN /\ st' = r.w.st /\ cur' = r.w.cur /\ old' = r.w.old
        /\ reg' = r.w.reg /\ dropped' = r.w.dropped /\ kind' = kind
        /\ preg' = e2.preg /\ pend' = e2.pend /\ upend' = e2.upend /\ fresh' = e2.fresh
        /\ n' = IF MaxLen = 0 THEN 0 ELSE n + 1
        /\ last' = [call |-> call, pre |-> st, evs |-> r.evs, ret |-> r.ret,
                    viol |-> ClausesOf(W, call, r, e2.preg)]

\* process_events() reaches the child, which returns `a`
ChildReturns(a)  == Forwards(W) /\ Do(Call("pe", a))
\* process_events() in any other state
ProcessOther     == ~Forwards(W) /\ Do(Call("pe", "none"))
Remove           == Do(Call("remove", "none"))
Replace(nw)      == nw = fresh /\ nw \in Children /\ Do(Call("replace", "none"))
Map              == Do(Call("map", "none"))
ParentRegister   == Do(Call("register", "none"))
ParentReregister == Do(Call("reregister", "none"))
ParentUnregister == Do(Call("unregister", "none"))

Next ==
  \/ \E a \in PostActions : ChildReturns(a)
  \/ ProcessOther
  \/ Remove
  \/ \E nw \in Children : Replace(nw)
  \/ Map
  \/ ParentRegister \/ ParentReregister \/ ParentUnregister

Spec == Init /\ [][Next]_vars

(***************************************************************************)
(* Invariants.                                                             *)
(***************************************************************************)
TypeOK ==
  /\ st \in WStates /\ cur \in 0..NChildren /\ old \in 0..NChildren
  /\ reg \in [Children -> BOOLEAN] /\ dropped \in [Children -> BOOLEAN]
  /\ kind \in KindSets /\ preg \in BOOLEAN /\ pend \in 0..MaxChanges /\ upend \in 0..MaxUser /\ upend <= pend /\ fresh \in 1..(NChildren + 1)
  /\ (st = "None") = (cur = 0)
  /\ (st = "Replace") = (old # 0)
  /\ cur # 0 => ~dropped[cur] /\ cur < fresh
  /\ old # 0 => ~dropped[old] /\ old # cur
  /\ \A c \in Children : c >= fresh => ~reg[c] /\ ~dropped[c]

V == last.viol
\* (a) at the end of each registration call the wrapped source is registered exactly when it is the current, kept
\*     child of a registered parent
Inv_C18_in_step          == "registration_out_of_step" \notin V \ Ignore
\* (b) no child.register while registered, no child.unregister while unregistered, no child call fails
Inv_C18_no_double_call   == (V \cap (BClauses \cup {"child_call_failed"})) \ Ignore = {}
\* (c) a child is dropped only when it is not registered
Inv_C18_unreg_before_drop == "child_dropped_while_registered" \notin V \ Ignore
\* (d) events are forwarded only to the current child and only in state Keep
Inv_C18_forward_current  == "event_forwarded_to_non_current" \notin V \ Ignore
\* (e) the wrapper returns only Continue or Reregister
Inv_C18_ret              == "wrapper_returned_other_action" \notin V \ Ignore
\* (f) process_events on an empty wrapper is a no-op
Inv_C18_empty_noop       == "process_events_on_empty_not_noop" \notin V \ Ignore

Inv_C18 == /\ Inv_C18_in_step /\ Inv_C18_no_double_call /\ Inv_C18_unreg_before_drop
           /\ Inv_C18_forward_current /\ Inv_C18_ret /\ Inv_C18_empty_noop
=============================================================================
