--------------------------- MODULE MCChanProto ---------------------------
EXTENDS ChanProto, Json
S_ss_sd  == <<<<"send", "send">>, <<"send", "drop">>>>
S_sd_sd  == <<<<"send", "drop">>, <<"send", "drop">>>>
S_sss_d  == <<<<"send", "send", "send", "drop">>, <<"drop">>>>
S_csd_d  == <<<<"clone", "send", "drop", "drop">>, <<"send", "drop">>>>
S_tt_sd  == <<<<"try_send", "try_send">>, <<"send", "drop">>>>
S_s_s    == <<<<"send">>, <<"send">>>>
S_s_d    == <<<<"send">>, <<"drop">>>>
S_ssd    == <<<<"send", "send", "drop">>>>
CapNone == 0 - 1
PrintSched == (RecordHist /\ Done) =>
   PrintT(<<"SCHED", ToJson([scripts |-> Scripts, ndisp |-> NDisp, cap |-> Cap, limit |-> Limit, sched |-> sched, hist |-> hist, blocked |-> IF everBlocked THEN 1 ELSE 0])>>)
ASSUME PrintT(<<"CFG", ToJson([scripts |-> Scripts, ndisp |-> NDisp, cap |-> Cap, limit |-> Limit])>>)
=============================================================================
