\* C12 trace validation.  EpsLo / Slack / Tight in microseconds; the other constants belong to the transition system of
\* Timeout.tla, which is not run here (the configuration values come from the trace itself).
SPECIFICATION TSpec
CONSTANTS
  EpsLo = 1000
  Slack = 150000
  Tight = 20000
  S = 30
  L = 300
  DNeg = 5
  DLt = 10
  DMid = 100
  DGt = 400
  Wk = 60
  Ik = 5
  B = 50
  Space = "replay"
  Variants = {}
INVARIANT Verdict
POSTCONDITION Consumed
CHECK_DEADLOCK FALSE
