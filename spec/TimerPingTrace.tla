-------------------------- MODULE TimerPingTrace --------------------------
(* Trace validation for TimerPing.tla: runs of the real crate recorded by drive_tping (a user-level composite        *)
(* [PingSource, Timer] that forwards every event to both sub-sources).  Clauses, per scenario:                        *)
(*   dispatch_failed_on_foreign_event    a dispatch returned an error (the ping sub-source was handed an event of     *)
(*                                       the timer under ITS token and found its eventfd empty)                      *)
(*   sibling_callback_count              the ping callback did not run exactly once per ping                         *)
(*   timer_armings_not_fired_once        the timer callback did not run exactly once per arming (Rounds)             *)
EXTENDS Naturals, Integers, Sequences, FiniteSets, TLC, Json, IOUtils

Rec == ndJsonDeserialize(IOEnv.TRACE)
VARIABLES l, st
vars == <<l, st>>
Empty0 == [scn |-> "none", nscn |-> 0, resched |-> 0, first |-> TRUE, viol |-> {}]
V(c, ln, scn) == {[p |-> x, c |-> c, l |-> ln, scn |-> scn] : x \in {"C01", "C05", "C12"}}
StepT(s, ev, ln) ==
  CASE ev.e = "reset" -> [Empty0 EXCEPT !.scn = ev.id, !.nscn = s.nscn + 1, !.resched = ev.resched_us, !.viol = s.viol]
    [] ev.e = "tp" ->
         [s EXCEPT !.first = @ /\ ev.timer_cbs = 0,
                   !.viol = @ \cup (IF ev.r # "ok" THEN V("dispatch_failed_on_foreign_event", ln, s.scn) ELSE {})
]
    [] ev.e = "tpend" ->
         [s EXCEPT !.viol = @ \cup (IF ev.ping_cbs # ev.pings THEN V("sibling_callback_count", ln, s.scn) ELSE {})
                              \cup (IF ev.timer_cbs # ev.rounds THEN V("timer_armings_not_fired_once", ln, s.scn) ELSE {})]
    [] OTHER -> s
TInit == l = 1 /\ st = Empty0
TNext == l <= Len(Rec) /\ st' = StepT(st, Rec[l], l) /\ l' = l + 1
Verdict == l = Len(Rec) + 1 => PrintT(<<"VERDICT", ToJson([n |-> Len(Rec), scenarios |-> st.nscn, misuse |-> 0, viol |-> st.viol])>>)
=============================================================================
