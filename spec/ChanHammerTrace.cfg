INIT TInit
NEXT TNext
INVARIANTS Verdict
CHECK_DEADLOCK FALSE
