------------------------------- MODULE AsyncIo -------------------------------
(***************************************************************************)
(* C17 -- calloop::io::Async (src/io.rs): the adapter that makes an fd      *)
(* usable from futures.  Byte-exact I/O, tasks always woken, blocking mode  *)
(* restored.                                                                *)
(*                                                                         *)
(* The model has four layers, all in ONE state record `s` so that the same  *)
(* operators are evaluated (i) by the transition system at the end of this  *)
(* module (MCAsyncIo.tla + mc/asyncio_*.cfg, exhaustive) and (ii) by        *)
(* AsyncIoTrace.tla on traces recorded from the real crate by               *)
(* harness/src/bin/drive_asyncio.rs:                                        *)
(*                                                                         *)
(*  kernel   a socket pair: end e has a receive queue q[e] (a byte FIFO)    *)
(*           that holds at most B bytes (the SENDER's SO_SNDBUF is what     *)
(*           bounds it for AF_UNIX stream sockets); write = partial up to   *)
(*           the free space, EAGAIN when full; read = partial, EAGAIN when  *)
(*           empty, 0 after the other end closed; O_NONBLOCK per fd;        *)
(*           the loop's epoll table ep[e] = [reg, int, armed] (EPOLLONESHOT:*)
(*           reporting an event disarms the entry and clears its interest;  *)
(*           EPOLL_CTL_MOD re-arms it and the readiness is re-evaluated when*)
(*           epoll_wait runs; EPOLLHUP is reported whatever the interest).  *)
(*           EPOLLOUT is reported iff at most LowWater bytes are queued     *)
(*           (Linux unix_writable: 4 * wmem <= sndbuf), which is NOT the    *)
(*           condition under which write() succeeds (free space).           *)
(*  adapter  io.rs: IoDispatcher{interest, read_waker, write_waker,         *)
(*           last_readiness}: register_waker stores the waker in the slot   *)
(*           of its direction, interest = the directions that have a waker, *)
(*           reregister(fd, interest, OneShot); process_events MERGES the    *)
(*           readiness, takes + wakes the waker of every reported           *)
(*           direction and returns Reregister (the loop renews the one-shot *)
(*           registration) while a waker is still stored; take_readiness(x) *)
(*           consumes only the bit asked for; new / drop / into_inner.      *)
(*  tasks    futures living in a calloop Executor: a task is a sequence of  *)
(*           operations read(n) / write(n) (ONE successful poll_read /      *)
(*           poll_write completes the operation, so every sequence of       *)
(*           buffer sizes -- every chunking -- is a script), readable(),    *)
(*           writable(); a poll runs the operations of the task until one   *)
(*           is Pending.  Scripts are chosen on the fly (all scripts).      *)
(*  loop     one dispatch = epoll_wait (the batch: the armed + ready        *)
(*           adapters and the executor's ping, in ANY order) then one       *)
(*           process_events per event; the executor runs its queue.         *)
(*                                                                         *)
(* Sets of "r"/"w" stand for Interest / Readiness (EMPTY = {}); the two      *)
(* waker slots are wk = [r |-> .., w |-> ..].  Readiness.error is never set  *)
(* by Poll::poll (EPOLLHUP/EPOLLERR are mapped to readable + writable) and   *)
(* is not modelled.  The behaviour before commit 0061559 (ONE waker slot,    *)
(* ONE interest, readiness() consuming everything) is the variant            *)
(* "single_waker".                                                           *)
(***************************************************************************)
EXTENDS Naturals, Integers, Sequences, FiniteSets, TLC

CONSTANTS
  B,           \* capacity of a receive queue (bytes; 1 model byte = 1 block of the real run)
  LowWater,    \* EPOLLOUT is reported iff Len(queue) <= LowWater   (0 on Linux for B = 2 blocks; B-1 = the naive model)
  Sym,         \* byte values
  MaxLen,      \* bound: bytes offered per direction
  MaxChunk,    \* chunk sizes 1..MaxChunk
  Tasks,       \* subset of {"R", "W", "S", "A", "B"}
  AdOf,        \* [Tasks -> {1,2}]: the end whose adapter the task uses
  Kinds,       \* [Tasks -> SUBSET {"read","write","readable","writable"}]
  Join,        \* TRUE: the tasks are the branches of ONE task (polled in the order R, W; one waker)
  Adapted,     \* ends that are adapted; the other end (if any) is driven by the peer script
  MaxOps,      \* bound: operations per task
  MaxPeerOps,  \* bound: peer operations
  MaxAdapt,    \* bound: adapt_io calls per fd
  MaxAbandon,  \* bound: pending operations that are abandoned (the future is dropped: select!/timeout, now_or_never, cancel)
  WithFile,    \* TRUE: adapt_io of a regular file (registration fails with EPERM) is in the alphabet
  Variants     \* deliberately wrong behaviours (non-vacuity), {} = the code as it is in /repo:
               \*   "drop_keeps_fd"          kill() does not delete the fd from the poller (before f0ccfc5)
               \*   "failed_adapt_leaks"     a failing Async::new keeps the slot and O_NONBLOCK (before ae70cc3)
               \*   "failed_adapt_kills_other"  a failing adapt_io of an fd that already has a live adapter deletes THAT adapter's
               \*                            registration from the poller (0061559, before 64b68d5)
               \*   "rearm_skipped"          register_waker skips the reregister when the interest equals the one it handed to the
               \*                            poller last time ("avoid a redundant epoll_ctl": forgets that one-shot disarmed it)
               \*   "interest_not_switched"  register_waker leaves a non-empty interest as it is (the second direction is not added)
               \*   "flags_not_restored"     Drop does not restore the blocking mode
               \*   "no_wake"                process_events takes the wakers of the reported directions but does not wake them
               \*   "single_waker"           before 0061559: ONE waker slot and ONE interest for both directions (register_waker
               \*                            overwrites them), readiness() consumes last_readiness entirely, process_events
               \*                            overwrites last_readiness, wakes the one waker and never renews the registration
               \*   "waker_not_replaced"     register_waker returns early when the direction already has a waker stored ("spare the
               \*                            syscall on re-polls") and so keeps the STALE waker of an abandoned wait
               \*   "no_rearm_after_event"   process_events returns Continue although a waker is still stored
               \*   "readiness_consumed_whole"  take_readiness(x) clears both bits: a branch that is polled first and is not ready
               \*                            steals the readiness of the other one, for ever (busy loop)

Ends  == {1, 2}
File  == 3
Fds   == {1, 2, 3}
Other(e) == 3 - e
Bits  == {"r", "w"}
Min(a, b) == IF a < b THEN a ELSE b
TaskOrder == <<"R", "W", "S", "A", "B">>
NoOp  == [k |-> "none", n |-> 0]
NoWk  == [r |-> "none", w |-> "none"]
Old   == "single_waker" \in Variants

\* the waker of a task: branches of a joined task share it
Wk(t) == IF Join THEN "J" ELSE t
WaitBit(k) == IF k \in {"read", "readable"} THEN "r" ELSE "w"

(***************************************************************************)
(* State record.                                                           *)
(*  q[e]      receive queue of end e       sent[e] / rcvd[e]  everything    *)
(*            ever written into / read from q[e] (ghost)                    *)
(*  closed[e] end e was closed (peer ends only)                            *)
(*  nb[f]     O_NONBLOCK of fd f;  base[f] its value before any adapt_io    *)
(*  ad[f]     adapter of fd f: live, interest, wk, last, was (rint: the      *)
(*            interest last handed to the poller, used by a variant only)   *)
(*  ep[f]     epoll entry of fd f: reg, int, armed                         *)
(*  occ       loop slots held by adapters                                  *)
(*  ts/cur/nops/wait  per task: new | runnable | parked | done, current    *)
(*            operation, operations started, bit a parked task waits for;    *)
(*            abn[t]: the task was woken from outside to abandon its        *)
(*            pending operation (its waker stays in the adapter)            *)
(*  runq      the executor's queue of runnables;  pinged  its eventfd       *)
(*  pc        idle | batch | exec;  batch = events still to process         *)
(*            (0 = the executor, e = adapter of end e);  evrd[e] = the       *)
(*            readiness the kernel reported for e in this batch             *)
(***************************************************************************)
Init0(nb0) ==
  [q |-> [e \in Ends |-> <<>>], sent |-> [e \in Ends |-> <<>>], rcvd |-> [e \in Ends |-> <<>>],
   closed |-> [e \in Ends |-> FALSE],
   nb |-> nb0, base |-> nb0,
   ad |-> [f \in Fds |-> [live |-> FALSE, interest |-> {}, wk |-> NoWk, last |-> {}, was |-> FALSE, rint |-> {}]],
   ep |-> [f \in Fds |-> [reg |-> FALSE, int |-> {}, armed |-> FALSE]],
   occ |-> 0, nadapt |-> [f \in Fds |-> 0],
   ts |-> [t \in Tasks |-> "new"], cur |-> [t \in Tasks |-> NoOp], nops |-> [t \in Tasks |-> 0],
   wait |-> [t \in Tasks |-> "none"], abn |-> [t \in Tasks |-> FALSE], nabn |-> 0,
   runq |-> <<>>, pinged |-> FALSE, batch |-> <<>>, evrd |-> [f \in Fds |-> {}], pc |-> "idle",
   npeer |-> 0]

------------------------------------------------------------------------------
(* kernel *)
Hup(s, e)       == s.closed[Other(e)]
KReadable(s, e) == s.q[e] # <<>> \/ Hup(s, e)
KWritable(s, e) == Len(s.q[Other(e)]) <= LowWater \/ Hup(s, e)
KReady(s, e, x) == IF x = "r" THEN KReadable(s, e) ELSE KWritable(s, e)

\* what epoll_wait would report for the entry of e (polling: EPOLLHUP counts as readable and writable)
Revents(s, e) ==
  (IF "r" \in s.ep[e].int /\ KReadable(s, e) THEN {"r"} ELSE {})
  \cup (IF "w" \in s.ep[e].int /\ KWritable(s, e) THEN {"w"} ELSE {})
  \cup (IF Hup(s, e) THEN Bits ELSE {})
Fires(s, e) == e \in Ends /\ s.ep[e].reg /\ s.ep[e].armed /\ Revents(s, e) # {}

\* result of read(n) / write(n) on the fd of end e:  k >= 0 bytes, -1 = EAGAIN, -2 = EPIPE
ReadK(s, e, n)  == IF s.q[e] # <<>> THEN Min(n, Len(s.q[e])) ELSE IF Hup(s, e) THEN 0 ELSE -1
WriteK(s, e, n) == IF Hup(s, e) THEN -2
                   ELSE IF Len(s.q[Other(e)]) < B THEN Min(n, B - Len(s.q[Other(e)])) ELSE -1

Take(q, k) == SubSeq(q, 1, Min(k, Len(q)))
Drop_(q, k) == SubSeq(q, Min(k, Len(q)) + 1, Len(q))

KRead(s, e, k)     == [s EXCEPT !.q[e] = Drop_(@, k), !.rcvd[e] = @ \o Take(s.q[e], k)]
KWrite(s, e, syms) == [s EXCEPT !.q[Other(e)] = @ \o syms, !.sent[Other(e)] = @ \o syms]

------------------------------------------------------------------------------
(* adapter: io.rs *)

\* Async::new (:62).  The registration fails for a regular file (EPERM) and for an fd that is still in the epoll
\* set (EEXIST); the error path frees the slot and restores the flags, and leaves the poller alone (kill() deletes
\* the fd only when this adapter registered it, :255).
AdaptFails(s, f) == f = File \/ s.ep[f].reg
DoAdapt(s, f) ==
  LET was == s.nb[f]
      s1  == [s EXCEPT !.nb[f] = TRUE, !.occ = @ + 1, !.nadapt[f] = @ + 1]
  IN IF ~AdaptFails(s, f)
     THEN [s1 EXCEPT !.ad[f] = [live |-> TRUE, interest |-> {}, wk |-> NoWk, last |-> {}, was |-> was, rint |-> {}],
                     !.ep[f] = [reg |-> TRUE, int |-> {}, armed |-> TRUE]]
     ELSE IF "failed_adapt_leaks" \in Variants THEN s1
     ELSE [s1 EXCEPT !.occ = @ - 1, !.nb[f] = was]

\* adapt_io of an fd that already has a live adapter (the same fd number: a borrow of it): EPOLL_CTL_ADD fails with
\* EEXIST and NOTHING changes -- O_NONBLOCK was set already, the slot is freed again, the live adapter keeps its entry
DoAdaptAgain(s, f) ==
  LET s1 == [s EXCEPT !.nadapt[f] = @ + 1]
      s2 == IF "failed_adapt_leaks" \in Variants THEN [s1 EXCEPT !.occ = @ + 1] ELSE s1
  IN IF "failed_adapt_kills_other" \in Variants THEN [s2 EXCEPT !.ep[f] = [reg |-> FALSE, int |-> {}, armed |-> FALSE]] ELSE s2

\* Drop (:200) and into_inner (:136, which takes the fd out and then drops the adapter): kill + restore the flags
DoDrop(s, f) ==
  [s EXCEPT !.ad[f] = [@ EXCEPT !.live = FALSE, !.wk = NoWk],
            !.occ = @ - 1,
            !.ep[f] = IF "drop_keeps_fd" \in Variants THEN @ ELSE [reg |-> FALSE, int |-> {}, armed |-> FALSE],
            !.nb[f] = IF "flags_not_restored" \in Variants THEN @ ELSE s.ad[f].was]

\* awaited_interest (:289): the directions that have a waker
Awaited(wk) == {x \in Bits : wk[x] # "none"}

\* register_waker (:144): store the waker in the slot of its direction, interest = awaited_interest(),
\* reregister(fd, interest, OneShot)
RegisterWaker(s, e, x, w) ==
  LET wk2  == IF Old THEN [NoWk EXCEPT ![x] = w] ELSE [s.ad[e].wk EXCEPT ![x] = w]
      int2 == IF "interest_not_switched" \in Variants /\ s.ad[e].interest # {} THEN s.ad[e].interest
              ELSE IF Old THEN {x} ELSE Awaited(wk2)
      skip == "rearm_skipped" \in Variants /\ s.ad[e].rint = int2
      s1   == [s EXCEPT !.ad[e].interest = int2, !.ad[e].wk = wk2]
  IN IF "waker_not_replaced" \in Variants /\ s.ad[e].wk[x] # "none" THEN s
     ELSE IF skip \/ ~s1.ep[e].reg THEN s1
     ELSE [s1 EXCEPT !.ep[e] = [reg |-> TRUE, int |-> int2, armed |-> TRUE], !.ad[e].rint = int2]

\* IoDispatcher::take_readiness (:277): only the bit asked for is consumed
TakeLast(s, e, x) ==
  [s EXCEPT !.ad[e].last = IF Old \/ "readiness_consumed_whole" \in Variants THEN {} ELSE @ \ {x}]

\* process_events (:298) for the readiness rd: the wakers that are woken
WokenBy(s, e, rd) ==
  IF "no_wake" \in Variants THEN {}
  ELSE IF Old THEN {s.ad[e].wk[x] : x \in Bits} \ {"none"}
  ELSE {s.ad[e].wk[x] : x \in rd} \ {"none"}

\* waking a waker: the parked tasks that own it become runnable, in the order in which a joined task polls them
\* (a waker whose task is not parked any more -- it was left behind by an operation that completed after a wake
\* through the other direction -- wakes nothing: a spurious poll of a joined task re-polls its parked branches only)
Wake(s, ws) ==
  LET T   == {t \in Tasks : Wk(t) \in ws /\ s.ts[t] = "parked"}
      seq == SelectSeq(TaskOrder, LAMBDA t : t \in T)
  IN IF T = {} THEN s
     ELSE [s EXCEPT !.ts = [t \in Tasks |-> IF t \in T THEN "runnable" ELSE @[t]],
                    !.wait = [t \in Tasks |-> IF t \in T THEN "none" ELSE @[t]],
                    !.runq = @ \o seq, !.pinged = TRUE]

\* process_events: merge the readiness, take the wakers of the reported directions, interest = awaited_interest();
\* PostAction::Reregister (the loop calls reregister(fd, interest, OneShot)) while a waker is still stored
\* (ProcessIoW: the wakers ws are woken -- the trace specification passes the set that was observed)
ProcessIoW(s, e, rd, ws) ==
  LET s1 == IF Old THEN [s EXCEPT !.ad[e].last = rd, !.ad[e].wk = NoWk]
            ELSE LET wk2  == [x \in Bits |-> IF x \in rd THEN "none" ELSE s.ad[e].wk[x]]
                     left == Awaited(wk2)
                     rearm == left # {} /\ s.ep[e].reg /\ "no_rearm_after_event" \notin Variants
                 IN [s EXCEPT !.ad[e].last = @ \cup rd, !.ad[e].interest = left, !.ad[e].wk = wk2,
                              !.ad[e].rint = IF rearm THEN left ELSE @,
                              !.ep[e] = IF rearm THEN [reg |-> TRUE, int |-> left, armed |-> TRUE] ELSE @]
      \* the read waker is woken before the write waker (:308, :313): that is the order of the executor's queue
      first == ws \cap {s.ad[e].wk["r"]}
  IN Wake(Wake(s1, first), ws \ first)
ProcessIo(s, e, rd) == ProcessIoW(s, e, rd, WokenBy(s, e, rd))

------------------------------------------------------------------------------
(* one poll of one operation of task t, with the outcome `k` (and, for a write, the bytes `syms`) given:            *)
(*   read/write:  k >= 0 Ready(Ok(k)), -1 Pending (EAGAIN -> register_waker), -2 Ready(Err)                         *)
(*   readable/writable: 1 Ready, -1 Pending                                                                         *)
ReadyK(s, t, op) ==           \* the outcome the model predicts
  LET e == AdOf[t] IN
  CASE op.k = "read"  -> ReadK(s, e, op.n)
    [] op.k = "write" -> WriteK(s, e, op.n)
    [] OTHER          -> IF WaitBit(op.k) \in s.ad[e].last THEN 1 ELSE -1

ApplyPoll(s, t, op, k, syms) ==
  LET e == AdOf[t]
      x == WaitBit(op.k)
      s0 == IF op.k \in {"readable", "writable"} THEN TakeLast(s, e, x) ELSE s
  IN IF k = -1 THEN RegisterWaker(s0, e, x, Wk(t))
     ELSE IF op.k = "read" /\ k > 0 THEN KRead(s0, e, k)
     ELSE IF op.k = "write" /\ k > 0 THEN KWrite(s0, e, syms)
     ELSE s0

\* bookkeeping of the executor around a poll
OpStart(s, t, op) == [s EXCEPT !.cur[t] = op, !.nops[t] = @ + 1]
OpReady(s, t)     == [s EXCEPT !.cur[t] = NoOp]
OpPending(s, t)   == [s EXCEPT !.ts[t] = "parked", !.wait[t] = WaitBit(s.cur[t].k), !.runq = Tail(@)]
TaskDone(s, t)    == [s EXCEPT !.ts[t] = "done", !.cur[t] = NoOp, !.runq = Tail(@)]

\* the poll of the current operation of the task at the head of the run queue
PollCur(s, t, k, syms) ==
  LET s1 == ApplyPoll(s, t, s.cur[t], k, syms)
  IN IF k = -1 THEN OpPending(s1, t) ELSE OpReady(s1, t)

------------------------------------------------------------------------------
(* the loop *)
EvSet(s) == {e \in Ends : Fires(s, e)} \cup (IF s.pinged THEN {0} ELSE {})
Perms(S) == {f \in [1..Cardinality(S) -> S] : \A i, j \in 1..Cardinality(S) : i # j => f[i] # f[j]}

\* epoll_wait: every armed + ready entry is reported, disarmed, and its interest bits are cleared by the kernel
\* (FireSet: the entries of E are reported -- the trace specification passes the set that was observed)
FireSet(s, E) ==
  [s EXCEPT !.evrd = [f \in Fds |-> IF f \in E THEN Revents(s, f) ELSE {}],
            !.ep = [f \in Fds |-> IF f \in E THEN [reg |-> TRUE, int |-> {}, armed |-> FALSE] ELSE @[f]]]
FireAll(s) == FireSet(s, {e \in Ends : Fires(s, e)})

\* leave the executor when its queue is empty; leave the dispatch when the batch is empty
Settle(s) ==
  LET s1 == IF s.pc = "exec" /\ s.runq = <<>> THEN [s EXCEPT !.pc = "batch", !.batch = Tail(@)] ELSE s
  IN IF s1.pc = "batch" /\ s1.batch = <<>> THEN [s1 EXCEPT !.pc = "idle"] ELSE s1

DispBegin(s, order) == [FireSet(s, {order[i] : i \in DOMAIN order} \ {0}) EXCEPT !.batch = order, !.pc = "batch"]
DispStart(s, order) == Settle(DispBegin(s, order))

\* the event of adapter e, the head of the batch (the slot lookup fails when the adapter is gone: the event is ignored)
IoEventW(s, ws) ==
  LET e  == Head(s.batch)
      s1 == [s EXCEPT !.batch = Tail(@)]
  IN IF s.ad[e].live THEN ProcessIoW(s1, e, s.evrd[e], ws) ELSE s1
IoEvent(s) == IoEventW(s, WokenBy(s, Head(s.batch), s.evrd[Head(s.batch)]))
DispIo(s) == Settle(IoEvent(s))

\* the executor's ping: drain the eventfd, clear `notified`, run the queue
ExecBegin(s) == [s EXCEPT !.pinged = FALSE, !.pc = "exec"]
DispExec(s) == Settle(ExecBegin(s))

\* Scheduler::schedule: the runnable is queued and the executor pinged
DoSpawn(s, T) ==
  [s EXCEPT !.ts = [t \in Tasks |-> IF t \in T THEN "runnable" ELSE @[t]],
            !.runq = @ \o SelectSeq(TaskOrder, LAMBDA t : t \in T), !.pinged = TRUE]

\* a parked task is woken from outside the adapter (a timeout fired, select! chose another branch, the task was told to
\* stop) and, when it is polled, DROPS the future of its pending operation: the operation is over without a result, the
\* waker it stored stays in the adapter until an event of that direction takes it or another wait replaces it
DoAbandon(s, t) ==
  [s EXCEPT !.ts[t] = "runnable", !.wait[t] = "none", !.abn[t] = TRUE, !.nabn = @ + 1,
            !.runq = Append(@, t), !.pinged = TRUE]
Abandoned(s, t) == [s EXCEPT !.cur[t] = NoOp, !.abn[t] = FALSE]

\* one waker per direction: two tasks must not wait for the SAME direction of one adapter at the same time
\* (the borrow discipline: a direction is used by one future at a time)
BitBusy(s, t, x) ==
  \E u \in Tasks \ {t} : AdOf[u] = AdOf[t] /\ s.cur[u] # NoOp /\ WaitBit(s.cur[u].k) = x

------------------------------------------------------------------------------
(* the peer (the driver acting on the end that is not adapted) *)
PeerWrite(s, p, syms) == [KWrite(s, p, syms) EXCEPT !.npeer = @ + 1]
PeerRead(s, p, k)     == [KRead(s, p, k) EXCEPT !.npeer = @ + 1]
PeerClose(s, p)       == [s EXCEPT !.closed[p] = TRUE, !.npeer = @ + 1]

------------------------------------------------------------------------------
(* Property clauses (state predicates over the record) *)

\* Exact: what was read from a queue is a prefix of what was written into it, in order; nothing is lost or invented
IsPrefix(a, b) == Len(a) <= Len(b) /\ a = SubSeq(b, 1, Len(a))
Exact(s) == \A e \in Ends : IsPrefix(s.rcvd[e], s.sent[e]) /\ s.rcvd[e] \o s.q[e] = s.sent[e]

\* NeverStuck: a parked task has its waker stored in its adapter and the adapter armed in the kernel with the bit it
\* waits for -- or the event has been collected by epoll_wait and is still in the batch (in flight)
InFlight(s, e) == \E i \in DOMAIN s.batch : s.batch[i] = e
StuckTasks(s) ==
  {t \in Tasks : s.ts[t] = "parked" /\
     LET e == AdOf[t]  x == s.wait[t]
     IN ~(/\ s.ad[e].live
          /\ s.ad[e].wk[x] = Wk(t)
          /\ \/ s.ep[e].reg /\ s.ep[e].armed /\ x \in s.ep[e].int
             \/ InFlight(s, e))}
NeverStuck(s) == StuckTasks(s) = {}

\* Woken (safety form of "always completes if the peer makes progress"): in a QUIESCENT state -- the loop is idle and a
\* further dispatch would do nothing -- no task is left parked on something the kernel reports ready, no runnable is
\* left in the queue without the executor being pinged, and a runnable task is in the queue.
\* The liveness form is checked separately on small bounds (FairSpec, mc/asyncio_live*.cfg): Live_C17_Woken (a parked
\* task whose fd is reported ready does not stay parked) and Live_C17_Settles (the loop is quiescent again and again, i.e.
\* it does not spin); given Live_C17_Settles, "every ready task is eventually polled again" is this predicate holding in
\* every quiescent state.
Quiescent(s) == s.pc = "idle" /\ ~s.pinged /\ \A e \in Ends : ~Fires(s, e)
Woken(s) ==
  /\ \A t \in Tasks : s.ts[t] = "runnable" => \E i \in DOMAIN s.runq : s.runq[i] = t
  /\ (s.pc = "idle" /\ s.runq # <<>>) => s.pinged
  /\ Quiescent(s) => \A t \in Tasks : s.ts[t] = "parked" => ~KReady(s, AdOf[t], s.wait[t])

\* Blocking: O_NONBLOCK is set while adapted; otherwise the fd has the mode it had before adapt_io
Blocking(s) == \A f \in Fds : IF s.ad[f].live THEN s.nb[f] ELSE s.nb[f] = s.base[f]

\* Released: without a live adapter the fd is not in the epoll set and holds no slot; a live adapter has one entry
Released(s) ==
  /\ \A f \in Fds : s.ep[f].reg = s.ad[f].live
  /\ s.occ = Cardinality({f \in Fds : s.ad[f].live})

(***************************************************************************)
(* Transition system: all scripts, all interleavings.                      *)
(***************************************************************************)
CONSTANTS
  AsyncPeer,   \* TRUE: the peer (another process) also acts in the middle of a dispatch
  RecordHist,  \* TRUE: keep the controllable steps and the task scripts (scenario extraction for the replay)
  MaxSteps,    \* bound on the number of controllable steps of a behaviour (only with RecordHist)
  Guided       \* TRUE (scenario extraction only): no dispatch that has nothing to do, no peer action without a live adapter,
               \* no drop before the tasks of the adapter have run

VARIABLES st, n, hist, script
vars == <<st, n, hist, script>>

PeerEnds == Ends \ Adapted
AdaptFds == Adapted \cup (IF WithFile THEN {File} ELSE {})

Init ==
  /\ \E nb0 \in [Fds -> BOOLEAN] :
       /\ \A f \in Fds \ AdaptFds : ~nb0[f]
       /\ st = Init0(nb0)
  /\ n = 0 /\ hist = <<>> /\ script = [t \in Tasks |-> <<>>]

Idle == st.pc = "idle"
Budget == ~RecordHist \/ n < MaxSteps
Ctl(h) == /\ n' = IF RecordHist THEN n + 1 ELSE n
          /\ hist' = IF RecordHist THEN Append(hist, h) ELSE hist

\* ---- controllable steps (the driver, between two dispatches)
Adapt(f) ==
  /\ Idle /\ Budget /\ f \in AdaptFds /\ ~st.ad[f].live /\ st.nadapt[f] < MaxAdapt
  /\ st' = DoAdapt(st, f)
  /\ Ctl([op |-> "adapt", e |-> f]) /\ UNCHANGED script

AdaptAgain(f) ==
  /\ Idle /\ Budget /\ f \in Adapted /\ st.ad[f].live /\ st.nadapt[f] < MaxAdapt
  /\ st' = DoAdaptAgain(st, f)
  /\ Ctl([op |-> "adapt2", e |-> f]) /\ UNCHANGED script

DropAd(f, how) ==
  /\ Idle /\ Budget /\ st.ad[f].live
  /\ \A t \in Tasks : AdOf[t] = f => st.ts[t] \in (IF Guided THEN {"done"} ELSE {"new", "done"})
  /\ st' = DoDrop(st, f)
  /\ Ctl([op |-> how, e |-> f]) /\ UNCHANGED script

Spawn(T) ==
  /\ Idle /\ Budget /\ T # {}
  /\ \A t \in T : st.ts[t] = "new" /\ st.ad[AdOf[t]].live
  /\ st' = DoSpawn(st, T)
  /\ Ctl([op |-> "spawn", t |-> IF Join THEN "J" ELSE CHOOSE t \in T : TRUE]) /\ UNCHANGED script

Abandon(t) ==
  /\ Idle /\ Budget /\ ~Join /\ st.ts[t] = "parked" /\ st.nabn < MaxAbandon
  /\ st' = DoAbandon(st, t)
  /\ Ctl([op |-> "abandon", t |-> t]) /\ UNCHANGED script

Dispatch ==
  /\ Idle /\ Budget /\ (Guided => EvSet(st) # {})
  /\ \E order \in Perms(EvSet(st)) : st' = DispStart(st, order)
  /\ Ctl([op |-> "dispatch"]) /\ UNCHANGED script

PeerOk == /\ (Idle /\ Budget) \/ (AsyncPeer /\ ~RecordHist)
          /\ Guided => \E f \in Fds : st.ad[f].live
PeerW(p) ==
  /\ PeerOk /\ p \in PeerEnds /\ ~st.closed[p] /\ st.npeer < MaxPeerOps
  /\ \E m \in 1..MaxChunk :
       LET k == Min(m, B - Len(st.q[Other(p)])) IN
       /\ k >= 1 /\ Len(st.sent[Other(p)]) + m <= MaxLen
       /\ \E syms \in [1..k -> Sym] : st' = PeerWrite(st, p, syms)
       /\ Ctl([op |-> "peer", k |-> "w", n |-> m])
  /\ UNCHANGED script
PeerR(p) ==
  /\ PeerOk /\ p \in PeerEnds /\ ~st.closed[p] /\ st.npeer < MaxPeerOps /\ st.q[p] # <<>>
  /\ \E m \in 1..MaxChunk : st' = PeerRead(st, p, m) /\ Ctl([op |-> "peer", k |-> "r", n |-> m])
  /\ UNCHANGED script
PeerC(p) ==
  /\ PeerOk /\ p \in PeerEnds /\ ~st.closed[p] /\ st.npeer < MaxPeerOps /\ st.q[p] = <<>>
  /\ st' = PeerClose(st, p) /\ Ctl([op |-> "peer", k |-> "close", n |-> 0])
  /\ UNCHANGED script

\* ---- the loop thread inside a dispatch
StepIo   == st.pc = "batch" /\ Head(st.batch) # 0 /\ st' = DispIo(st) /\ UNCHANGED <<n, hist, script>>
StepExec == st.pc = "batch" /\ Head(st.batch) = 0 /\ st' = DispExec(st) /\ UNCHANGED <<n, hist, script>>

\* one poll step of the task at the head of the executor's queue
OpsOf(t) == {o \in [k : Kinds[t], n : 0..MaxChunk] : (o.k \in {"read", "write"}) = (o.n > 0)}
Scr(t, o) == IF RecordHist THEN [script EXCEPT ![t] = Append(@, o)] ELSE script

PollStep(t, s0) ==      \* s0: the state after the operation was (possibly) started
  LET op == s0.cur[t]
      k  == ReadyK(s0, t, op)
  IN \E syms \in (IF op.k = "write" /\ k > 0 THEN [1..k -> Sym] ELSE {<<>>}) :
       st' = Settle(PollCur(s0, t, k, syms))

TaskStep ==
  /\ st.pc = "exec" /\ st.runq # <<>>
  /\ LET t == Head(st.runq) IN
     \/ /\ st.abn[t]                                             \* the pending operation is dropped
        /\ st' = Abandoned(st, t) /\ UNCHANGED script
     \/ /\ ~st.abn[t] /\ st.cur[t] # NoOp                        \* re-poll of the operation that was Pending
        /\ PollStep(t, st) /\ UNCHANGED script
     \/ /\ st.cur[t] = NoOp /\ st.nops[t] < MaxOps               \* next operation of the script
        /\ \E o \in OpsOf(t) :
             /\ ~BitBusy(st, t, WaitBit(o.k))
             /\ o.k = "write" => Len(st.sent[Other(AdOf[t])]) + o.n <= MaxLen
             /\ PollStep(t, OpStart(st, t, o))
             /\ script' = Scr(t, o)
     \/ /\ st.cur[t] = NoOp                                      \* end of the script
        /\ st' = Settle(TaskDone(st, t)) /\ UNCHANGED script
  /\ UNCHANGED <<n, hist>>

CtlNext ==
  \/ \E f \in Fds : Adapt(f) \/ AdaptAgain(f) \/ DropAd(f, "drop") \/ DropAd(f, "into_inner")
  \/ IF Join THEN Spawn(Tasks) ELSE \E t \in Tasks : Spawn({t})
  \/ \E t \in Tasks : Abandon(t)
  \/ Dispatch
  \/ \E p \in Ends : PeerW(p) \/ PeerR(p) \/ PeerC(p)
Next == CtlNext \/ StepIo \/ StepExec \/ TaskStep

Spec == Init /\ [][Next]_vars

\* the loop thread's steps are weakly fair: an application keeps dispatching
LoopStep == Dispatch \/ StepIo \/ StepExec \/ TaskStep
FairSpec == Spec /\ WF_vars(LoopStep)

\* a behaviour is complete when the step budget is used up or the driver has nothing left to do
Done == Idle /\ RecordHist /\ (n = MaxSteps \/ ~ENABLED CtlNext)

TypeOK ==
  /\ st.pc \in {"idle", "batch", "exec"}
  /\ \A e \in Ends : Len(st.q[e]) <= B /\ Len(st.sent[e]) <= MaxLen
  /\ \A f \in Fds : st.ad[f].interest \subseteq Bits /\ st.ad[f].last \subseteq Bits /\ st.ep[f].int \subseteq Bits
  /\ \A t \in Tasks : st.ts[t] \in {"new", "runnable", "parked", "done"} /\ st.nops[t] <= MaxOps
  /\ (st.pc = "idle" => st.batch = <<>>)
  /\ (st.pc = "exec" => st.batch # <<>> /\ Head(st.batch) = 0)

Inv_C17_Exact      == Exact(st)
Inv_C17_NeverStuck == NeverStuck(st)
Inv_C17_Woken      == Woken(st)
Inv_C17_Blocking   == Blocking(st)
Inv_C17_Released   == Released(st)
Inv_C17 == Inv_C17_Exact /\ Inv_C17_NeverStuck /\ Inv_C17_Woken /\ Inv_C17_Blocking /\ Inv_C17_Released

\* liveness form (mc/asyncio_live.cfg, FairSpec): a parked task whose fd is reported ready does not stay parked
Live_C17_Woken ==
  \A t \in Tasks : (st.ts[t] = "parked" /\ KReady(st, AdOf[t], st.wait[t])) ~> (st.ts[t] # "parked")
\* the loop does not spin: it is quiescent again and again (finitely many driver / peer steps: eventually for good)
Live_C17_Settles == []<>Quiescent(st)
=============================================================================
