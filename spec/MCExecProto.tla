--------------------------- MODULE MCExecProto ---------------------------
EXTENDS ExecProto, Json
W_0      == <<<<0>>>>
W_00     == <<<<0, 0>>>>
W_0_0    == <<<<0>>, <<0>>>>
W_01_10  == <<<<0, 1>>, <<1, 0>>>>
W_0_1    == <<<<0>>, <<1>>>>
W_00_0   == <<<<0, 0>>, <<0>>>>
N1 == <<1>>
N2 == <<2>>
N11 == <<1, 1>>
N12 == <<1, 2>>
PrintSched == (RecordHist /\ Done) =>
   PrintT(<<"SCHED", ToJson([scripts |-> Scripts, needs |-> Needs, ndisp |-> NDisp, limit |-> Limit, sched |-> sched, hist |-> hist])>>)
ASSUME PrintT(<<"CFG", ToJson([scripts |-> Scripts, needs |-> Needs, ndisp |-> NDisp, limit |-> Limit])>>)
=============================================================================
