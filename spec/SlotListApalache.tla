------------------------- MODULE SlotListApalache -------------------------
(***************************************************************************************************)
(* SUPPLEMENT to LoopCore.tla (properties C06 / C01): one slot of the slot list of list.rs with the *)
(* REAL generation width (16 bits, 65536 versions) and an UNBOUNDED number of operations, decided   *)
(* by Apalache with an inductive invariant.  LoopCore checks the same design with TLC for           *)
(* VerMod = 4 and a handful of steps; here the statement is                                          *)
(*                                                                                                   *)
(*   a RegistrationToken that was removed is never accepted again (get() = Ok with a source in the  *)
(*   slot) before its slot has been handed out again a positive multiple of 65536 times, and a      *)
(*   token that is still inserted is always accepted and names its own source                        *)
(*                                                                                                   *)
(* for every history of insert / remove.  Slots do not interact (vacant_entry only chooses WHICH    *)
(* empty slot is handed out), so one slot is modelled and "some other slot was chosen" is a         *)
(* stuttering step; one token (the "watched" one) is followed through the history by ghost          *)
(* variables; it is chosen arbitrarily, so this covers every token.                                 *)
(*                                                                                                   *)
(*   A. apalache-mc check --length=0 --init=Init    --inv=IndInv  SlotListApalache.tla              *)
(*   B. apalache-mc check --length=1 --init=IndInit --inv=IndInv  SlotListApalache.tla   (inductive)*)
(*   C. apalache-mc check --length=0 --init=IndInit --inv=Safe    SlotListApalache.tla   (IndInv => *)
(*      the statement)                                                                               *)
(*   D. non-vacuity: --length=1 --init=IndInit --inv=IndInv --next=NextNoBump must be VIOLATED      *)
(*      (a list that re-uses a slot without incrementing its version accepts dead tokens)           *)
(***************************************************************************************************)
EXTENDS Integers

P16 == 65536

VARIABLES
  \* @type: Bool;
  exists,     \* the slot has been created (Vec::push in vacant_entry)
  \* @type: Int;
  ver,        \* version stored in the slot                     (SourceEntry.token)
  \* @type: Int;
  occ,        \* 0 = empty, otherwise the id of the source in it (SourceEntry.source)
  \* @type: Int;
  nextSrc,    \* fresh source ids
  \* ghost: the watched token
  \* @type: Bool;
  watched,
  \* @type: Int;
  wv,         \* its version
  \* @type: Int;
  wsrc,       \* the source it was issued for
  \* @type: Bool;
  wlive,      \* still inserted
  \* @type: Int;
  reuses      \* how often the slot was handed out again since the watched token was removed

\* SourceList::get + the callers' check that the entry holds a source
Accepted(v) == exists /\ ver = v /\ occ # 0

TypeOK ==
  /\ ver >= 0 /\ ver < P16 /\ occ >= 0 /\ occ < nextSrc /\ nextSrc >= 1
  /\ wv >= 0 /\ wv < P16 /\ wsrc >= 0 /\ reuses >= 0
  /\ ((~exists) => (occ = 0 /\ ver = 0 /\ ~watched))

IndInv ==
  /\ TypeOK
  /\ watched => ( /\ exists /\ wsrc >= 1 /\ wsrc < nextSrc
                  /\ (wlive => (ver = wv /\ occ = wsrc /\ reuses = 0))
                  \* after its removal the slot's version is the token's version plus the number of re-uses
                  /\ ((~wlive) => ( /\ ver = (wv + reuses) % P16
                                    /\ occ # wsrc
                                    /\ ((occ # 0) => (reuses >= 1)) )) )

\* the statement
Safe ==
  watched =>
    ( /\ (wlive => Accepted(wv))
      /\ ((~wlive /\ Accepted(wv)) => (reuses >= P16 /\ reuses % P16 = 0)) )

Init ==
  /\ exists = FALSE /\ ver = 0 /\ occ = 0 /\ nextSrc = 1
  /\ watched = FALSE /\ wv = 0 /\ wsrc = 0 /\ wlive = FALSE /\ reuses = 0

\* any state that satisfies the invariant (for the inductive step)
IndInit ==
  /\ exists \in BOOLEAN /\ ver \in Int /\ occ \in Int /\ nextSrc \in Int
  /\ watched \in BOOLEAN /\ wv \in Int /\ wsrc \in Int /\ wlive \in BOOLEAN /\ reuses \in Int
  /\ IndInv

\* vacant_entry hands out THIS slot (created with version 0, or re-used with the version incremented) and the
\* source is stored; `watch` decides whether this is the token we follow
InsertOp(bump) ==
  \E watch \in BOOLEAN :
    /\ occ = 0
    /\ nextSrc' = nextSrc + 1 /\ occ' = nextSrc /\ exists' = TRUE
    /\ ver' = IF ~exists THEN 0 ELSE IF bump THEN (ver + 1) % P16 ELSE ver
    /\ IF watch /\ ~watched
       THEN watched' = TRUE /\ wv' = ver' /\ wsrc' = nextSrc /\ wlive' = TRUE /\ reuses' = 0
       ELSE /\ UNCHANGED <<watched, wv, wsrc, wlive>>
            /\ reuses' = IF watched /\ ~wlive THEN reuses + 1 ELSE reuses

\* LoopHandle::remove(token) / PostAction::Remove: the slot is emptied, its version stays
RemoveOp ==
  /\ exists /\ occ # 0
  /\ occ' = 0 /\ UNCHANGED <<exists, ver, nextSrc, watched, wv, wsrc, reuses>>
  /\ wlive' = FALSE

\* another slot was chosen / another source was inserted elsewhere
Other == nextSrc' = nextSrc + 1 /\ UNCHANGED <<exists, ver, occ, watched, wv, wsrc, wlive, reuses>>

Next == InsertOp(TRUE) \/ RemoveOp \/ Other
NextNoBump == InsertOp(FALSE) \/ RemoveOp \/ Other
=============================================================================
