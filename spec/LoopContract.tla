--------------------------- MODULE LoopContract ---------------------------
(***************************************************************************)
(* Observable-level contract of the calloop event loop (sequential part). *)
(*                                                                         *)
(* A pure monitor: `Fresh`/`Step` compute a *shadow state* from the        *)
(* observable events of one execution (API calls and their results,        *)
(* environment actions of the driver, callback invocations, the calls the  *)
(* loop makes on instrumented sources, snapshots of the loop's bookkeeping *)
(* and of the kernel's epoll table), and `Viol` evaluates the clauses of   *)
(* properties C01 C02 C05 C06 C07 C08 C09 C13 C14 C15 C16 on every event.  *)
(* No operator refers to an implementation variable, so the same text is   *)
(* evaluated (i) by LoopCore.tla on every transition of the exhaustive     *)
(* model and (ii) by LoopTrace.tla on traces recorded from the real crate. *)
(***************************************************************************)
EXTENDS Naturals, Integers, Sequences, FiniteSets, TLC

Has(r, f) == f \in DOMAIN r
RangeOf(f) == {f[x] : x \in DOMAIN f}
Max2(a, b) == IF a >= b THEN a ELSE b
Min2(a, b) == IF a <= b THEN a ELSE b
LastOf(q) == q[Len(q)]
FrontOf(q) == SubSeq(q, 1, Len(q) - 1)
Sel(q, P(_)) == SelectSeq(q, P)

Tok2(key) == <<key[1], key[2]>>

(***************************************************************************)
(* Shadow state of one scenario.                                           *)
(***************************************************************************)
NoPA == [on |-> FALSE, s |-> 0, eff |-> "continue", reregs |-> 0, unregs |-> 0, gone |-> FALSE]
NoSnap == [valid |-> FALSE]

Empty == [
    scn |-> "none", nscn |-> 0, nmisuse |-> 0, S |-> {}, tick |-> 1, decl |-> <<>>, misuse |-> FALSE,
    life |-> <<>>, en |-> <<>>, fuzzy |-> <<>>, tokOf |-> <<>>, tokens |-> <<>>,
    stack |-> <<>>, peStack |-> <<>>, selfGone |-> <<>>, deferred |-> <<>>,
    pings |-> <<>>, handles |-> <<>>, closed |-> <<>>,
    queue |-> <<>>, senders |-> <<>>, closedSeen |-> <<>>, sended |-> <<>>,
    bytes |-> <<>>, peerClosed |-> <<>>, armedOS |-> <<>>, edgeDue |-> <<>>, childOff |-> <<>>, cbSub |-> 0, rearmed |-> {}, shifted |-> {},
    dl |-> <<>>, dlHi |-> <<>>, hasDl |-> <<>>, dlPending |-> <<>>, durPending |-> <<>>, rdyAtBatch |-> {}, armLo |-> <<>>, armHi |-> <<>>, armed |-> <<>>, armId |-> <<>>, firedArm |-> <<>>,
    cbUs |-> 0,
    inDisp |-> FALSE, ndisp |-> 0, waitSeen |-> FALSE, batchSeen |-> FALSE, synthSeen |-> FALSE,
    waitUs |-> 0, batchUs |-> 0, waitTimeout |-> 0, batch |-> <<>>, expWait |-> 0, earlyRet |-> FALSE,
    pendingAtWait |-> {}, touched |-> {}, fired |-> {}, lastTimerDl |-> -2000000000,
    prevDispErr |-> FALSE, carried |-> {},
    opted |-> {}, bs |-> <<>>, bhe |-> <<>>, synthWanted |-> {}, synthDone |-> {},
    pa |-> NoPA, lastPeret |-> [on |-> FALSE, s |-> 0, act |-> "continue", eff |-> "continue"],
    idle |-> <<>>, idleOrder |-> <<>>, idlePhase |-> FALSE, idleRanNow |-> {}, cbTargets |-> {}, cbArmed |-> {}, appliedNow |-> FALSE,
    dropSrc |-> <<>>, dropCb |-> <<>>, cbMade |-> <<>>, held |-> <<>>, recovered |-> <<>>,
    opStack |-> <<>>, regErrSeen |-> FALSE, faultSeen |-> FALSE, c16off |-> FALSE,
    peSynth |-> FALSE, cmpSnap |-> FALSE, lastSnap |-> NoSnap,
    deadBefore |-> {},
    \* executor sources: futures by id [s, want (scheduled / woken and not polled since), st, drops, v]
    wakePending |-> FALSE, errCauseNow |-> FALSE,
    fut |-> <<>>, futReady |-> <<>>, polledNow |-> {}, earlyDrop |-> {}, wantAtWait |-> {}, limit |-> 1024,
    viol |-> {}
]

SrcSet(ev) == {ev.srcs[i].s : i \in DOMAIN ev.srcs}
DeclOf(ev, s) == CHOOSE d \in RangeOf(ev.srcs) : d.s = s
NCh(d) == Len(d.children)

Fresh(old, ev) ==
  LET S == SrcSet(ev)
      D == [s \in S |-> DeclOf(ev, s)]
      PerChild(v) == [s \in S |-> [c \in 1..NCh(D[s]) |-> v]]
  IN [ Empty EXCEPT
        !.scn = ev.id, !.nscn = old.nscn + 1, !.nmisuse = old.nmisuse + (IF old.misuse THEN 1 ELSE 0), !.S = S, !.tick = ev.tick_us, !.decl = D,
        !.life = [s \in S |-> "new"], !.en = [s \in S |-> FALSE], !.fuzzy = [s \in S |-> FALSE],
        !.tokOf = [s \in S |-> 0], !.selfGone = [s \in S |-> FALSE],
        !.deferred = [s \in S |-> "continue"],
        !.pings = [s \in S |-> 0], !.handles = [s \in S |-> 1], !.closed = [s \in S |-> FALSE],
        !.queue = [s \in S |-> <<>>], !.senders = [s \in S |-> 1], !.closedSeen = [s \in S |-> FALSE],
        !.sended = [s \in S |-> FALSE],
        !.bytes = [f \in UNION {RangeOf(D[s].fds) : s \in S} |-> 0],
        !.peerClosed = [f \in UNION {RangeOf(D[s].fds) : s \in S} |-> FALSE], !.armedOS = PerChild(FALSE),
        !.edgeDue = PerChild(FALSE), !.childOff = PerChild(FALSE),
        !.dl = [s \in S |-> IF D[s].hasdl = 1 THEN D[s].dl * ev.tick_us ELSE 0],
        !.dlHi = [s \in S |-> IF D[s].hasdl = 1 THEN D[s].dl * ev.tick_us ELSE 0],
        !.hasDl = [s \in S |-> D[s].hasdl = 1], !.dlPending = [s \in S |-> FALSE], !.durPending = [s \in S |-> -1],
        !.armLo = [s \in S |-> 0], !.armHi = [s \in S |-> 0], !.armed = [s \in S |-> FALSE],
        !.armId = [s \in S |-> 0], !.firedArm = [s \in S |-> 0],
        !.bs = [s \in S |-> 0], !.bhe = [s \in S |-> 0],
        !.dropSrc = [s \in S |-> 0], !.dropCb = [s \in S |-> 0], !.cbMade = [s \in S |-> 0],
        !.held = [s \in S |-> FALSE], !.recovered = [s \in S |-> FALSE],
        !.limit = IF "limit" \in DOMAIN ev THEN ev.limit ELSE 1024,
        !.viol = old.viol ]

(***************************************************************************)
(* Derived notions.                                                        *)
(***************************************************************************)
Kind(sh, s) == sh.decl[s].kind
IsTimer(sh, s) == Kind(sh, s) = "timer"

\* token index i (1-based) names a registration that is still inserted
LiveTok(sh, i) == /\ i \in DOMAIN sh.tokens
                  /\ sh.tokOf[sh.tokens[i].s] = i
                  /\ sh.life[sh.tokens[i].s] = "in"
TokSrc(sh, i) == sh.tokens[i].s
\* the source whose *current* registration carries (id, ver), or 0
SrcOfKey(sh, k2) ==
  LET C == {s \in sh.S : sh.tokOf[s] # 0 /\ <<sh.tokens[sh.tokOf[s]].id, sh.tokens[sh.tokOf[s]].ver>> = k2}
  IN IF C = {} THEN 0 ELSE CHOOSE s \in C : TRUE
KeyOf(sh, s) == IF sh.tokOf[s] = 0 THEN <<-1, -1>>
                ELSE <<sh.tokens[sh.tokOf[s]].id, sh.tokens[sh.tokOf[s]].ver>>

InPe(sh, s) == \E i \in DOMAIN sh.peStack : sh.peStack[i] = s
\* the latitude of C01/C06/C07: a source that removed or disabled itself may still be handed
\* the remaining events of the batch it is currently processing
Latitude(sh, s) == InPe(sh, s) /\ sh.selfGone[s]

\* bytes / hang-up are properties of the fd: two sources over the same fd share them
FdOf(sh, s, c) == sh.decl[s].fds[c]
By(sh, s, c) == sh.bytes[FdOf(sh, s, c)]
Pc(sh, s, c) == sh.peerClosed[FdOf(sh, s, c)]

WantsR(ch) == ch.interest \in {"r", "rw"}
WantsW(ch) == ch.interest \in {"w", "rw"}

\* child c of composite s currently has a cause the poller must report
ChildPending(sh, s, c) ==
  LET ch == sh.decl[s].children[c]
      ready == (WantsR(ch) /\ (By(sh, s, c) > 0 \/ Pc(sh, s, c))) \/ WantsW(ch)
  IN /\ ch.fd = "sock"
     /\ ~sh.childOff[s][c]
     /\ ready
     /\ CASE ch.mode = "level"   -> TRUE
          [] ch.mode = "oneshot" -> sh.armedOS[s][c]
          [] OTHER               -> sh.edgeDue[s][c]

\* futures of executor x that were scheduled or woken and have not been polled since
WantingFuts(sh, x) == {f \in DOMAIN sh.fut : sh.fut[f].s = x /\ sh.fut[f].want /\ sh.fut[f].st = "live" /\ sh.fut[f].drops = 0}

\* pairs <<s, c>> (c = 0 for non-composites) that must be reported by a dispatch starting to wait now
PendingNow(sh, us) ==
  {<<s, 0>> : s \in {x \in sh.S : /\ sh.life[x] = "in" /\ sh.en[x] /\ ~sh.fuzzy[x]
                                  /\ CASE Kind(sh, x) = "ping"  -> sh.pings[x] > 0
                                       [] Kind(sh, x) = "chan"  -> sh.queue[x] # <<>> \/ (sh.senders[x] = 0 /\ ~sh.closedSeen[x])
                                       \* a stream: queued items, or the end of the stream not yet reported
                                       [] Kind(sh, x) = "stream" -> sh.queue[x] # <<>> \/ (sh.sended[x] /\ ~sh.closedSeen[x])
                                       [] Kind(sh, x) = "exec" -> WantingFuts(sh, x) # {}
                                       [] Kind(sh, x) = "timer" -> sh.armed[x] /\ sh.armHi[x] <= us
                                       [] OTHER -> FALSE}}
  \cup
  {<<s, c>> \in UNION {{<<x, d>> : d \in 1..NCh(sh.decl[x])} : x \in {y \in sh.S : Kind(sh, y) = "comp"}} :
       /\ sh.life[s] = "in" /\ sh.en[s] /\ ~sh.fuzzy[s] /\ ChildPending(sh, s, c)}

Opted(sh) == {s \in sh.S : sh.decl[s].life = 1 /\ sh.life[s] = "in" /\ sh.en[s]}

(***************************************************************************)
(* Expected kernel registrations (C16): <<fd, r, w, mode, id, ver>>.       *)
(***************************************************************************)
ExpectedEpoll(sh) ==
  UNION {
    IF ~(sh.life[s] = "in" /\ sh.en[s]) THEN {}
    ELSE IF Kind(sh, s) \in {"ping", "chan", "stream", "exec"}
      THEN {<<sh.decl[s].fds[1], 1, 0, "level", KeyOf(sh, s)[1], KeyOf(sh, s)[2]>>}
    ELSE IF Kind(sh, s) = "comp"
      THEN {LET ch == sh.decl[s].children[c]
                live == ch.mode # "oneshot" \/ sh.armedOS[s][c]
            IN <<sh.decl[s].fds[c],
                 IF live /\ WantsR(ch) THEN 1 ELSE 0,
                 IF live /\ WantsW(ch) THEN 1 ELSE 0,
                 ch.mode, KeyOf(sh, s)[1], KeyOf(sh, s)[2]>> : c \in {d \in 1..NCh(sh.decl[s]) : ~sh.childOff[s][d]}}
    ELSE {} : s \in sh.S }

SnapEpoll6(snap) == {<<snap.epoll[i][1], snap.epoll[i][2], snap.epoll[i][3], snap.epoll[i][4],
                       snap.epoll[i][5], snap.epoll[i][6]>> : i \in DOMAIN snap.epoll}
\* sub-ids of the entries of one registration are pairwise distinct
SnapSubsDistinct(snap) ==
  \A i, j \in DOMAIN snap.epoll :
     (i # j /\ snap.epoll[i][5] = snap.epoll[j][5] /\ snap.epoll[i][6] = snap.epoll[j][6])
        => snap.epoll[i][7] # snap.epoll[j][7]

(***************************************************************************)
(* Updates, by event.                                                      *)
(***************************************************************************)
TIdx(ev) == ev.t + 1          \* token indices are 0-based in traces
NoOp == [op |-> "none", ctx |-> 0, tgt |-> 0, live |-> TRUE, m |-> 0, c |-> 0, d |-> 0]
CurOp(sh) == IF sh.opStack = <<>> THEN NoOp ELSE LastOf(sh.opStack)
OpOn(sh) == sh.opStack # <<>>
LifeOf(sh, s) == IF s \in sh.S THEN sh.life[s] ELSE "none"

\* effect on the cause bookkeeping of a (re)registration of s that succeeded
Rearm(sh, s) ==
  IF Kind(sh, s) = "comp"
  THEN [sh EXCEPT !.rearmed = @ \cup {s},
                  !.armedOS[s] = [c \in DOMAIN @ |-> TRUE],
                  !.edgeDue[s] = [c \in DOMAIN @ |-> By(sh, s, c) > 0 \/ Pc(sh, s, c) \/ WantsW(sh.decl[s].children[c])]]
  ELSE IF IsTimer(sh, s)
  THEN [sh EXCEPT !.dlPending[s] = FALSE, !.armed[s] = sh.hasDl[s], !.armLo[s] = sh.dl[s], !.armHi[s] = sh.dlHi[s],
                  !.armId[s] = @ + 1]
  ELSE sh

\* fd-backed, no transient children: its (re)registration goes straight to the poller
PlainFdSource(sh, s) == /\ ~IsTimer(sh, s) /\ sh.life[s] = "in" /\ ~sh.fuzzy[s]
                        /\ \A c \in DOMAIN sh.decl[s].children : sh.decl[s].children[c].transient = 0

Touch(sh, s) == IF sh.inDisp THEN [sh EXCEPT !.touched = @ \cup {s}] ELSE sh

UpdOp(sh, ev) ==
  LET base == [sh EXCEPT !.opStack = Append(@, [op |-> ev.op, ctx |-> ev.ctx,
                                     tgt |-> IF Has(ev, "t") /\ TIdx(ev) \in DOMAIN sh.tokens
                                             THEN TokSrc(sh, TIdx(ev)) ELSE IF Has(ev, "s") THEN ev.s ELSE 0,
                                     live |-> IF Has(ev, "t") THEN LiveTok(sh, TIdx(ev)) ELSE TRUE,
                                     m |-> IF Has(ev, "m") THEN ev.m ELSE 0,
                                     c |-> IF Has(ev, "c") THEN ev.c ELSE 0,
                                     d |-> IF Has(ev, "d") THEN ev.d ELSE 0,
                                     f |-> IF Has(ev, "f") THEN ev.f ELSE 0]),
                      !.regErrSeen = FALSE,
                      \* sources that a callback of the current dispatch operated on (C08: same effect as outside)
                      !.cbTargets = IF ev.ctx # 0 /\ ev.op \in {"remove", "disable", "enable", "update", "insert"}
                                    THEN @ \cup {IF Has(ev, "t") /\ TIdx(ev) \in DOMAIN sh.tokens
                                                 THEN TokSrc(sh, TIdx(ev)) ELSE IF Has(ev, "s") THEN ev.s ELSE 0}
                                    ELSE @,
                      \* timers whose current arming stems from a (re)registration requested inside a callback
                      !.cbArmed = IF ev.ctx # 0 /\ ev.op \in {"disable", "enable", "update"} /\ Has(ev, "t") /\ TIdx(ev) \in DOMAIN sh.tokens
                                  THEN @ \cup {TokSrc(sh, TIdx(ev))}
                                  ELSE IF ev.ctx = 0 /\ ev.op \in {"disable", "enable", "update", "insert"} /\ Has(ev, "t") /\ TIdx(ev) \in DOMAIN sh.tokens
                                  THEN @ \ {TokSrc(sh, TIdx(ev))} ELSE @]
  IN CASE ev.op = "remove" /\ Has(ev, "t") /\ LiveTok(sh, TIdx(ev)) ->
            LET s == TokSrc(sh, TIdx(ev)) IN
            Touch([base EXCEPT !.life[s] = "out", !.armed[s] = FALSE,
                               !.selfGone[s] = IF InPe(sh, s) THEN TRUE ELSE @], s)
       [] ev.op = "dispatch" ->
            [base EXCEPT !.inDisp = TRUE, !.ndisp = @ + 1, !.waitSeen = FALSE, !.batchSeen = FALSE,
                         !.synthSeen = FALSE, !.pendingAtWait = {}, !.touched = {}, !.fired = {}, !.shifted = {},
                         !.lastTimerDl = -2000000000, !.opted = Opted(sh),
                         !.bs = [s \in sh.S |-> 0], !.bhe = [s \in sh.S |-> 0],
                         !.synthWanted = {}, !.synthDone = {}, !.idlePhase = FALSE, !.idleRanNow = {}, !.cbTargets = {}, !.appliedNow = FALSE,
                         !.polledNow = {}, !.futReady = <<>>, !.wantAtWait = {}, !.errCauseNow = FALSE,
                         !.deadBefore = {<<sh.tokens[i].id, sh.tokens[i].ver>> : i \in {j \in DOMAIN sh.tokens : ~LiveTok(sh, j)}}
                                         \ {<<sh.tokens[i].id, sh.tokens[i].ver>> : i \in {j \in DOMAIN sh.tokens : LiveTok(sh, j)}}]
       [] OTHER -> base

UpdOpret(sh, ev) ==
  LET co == CurOp(sh)
      base == [sh EXCEPT !.opStack = IF @ # <<>> THEN FrontOf(@) ELSE @]
      ok == ev.r = "ok"
      tgt == co.tgt
  IN
  CASE ev.op = "insert" /\ ok ->
         LET s == ev.s
             i == Len(sh.tokens) + 1
             b1 == [base EXCEPT !.tokens = Append(@, [s |-> s, id |-> ev.tid[1], ver |-> ev.tid[2]]),
                                !.tokOf[s] = i, !.life[s] = "in", !.en[s] = TRUE,
                                !.held[s] = sh.decl[s].held = 1, !.recovered[s] = FALSE,
                                !.dropCb[s] = 0, !.cbMade[s] = 1, !.fuzzy[s] = FALSE]
         IN Rearm(b1, s)
    [] ev.op = "insert" /\ ev.r \in {"err", "panic"} ->
         [base EXCEPT !.faultSeen = TRUE, !.cmpSnap = co.ctx = 0,
                      !.cbMade = IF co.tgt \in sh.S THEN [@ EXCEPT ![co.tgt] = @ + 1] ELSE @]
    \* disable() of an fd-backed source that is disabled already: nothing is registered, the unregistration fails (ENOENT)
    \* and nothing changes; should it "succeed", it still must have no effect (the next snapshot shows a request left
    \* in the loop's cell, C09)
    [] ev.op = "disable" /\ co.live /\ co.ctx # tgt /\ ~sh.en[tgt] /\ PlainFdSource(sh, tgt) ->
         IF ok THEN base ELSE [base EXCEPT !.faultSeen = TRUE, !.cmpSnap = co.ctx = 0]
    [] ev.op = "disable" /\ ok /\ co.live ->
         \* (a disable() that returned Ok after an earlier self-update in the same callback still has to silence the source:
         \*  the later request replaces the earlier one; only update-after-disable is left unjudged)
         IF co.ctx = tgt THEN [base EXCEPT !.deferred[tgt] = "disable", !.selfGone[tgt] = TRUE,
                                           !.misuse = @ \/ sh.deferred[tgt] = "disable"]
         ELSE Touch([base EXCEPT !.en[tgt] = FALSE, !.armed[tgt] = FALSE,
                                 !.misuse = @ \/ ~sh.en[tgt]], tgt)
    [] ev.op = "enable" /\ ok /\ co.live ->
         Rearm([base EXCEPT !.en[tgt] = TRUE, !.misuse = @ \/ sh.en[tgt]], tgt)
    [] ev.op = "enable" /\ ev.r = "err" /\ co.live /\ sh.en[tgt] /\ co.ctx # tgt /\ ~IsTimer(sh, tgt) ->
         \* enabling an fd-backed source that is enabled already: the registration fails (EEXIST) and, like every
         \* failed registration, must leave the loop as it was (C15; the next snapshot is compared with the last one)
         [base EXCEPT !.faultSeen = TRUE, !.cmpSnap = co.ctx = 0]
    [] ev.op = "enable" /\ ~ok /\ co.live /\ (sh.en[tgt] \/ co.ctx = tgt) ->
         \* enabling the running source (or an enabled timer) is outside the contract
         [base EXCEPT !.misuse = TRUE]
    \* update() of a disabled fd-backed source: nothing is registered, the re-registration fails (ENOENT) and changes
    \* nothing; if it "succeeds" the source is back in the poller although nobody enabled it (flagged in ViolOpret)
    [] ev.op = "update" /\ co.live /\ co.ctx # tgt /\ ~sh.en[tgt] /\ PlainFdSource(sh, tgt) ->
         IF ok THEN [base EXCEPT !.fuzzy[tgt] = TRUE]
         ELSE [base EXCEPT !.faultSeen = TRUE, !.cmpSnap = co.ctx = 0]
    \* update() of a disabled TIMER: Timer::reregister is unregister + register, so the timer is armed again -- the
    \* loop keeps no "disabled" state; from here on it counts as enabled (and a later disable must silence it)
    [] ev.op = "update" /\ ok /\ co.live /\ co.ctx # tgt /\ ~sh.en[tgt] /\ IsTimer(sh, tgt) /\ sh.life[tgt] = "in" ->
         Touch(Rearm([base EXCEPT !.en[tgt] = TRUE], tgt), tgt)
    [] ev.op = "update" /\ ok /\ co.live ->
         IF co.ctx = tgt THEN [base EXCEPT !.deferred[tgt] = "reregister",
                                           !.misuse = @ \/ sh.deferred[tgt] # "continue"]
         ELSE Touch(Rearm([base EXCEPT !.misuse = @ \/ ~sh.en[tgt]], tgt), tgt)
    [] ev.op \in {"enable", "update", "disable"} /\ ev.r = "err" /\ co.live ->
         [base EXCEPT !.faultSeen = TRUE, !.fuzzy[tgt] = TRUE, !.misuse = @ \/ (ev.op = "update" /\ ~sh.en[tgt])]
    [] ev.op = "ping" /\ ok -> [base EXCEPT !.pings[tgt] = Min2(@ + 1, 3)]
    [] ev.op = "clone_ping" /\ ok -> [base EXCEPT !.handles[tgt] = @ + 1]
    [] ev.op = "drop_ping" /\ ok ->
         [base EXCEPT !.handles[tgt] = @ - 1, !.closed[tgt] = sh.handles[tgt] = 1]
    [] ev.op = "send" /\ ok -> [base EXCEPT !.queue[tgt] = Append(@, co.m)]
    [] ev.op = "push" /\ ok -> [base EXCEPT !.queue[tgt] = Append(@, co.m)]
    \* LoopSignal::wakeup(): the next wait returns at once (and reports nothing)
    [] ev.op = "wakeup" /\ ok -> [base EXCEPT !.wakePending = TRUE]
    [] ev.op = "schedule" /\ ok ->
         [base EXCEPT !.fut = (co.f :> [s |-> tgt, want |-> TRUE, st |-> "live", v |-> 0,
                                        drops |-> IF co.f \in sh.earlyDrop THEN 1 ELSE 0]) @@ sh.fut]
    [] ev.op \in {"wake", "complete"} /\ ok /\ co.f \in DOMAIN sh.fut ->
         [base EXCEPT !.fut[co.f].want = TRUE]
    [] ev.op = "end_stream" /\ ok -> [base EXCEPT !.sended[tgt] = TRUE]
    \* n items at once (beyond the per-dispatch limits of the real code)
    [] ev.op \in {"push_many", "send_many"} /\ ok -> [base EXCEPT !.queue[tgt] = @ \o [i \in 1..co.d |-> co.m + i]]
    [] ev.op = "clone_sender" /\ ok -> [base EXCEPT !.senders[tgt] = @ + 1]
    [] ev.op = "drop_sender" /\ ok -> [base EXCEPT !.senders[tgt] = @ - 1]
    [] ev.op = "wr" /\ ok ->
         LET c == co.c + 1 IN
         [base EXCEPT !.bytes[FdOf(sh, tgt, c)] = Min2(@ + 1, 3),
                      !.edgeDue = [x \in DOMAIN @ |-> [d \in DOMAIN @[x] |->
                                     @[x][d] \/ (FdOf(sh, x, d) = FdOf(sh, tgt, c) /\ sh.life[x] = "in" /\ sh.en[x]
                                                  /\ WantsR(sh.decl[x].children[d]))]]]
    [] ev.op = "rd" /\ ok -> [base EXCEPT !.bytes[FdOf(sh, tgt, co.c + 1)] = 0]
    [] ev.op = "close_peer" /\ ok ->
         [base EXCEPT !.peerClosed[FdOf(sh, tgt, co.c + 1)] = TRUE,
                      !.edgeDue = [x \in DOMAIN @ |-> [d \in DOMAIN @[x] |->
                                     @[x][d] \/ (FdOf(sh, x, d) = FdOf(sh, tgt, co.c + 1) /\ sh.life[x] = "in" /\ sh.en[x])]]]
    [] ev.op = "set_deadline" /\ ok -> [base EXCEPT !.dl[tgt] = co.d * sh.tick, !.dlHi[tgt] = co.d * sh.tick, !.hasDl[tgt] = TRUE, !.dlPending[tgt] = TRUE]
    [] ev.op = "insert_idle" /\ ok ->
         [base EXCEPT !.idle = [i \in DOMAIN @ \cup {ev.i} |->
                                  IF i = ev.i THEN [st |-> "pending", nd |-> sh.ndisp, inD |-> sh.inDisp,
                                                    byIdle |-> sh.idlePhase, pos |-> Len(sh.idleOrder) + 1]
                                  ELSE @[i]],
                      !.idleOrder = Append(@, ev.i)]
    \* co.d idles at once, numbered co.m + 1 .. co.m + co.d (more than any per-dispatch limit)
    [] ev.op = "insert_idle_many" /\ ok ->
         [base EXCEPT !.idle = [i \in DOMAIN @ \cup ((co.m + 1)..(co.m + co.d)) |->
                                  IF i \in (co.m + 1)..(co.m + co.d)
                                  THEN [st |-> "pending", nd |-> sh.ndisp, inD |-> sh.inDisp, byIdle |-> sh.idlePhase,
                                        pos |-> Len(sh.idleOrder) + (i - co.m)]
                                  ELSE @[i]],
                      !.idleOrder = @ \o [k \in 1..co.d |-> co.m + k]]
    [] ev.op = "cancel_idle" /\ ok ->
         [base EXCEPT !.idle[ev.i].st = IF @ = "pending" THEN "cancelled" ELSE @]
    [] ev.op = "into_inner" /\ ok -> [base EXCEPT !.held[tgt] = FALSE, !.recovered[tgt] = TRUE]
    [] ev.op = "drop_held" /\ ok -> [base EXCEPT !.held[tgt] = FALSE]
    [] ev.op = "fault" -> [base EXCEPT !.faultSeen = TRUE]
    [] ev.op = "dispatch" ->
         [base EXCEPT !.inDisp = FALSE, !.prevDispErr = ev.r # "ok", !.pa = NoPA,
                      !.lastPeret = [on |-> FALSE, s |-> 0, act |-> "continue", eff |-> "continue"],
                      !.idlePhase = FALSE,
                      !.stack = <<>>, !.peStack = <<>>,
                      !.faultSeen = @ \/ ev.r # "ok", !.c16off = @ \/ ev.r # "ok",
                      !.carried = IF ev.r = "ok" THEN {} ELSE sh.carried \cup (sh.pendingAtWait \ sh.fired)]
    [] OTHER -> base

\* the deadline of the arming that fires: the event payload, except after a set_deadline() that has not
\* been followed by update() yet (then the payload is the not-yet-effective deadline; outside C05)
FiredDl(sh, ev) == IF sh.dlPending[ev.s] THEN sh.armLo[ev.s] ELSE ev.p

UpdCb(sh, ev) ==
  LET s == ev.s
      k == Kind(sh, s)
      c == ev.sub + 1
      b0 == [sh EXCEPT !.stack = Append(@, s), !.cbUs = ev.us, !.cbSub = ev.sub + 1,
                       !.fired = @ \cup {<<s, IF k = "comp" THEN c ELSE 0>>}]
  IN CASE k = "ping"  -> [b0 EXCEPT !.pings[s] = 0]
       [] k \in {"chan", "stream"} -> IF ev.p >= 0
                         THEN [b0 EXCEPT !.queue[s] = IF @ # <<>> /\ Head(@) = ev.p THEN Tail(@) ELSE @]
                         ELSE [b0 EXCEPT !.closedSeen[s] = TRUE]
       [] k = "timer" -> [b0 EXCEPT !.firedArm[s] = sh.armId[s], !.lastTimerDl = Max2(@, FiredDl(sh, ev)), !.cbArmed = @ \ {s}]
       [] k = "exec" -> [b0 EXCEPT !.futReady = IF @ # <<>> THEN Tail(@) ELSE @]
       [] OTHER ->
            IF c \in DOMAIN sh.armedOS[s]
            \* the kernel disarmed / consumed the edge when the batch was collected; a re-registration
            \* after that point armed it again, and delivering the stale event does not change that
            THEN [b0 EXCEPT !.armedOS[s][c] = IF sh.decl[s].children[c].mode = "oneshot" THEN s \in sh.rearmed ELSE @,
                            !.edgeDue[s][c] = @ /\ s \in sh.rearmed]
            ELSE b0

UpdCbret(sh, ev) ==
  LET s == ev.s
      b0 == [sh EXCEPT !.stack = IF @ # <<>> THEN FrontOf(@) ELSE @]
  IN IF IsTimer(sh, s)
     THEN CASE ev.ret = "to"  -> [b0 EXCEPT !.dl[s] = ev.arg * sh.tick, !.dlHi[s] = ev.arg * sh.tick, !.hasDl[s] = TRUE, !.dlPending[s] = FALSE, !.armLo[s] = ev.arg * sh.tick,
                                           !.armHi[s] = ev.arg * sh.tick, !.armId[s] = @ + 1,
                                           !.armed[s] = sh.armed[s]]
            [] ev.ret = "durmax" -> [b0 EXCEPT !.armed[s] = FALSE, !.hasDl[s] = FALSE]
            \* ToDuration: the new deadline is taken from the clock after the callback returned and
            \* before process_events returns (armHi is completed by the peret event)
            [] ev.ret = "dur" -> [b0 EXCEPT !.dl[s] = ev.us + ev.arg * sh.tick, !.dlHi[s] = ev.us + ev.arg * sh.tick + 1000000, !.hasDl[s] = TRUE, !.dlPending[s] = FALSE,
                                           !.armLo[s] = ev.us + ev.arg * sh.tick,
                                           !.armHi[s] = ev.us + ev.arg * sh.tick + 1000000,
                                           !.durPending[s] = ev.arg * sh.tick, !.armId[s] = @ + 1]
            [] OTHER -> [b0 EXCEPT !.armed[s] = FALSE]
     ELSE IF Kind(sh, s) = "comp" /\ sh.cbSub \in 1..NCh(sh.decl[s])
             /\ sh.decl[s].children[sh.cbSub].transient = 1 /\ ev.ret \in {"remove", "disable"}
          \* a transient child that asked to be removed is gone for good (disable: see Transient.tla)
          THEN [b0 EXCEPT !.childOff[s][sh.cbSub] = TRUE, !.misuse = @ \/ ev.ret = "disable",
                          !.shifted = @ \cup {s}]
     ELSE b0

\* the post action that takes effect for s when its processing returns `act`
Effective(sh, s, act) == IF act \notin {"continue", "err"} THEN act
                         ELSE IF act = "err" THEN "continue" ELSE sh.deferred[s]

UpdPeret(sh, ev) ==
  LET s == ev.s
      eff == Effective(sh, s, ev.act)
      b00 == [sh EXCEPT !.peStack = IF @ # <<>> THEN FrontOf(@) ELSE @,
                       !.lastPeret = [on |-> TRUE, s |-> s, act |-> ev.act, eff |-> eff],
                       !.errCauseNow = @ \/ ev.act = "err",
                       !.deferred[s] = "continue", !.selfGone[s] = FALSE,
                       !.fuzzy[s] = @ \/ (ev.act = "err" /\ sh.deferred[s] # "continue")]
      b0 == IF IsTimer(sh, s) /\ sh.durPending[s] >= 0 /\ Has(ev, "us")
            THEN [b00 EXCEPT !.armHi[s] = ev.us + sh.durPending[s], !.dlHi[s] = ev.us + sh.durPending[s],
                             !.durPending[s] = -1] ELSE b00
  IN CASE eff = "remove"  -> Touch([b0 EXCEPT !.life[s] = "out", !.armed[s] = FALSE], s)
       [] eff = "disable" -> Touch([b0 EXCEPT !.en[s] = FALSE, !.armed[s] = FALSE], s)
       [] eff = "reregister" -> Touch(IF sh.life[s] = "in" /\ sh.en[s] THEN Rearm(b0, s) ELSE b0, s)
       [] OTHER -> b0

UpdProbeCall(sh, ev) ==
  LET \* enable() of an fd-backed source that is enabled already: the kernel refuses the duplicate (EEXIST) and nothing
      \* may change -- the source stays exactly as registered as it was (not "fuzzy", the kernel table is still compared)
      dupEnable == /\ ev.e = "reg" /\ ev.r = "err" /\ ev.inj = 0 /\ OpOn(sh)
                   /\ CurOp(sh).op = "enable" /\ CurOp(sh).live /\ CurOp(sh).tgt = ev.s /\ CurOp(sh).ctx # ev.s
                   /\ sh.en[ev.s] /\ ~IsTimer(sh, ev.s)
      updDisabled == /\ ev.e = "rereg" /\ ev.r = "err" /\ ev.inj = 0 /\ OpOn(sh)
                     /\ CurOp(sh).op = "update" /\ CurOp(sh).live /\ CurOp(sh).tgt = ev.s /\ CurOp(sh).ctx # ev.s
                     /\ ~sh.en[ev.s] /\ PlainFdSource(sh, ev.s)
      disDisabled == /\ ev.e = "unreg" /\ ev.r = "err" /\ ev.inj = 0 /\ OpOn(sh)
                     /\ CurOp(sh).op = "disable" /\ CurOp(sh).live /\ CurOp(sh).tgt = ev.s /\ CurOp(sh).ctx # ev.s
                     /\ ~sh.en[ev.s] /\ PlainFdSource(sh, ev.s)
      b0 == IF dupEnable \/ updDisabled \/ disDisabled THEN [sh EXCEPT !.regErrSeen = TRUE, !.faultSeen = TRUE]
            ELSE IF ev.r = "err" THEN [sh EXCEPT !.regErrSeen = TRUE, !.faultSeen = TRUE,
                                            !.fuzzy[ev.s] = TRUE,
                                            !.c16off = @ \/ ev.inj = 0] ELSE sh
      b1 == [b0 EXCEPT !.errCauseNow = @ \/ ev.r = "err"]
  IN IF sh.pa.on /\ ev.s = sh.pa.s
     THEN [b1 EXCEPT !.pa.reregs = IF ev.e = "rereg" THEN @ + 1 ELSE @,
                     !.pa.unregs = IF ev.e = "unreg" THEN @ + 1 ELSE @]
     ELSE b1

Upd(sh, ev) ==
  CASE ev.e = "op"      -> UpdOp(sh, ev)
    [] ev.e = "opret"   -> UpdOpret(sh, ev)
    [] ev.e = "cb"      -> UpdCb(sh, ev)
    [] ev.e = "cbret"   -> UpdCbret(sh, ev)
    [] ev.e = "pe"      -> [sh EXCEPT !.peStack = Append(@, ev.s), !.pa = NoPA, !.peSynth = FALSE]
    [] ev.e = "peret"   -> UpdPeret(sh, ev)
    [] ev.e = "apply"   ->
         IF sh.lastPeret.on
         THEN [sh EXCEPT !.pa = [on |-> TRUE, s |-> sh.lastPeret.s,
                                 eff |-> ev.act, reregs |-> 0, unregs |-> 0,
                                 gone |-> sh.life[sh.lastPeret.s] = "out"],
                         !.appliedNow = @ \/ ev.act # "continue",
                         !.lastPeret.on = FALSE]
         ELSE sh
    [] ev.e \in {"reg", "rereg", "unreg"} -> UpdProbeCall(sh, ev)
    [] ev.e = "lookup"  -> [sh EXCEPT !.pa = NoPA]
    [] ev.e = "wait"    -> [sh EXCEPT !.waitSeen = TRUE, !.waitUs = ev.us, !.waitTimeout = ev.timeout,
                                      !.pendingAtWait = PendingNow(sh, ev.us),
                                      !.wantAtWait = UNION {WantingFuts(sh, x) : x \in {y \in sh.S : sh.life[y] = "in" /\ sh.en[y] /\ ~sh.fuzzy[y]}},
                                      \* C12: how long this wait must last if nothing happens (microseconds; 0 = may return at once)
                                      !.expWait = LET armedDl == {sh.armLo[x] - ev.us : x \in {y \in sh.S : IsTimer(sh, y) /\ sh.life[y] = "in" /\ sh.en[y] /\ sh.armed[y]}}
                                                      tmo == IF ev.timeout < 0 THEN 2000000000 ELSE ev.timeout
                                                      dl == IF armedDl = {} THEN 2000000000 ELSE CHOOSE m \in armedDl : \A o \in armedDl : m <= o
                                                  IN IF PendingNow(sh, ev.us) # {} \/ sh.synthWanted # {} \/ (\E x \in sh.S : sh.fuzzy[x]) \/ sh.wakePending THEN 0
                                                     ELSE Max2(0, Min2(tmo, dl)),
                                      !.earlyRet = FALSE]
    [] ev.e = "batch"   -> [sh EXCEPT !.wakePending = FALSE, !.rearmed = {}, !.batchSeen = TRUE, !.batchUs = ev.us, !.batch = ev.keys,
                                      !.earlyRet = (sh.expWait < 2000000000 /\ ev.us - sh.waitUs < sh.expWait - 400),
                                      !.rdyAtBatch = {<<s, c>> \in UNION {{<<x, d>> : d \in 1..NCh(sh.decl[x])} : x \in sh.S} :
                                                         By(sh, s, c) > 0}]
    [] ev.e = "synth"   -> [sh EXCEPT !.synthSeen = TRUE]
    [] ev.e = "bs"      -> [sh EXCEPT !.bs[ev.s] = @ + 1,
                                      !.synthWanted = IF ev.synth = 1 THEN @ \cup {ev.s} ELSE @,
                                      !.faultSeen = @ \/ ev.r = "err", !.errCauseNow = @ \/ ev.r = "err"]
    [] ev.e = "bhe"     -> [sh EXCEPT !.bhe[ev.s] = @ + 1]
    [] ev.e = "synth_pe" -> [sh EXCEPT !.synthDone = @ \cup {ev.s}, !.peSynth = TRUE]
    [] ev.e = "idle_run" -> IF ev.i \in DOMAIN sh.idle
                            THEN [sh EXCEPT !.idlePhase = TRUE, !.stack = Append(@, 0 - ev.i), !.idle[ev.i].st = "ran",
                                            !.idleRanNow = @ \cup {ev.i}]
                            ELSE [sh EXCEPT !.idlePhase = TRUE, !.stack = Append(@, 0 - ev.i)]
    [] ev.e = "idle_ret" -> [sh EXCEPT !.stack = IF @ # <<>> THEN FrontOf(@) ELSE @]
    [] ev.e = "snap"    -> IF ev.gone = 1 THEN sh
                           ELSE [sh EXCEPT !.cmpSnap = FALSE,
                                           !.lastSnap = [valid |-> TRUE, epoll |-> ev.epoll, life |-> ev.life,
                                                         heap |-> ev.heap, slots |-> ev.slots, idles |-> ev.idles,
                                                         pending |-> ev.pending]]
    [] ev.e = "poll"    -> IF ev.f \in DOMAIN sh.fut
                           THEN [sh EXCEPT !.fut[ev.f].want = FALSE, !.polledNow = @ \cup {ev.f}, !.fired = @ \cup {<<ev.s, 0>>}]
                           ELSE sh
    [] ev.e = "pollret" -> IF ev.f \in DOMAIN sh.fut /\ ev.r = "ready"
                           THEN [sh EXCEPT !.fut[ev.f].st = "done", !.fut[ev.f].v = ev.v, !.futReady = Append(@, ev.f)]
                           ELSE sh
    [] ev.e = "fdrop"   -> IF ev.f \in DOMAIN sh.fut THEN [sh EXCEPT !.fut[ev.f].drops = @ + 1]
                           ELSE [sh EXCEPT !.earlyDrop = @ \cup {ev.f}]
    [] ev.e = "drop_src" -> IF ev.s \in sh.S THEN [sh EXCEPT !.dropSrc[ev.s] = @ + 1] ELSE sh
    [] ev.e = "drop_cb"  -> IF ev.s \in sh.S THEN [sh EXCEPT !.dropCb[ev.s] = @ + 1] ELSE sh
    [] OTHER -> sh

(***************************************************************************)
(* Violations, by event.  Each clause is <<property, clause name>>.        *)
(***************************************************************************)
If(c, set) == IF c THEN set ELSE {}

CauseOk(sh, ev) ==
  LET s == ev.s  k == Kind(sh, s) IN
  CASE k = "ping"  -> sh.pings[s] > 0
    [] k = "chan"  -> IF ev.p >= 0 THEN sh.queue[s] # <<>> /\ Head(sh.queue[s]) = ev.p
                      ELSE sh.senders[s] = 0 /\ sh.queue[s] = <<>> /\ ~sh.closedSeen[s]
    \* StreamSource: every item in order exactly once, then a single None
    [] k = "stream" -> IF ev.p >= 0 THEN sh.queue[s] # <<>> /\ Head(sh.queue[s]) = ev.p
                       ELSE sh.sended[s] /\ sh.queue[s] = <<>> /\ ~sh.closedSeen[s]
    [] k = "timer" -> sh.armed[s] /\ (sh.dlPending[s] \/ (sh.armLo[s] <= ev.p /\ ev.p <= sh.armHi[s]))
    \* Executor: the output of a future that has just completed, exactly once
    [] k = "exec" -> sh.futReady # <<>> /\ sh.fut[Head(sh.futReady)].v = ev.p
    [] OTHER ->
         LET c == ev.sub + 1 IN
         /\ c \in 1..NCh(sh.decl[s])
         /\ LET ch == sh.decl[s].children[c]
                rd == ev.p % 2 = 1
                wr == ev.p \div 2 = 1
            IN \/ Pc(sh, s, c)
               \/ /\ rd \/ wr
                  /\ rd => (WantsR(ch) /\ (By(sh, s, c) > 0 \/ <<s, c>> \in sh.rdyAtBatch))
                  /\ wr => WantsW(ch)
         /\ (sh.decl[s].children[c].mode = "oneshot" => sh.armedOS[s][c])

ViolCb(sh, ev) ==
  LET s == ev.s
      lat == Latitude(sh, s)
      liveOk == sh.life[s] = "in" \/ lat
      enOk == sh.en[s] \/ lat \/ sh.fuzzy[s]
  IN
  If(~liveOk, {<<"C01", "cb_not_inserted">>, <<"C06", "cb_after_removal">>})
  \cup If(liveOk /\ ~enOk, {<<"C01", "cb_while_disabled">>, <<"C07", "cb_while_disabled">>})
  \cup If(~InPe(sh, s), {<<"C01", "cb_outside_processing">>})
  \* known finding KF-C01-subid-shift: the sub-ids of a composite are handed out afresh at every
  \* re-registration, so when a transient sibling was removed earlier in this dispatch an event that is
  \* still in the batch reaches the child that inherited the sub-id (own clause name = fingerprint)
  \cup If(~sh.fuzzy[s] /\ ~CauseOk(sh, ev) /\ s \in sh.shifted,
          {<<"C01", "stale_sub_token_after_sibling_removed_in_batch">>})
  \cup If(~sh.fuzzy[s] /\ ~CauseOk(sh, ev) /\ s \notin sh.shifted,
          {<<"C01", "cb_without_cause">>}
          \* after a failed registration: what the rejected source left behind reached somebody else (C15)
          \cup If(sh.faultSeen /\ (\E x \in sh.S : sh.fuzzy[x] /\ sh.life[x] # "in"),
                  {<<"C15", "leftover_of_failed_registration_reached_other_source">>})
          \cup If(IsTimer(sh, s) /\ ~sh.armed[s], {<<"C05", "cancelled_arming_fired">>})
          \cup If(IsTimer(sh, s) /\ sh.armed[s], {<<"C05", "wrong_deadline_payload">>})
          \* C12: the arming that ended the wait is EARLIER than the one the timer asked for (ToDuration counts from now)
          \cup If(IsTimer(sh, s) /\ sh.armed[s] /\ ~sh.dlPending[s] /\ ev.p < sh.armLo[s],
                  {<<"C12", "wait_ended_at_a_deadline_earlier_than_requested">>})
          \cup If(Kind(sh, s) = "ping", {<<"C03", "cb_without_ping">>})
          \cup If(Kind(sh, s) = "chan", {<<"C04", "delivery_not_head_of_queue">>})
          \cup If(Kind(sh, s) = "stream", {<<"C10", "stream_item_not_in_order_exactly_once">>}))
  \* C20: an event carries the readiness of ITS key's registration only: a direction the registration never asked for
  \* (peer open: no hang-up, which the poller reports in both directions) is the readiness of some other key
  \cup If(Kind(sh, s) = "comp" /\ ~sh.fuzzy[s] /\ liveOk /\ (ev.sub + 1) \in 1..NCh(sh.decl[s]) /\ ~Pc(sh, s, ev.sub + 1)
          /\ LET ch == sh.decl[s].children[ev.sub + 1] IN
                ch.fd = "sock" /\ ((ev.p % 2 = 1 /\ ~WantsR(ch)) \/ (ev.p \div 2 = 1 /\ ~WantsW(ch))),
          {<<"C20", "readiness_of_another_key_delivered_under_this_key">>})
  \* C08: a disable / enable / update issued from inside a callback has the effect it has outside a dispatch: the timer
  \* it (re)armed fires for its current deadline, not before and not for another one
  \cup If(IsTimer(sh, s) /\ s \in sh.cbArmed /\ ~sh.fuzzy[s] /\ ~sh.faultSeen
          /\ ((~CauseOk(sh, ev) /\ s \notin sh.shifted) \/ (~sh.dlPending[s] /\ ev.p > sh.batchUs)),
          {<<"C08", "timer_armed_from_a_callback_fired_wrongly">>})
  \cup If(IsTimer(sh, s) /\ ~sh.dlPending[s] /\ ev.p > sh.batchUs, {<<"C05", "fired_early">>, <<"C01", "timer_cb_without_expiry">>})
  \cup If(IsTimer(sh, s) /\ sh.dlPending[s] /\ sh.armed[s] /\ sh.armLo[s] > sh.batchUs, {<<"C05", "fired_early">>, <<"C01", "timer_cb_without_expiry">>})
  \cup If(IsTimer(sh, s) /\ sh.armed[s] /\ sh.firedArm[s] = sh.armId[s], {<<"C05", "arming_fired_twice">>})
  \cup If(IsTimer(sh, s) /\ FiredDl(sh, ev) < sh.lastTimerDl, {<<"C05", "deadline_order">>})
  \cup If(sh.idlePhase, {<<"C13", "source_cb_after_idles">>})
  \cup If(~sh.synthSeen, {<<"C14", "process_before_before_handle_events">>})

ViolPe(sh, ev) ==
  LET s == ev.s IN
  If(sh.life[s] = "in" /\ Tok2(ev.key) # KeyOf(sh, s), {<<"C01", "event_of_other_registration">>})
  \* the loop resolves every event against the slot list right before delivering it: a source that was removed
  \* earlier in this batch (by anybody) is not handed the events collected for it
  \cup If(sh.life[s] = "out", {<<"C06", "event_processed_after_removal">>, <<"C01", "event_processed_after_removal">>})
  \cup If(~sh.synthSeen /\ sh.inDisp, {<<"C14", "process_before_before_handle_events">>})

ViolPeret(sh, ev) ==
  LET s == ev.s IN
  IF sh.peSynth \/ ev.act = "err" THEN {} ELSE
  If(Kind(sh, s) = "ping" /\ sh.life[s] = "in" /\ ~sh.fuzzy[s] /\ sh.closed[s] /\ ev.act # "remove",
     {<<"C03", "closed_ping_not_removed">>})
  \cup If(Kind(sh, s) = "ping" /\ ~sh.closed[s] /\ ev.act = "remove", {<<"C03", "open_ping_removed">>})
  \cup If(Kind(sh, s) = "exec" /\ sh.futReady # <<>>, {<<"C10", "exec_result_not_delivered">>})
  \cup If(Kind(sh, s) = "chan" /\ sh.closedSeen[s] /\ ev.act # "remove", {<<"C04", "closed_channel_not_removed">>})
  \cup If(Kind(sh, s) = "stream" /\ sh.closedSeen[s] /\ ev.act # "remove", {<<"C10", "ended_stream_not_removed">>})
  \cup If(Kind(sh, s) = "stream" /\ ~sh.closedSeen[s] /\ ev.act = "remove", {<<"C10", "live_stream_removed">>})

ViolApply(sh, ev) ==
  IF ~sh.lastPeret.on THEN {<<"C09", "apply_without_processing">>}
  ELSE LET s == sh.lastPeret.s
       IN If(sh.lastPeret.act \notin {"continue", "err"} /\ ev.act # sh.lastPeret.act,
             {<<"C09", "explicit_action_not_applied">>})
          \cup If(sh.lastPeret.act = "continue" /\ ev.act # sh.lastPeret.eff,
                  {<<"C09", "deferred_request_not_applied_to_requester">>})
          \* C07: a disable the source returned, or requested on itself from its callback (the last request counts), takes
          \* effect when its event processing finishes
          \cup If(((sh.lastPeret.act = "disable") \/ (sh.lastPeret.act = "continue" /\ sh.lastPeret.eff = "disable"))
                  /\ ev.act # "disable" /\ sh.life[s] = "in",
                  {<<"C07", "disable_of_the_running_source_not_applied">>})
          \* a source that neither returned nor requested Disable is disabled: somebody else's disable reached it
          \cup If(sh.lastPeret.act = "continue" /\ sh.lastPeret.eff # "disable" /\ ev.act = "disable",
                  {<<"C07", "disable_disturbed_other_source">>})
          \cup If(Tok2(ev.key) # KeyOf(sh, s) /\ sh.life[s] = "in", {<<"C09", "applied_to_other_registration">>})

\* called on the event that ends the window of a post action (next lookup / end of dispatch)
ViolPaEnd(sh) ==
  IF ~sh.pa.on THEN {}
  ELSE LET p == sh.pa IN
       If(p.eff = "reregister" /\ p.reregs # 1 /\ ~p.gone, {<<"C09", "reregister_not_once">>})
       \cup If(p.eff # "reregister" /\ p.reregs # 0, {<<"C09", "unrequested_reregister">>})
       \cup If(p.eff \in {"disable", "remove"} /\ p.unregs = 0, {<<"C09", "not_unregistered">>})
       \cup If(p.eff \in {"continue", "reregister"} /\ ~p.gone /\ p.unregs # 0, {<<"C09", "unrequested_unregister">>})

ViolProbeCall(sh, ev) ==
  If(sh.pa.on /\ ev.s # sh.pa.s, {<<"C09", "post_action_hit_other_source">>})
  \cup If(OpOn(sh) /\ CurOp(sh).op \in {"disable", "enable", "update"} /\ CurOp(sh).live
          /\ ev.s # CurOp(sh).tgt /\ ~sh.pa.on,
          {<<"C07", "operation_disturbed_other_source">>, <<"C15", "operation_disturbed_other_source">>})
  \cup If(OpOn(sh) /\ CurOp(sh).op \in {"disable", "enable", "update", "remove"} /\ ~CurOp(sh).live,
          {<<"C06", "dead_token_had_effect">>})

\* C10: futures that were waiting for a poll when the dispatch started to wait and were not polled by it, although
\* their executor polled fewer futures than its per-dispatch limit
FutCheck(sh) ==
  LET missed == {f \in sh.wantAtWait : /\ f \notin sh.polledNow /\ sh.fut[f].drops = 0
                                        /\ LET x == sh.fut[f].s IN
                                           /\ x \notin sh.touched /\ sh.life[x] = "in" /\ sh.en[x] /\ ~sh.fuzzy[x]
                                           /\ Cardinality({g \in sh.polledNow : sh.fut[g].s = x}) < sh.limit}
  IN If(missed # {}, {<<"C10", "woken_future_not_polled">>})

ViolPoll(sh, ev) ==
  LET s == ev.s IN
  If(~sh.inDisp, {<<"C10", "future_polled_outside_dispatch">>})
  \* (the executor's own run loop goes on after a callback / poll of it removed or disabled it: Latitude)
  \cup If(sh.inDisp /\ ~Latitude(sh, s) /\ ~sh.fuzzy[s] /\ (sh.life[s] # "in" \/ ~sh.en[s]),
          {<<"C10", "future_polled_while_executor_not_enabled">>, <<"C07", "cb_while_disabled">>})
  \cup If(ev.f \in DOMAIN sh.fut /\ sh.fut[ev.f].st = "done", {<<"C10", "completed_future_polled_again">>})

ViolFutures(sh) ==
  If(\E f \in DOMAIN sh.fut : sh.fut[f].drops = 0 /\ sh.dropSrc[sh.fut[f].s] >= 1,
     {<<"C10", "future_outlives_executor">>})

PendingCheck(sh) ==
  \* C02 (and the carried-over obligations of C15) at the end of an Ok dispatch
  LET missed == {p \in sh.pendingAtWait : p[1] \notin sh.touched /\ p \notin sh.fired
                                          /\ sh.life[p[1]] = "in" /\ ~sh.fuzzy[p[1]]}
  IN If(missed # {}, {<<"C02", "pending_cause_not_dispatched">>})
     \cup If(\E p \in missed : IsTimer(sh, p[1]), {<<"C05", "due_timer_not_fired">>})
     \* C07: ... and a callback of this dispatch disabled / updated / removed ANOTHER source meanwhile: that operation
     \* disturbed a source it was not aimed at
     \cup If(\E p \in missed : sh.cbTargets \ {p[1]} # {}, {<<"C07", "operation_on_one_source_silenced_another">>})
     \cup If(sh.prevDispErr /\ missed # {}, {<<"C15", "event_lost_after_failed_dispatch">>})
     \cup If(\E p \in missed : Kind(sh, p[1]) = "ping", {<<"C03", "ping_lost">>})
     \cup If(\E p \in missed : Kind(sh, p[1]) = "chan", {<<"C04", "message_stranded">>})
     \cup If(\E p \in missed : Kind(sh, p[1]) = "stream", {<<"C10", "stream_item_stranded">>})
     \cup If(\E p \in missed : Kind(sh, p[1]) = "exec", {<<"C10", "executor_not_run_although_future_woken">>})

IdleEndCheck(sh) ==
  If(\E i \in DOMAIN sh.idle : sh.idle[i].st = "pending"
                               /\ ~(sh.idle[i].byIdle /\ sh.idle[i].nd = sh.ndisp),
     {<<"C13", "idle_not_run_by_ok_dispatch">>})
  \* C08: an insert_idle issued from inside a callback (of an idle, in an EARLIER dispatch) has the effect it has outside
  \cup If(\E i \in DOMAIN sh.idle : sh.idle[i].st = "pending" /\ sh.idle[i].byIdle /\ sh.idle[i].nd # sh.ndisp,
          {<<"C08", "idle_inserted_from_callback_was_lost">>})

ReleasedCheck(sh) ==
  LET out == {s \in sh.S : sh.life[s] = "out" /\ ~InPe(sh, s)} IN
  If(\E s \in out : ~sh.held[s] /\ ~sh.recovered[s] /\ sh.dropSrc[s] # 1, {<<"C06", "source_not_released_once">>})
  \cup If(\E s \in out : ~sh.held[s] /\ sh.dropCb[s] # sh.cbMade[s], {<<"C06", "callback_not_released_once">>})
  \cup If(\E s \in sh.S : sh.dropSrc[s] > 1, {<<"C06", "source_dropped_twice">>})

ViolOpret(sh, ev) ==
  LET co == CurOp(sh)
      tokOp == ev.op \in {"enable", "disable", "update"}
      documented == (ev.op = "enable" /\ co.ctx = co.tgt) \/ (ev.op = "set_deadline" /\ co.ctx = co.tgt)
                    \/ (ev.op = "into_inner" /\ LifeOf(sh, co.tgt) = "in")
                    \/ (ev.op = "into_inner" /\ InPe(sh, co.tgt))
                    \* an idle cancelling itself from its own callback: it has already run (outside C08/C13)
                    \/ (ev.op \in {"cancel_idle", "drop_idle"} /\ co.ctx < 0 /\ Has(ev, "i") /\ ev.i = 0 - co.ctx)
  IN
  If(ev.r = "panic" /\ ~documented,
     {<<"C08", "operation_panicked">>} \cup If(sh.faultSeen, {<<"C15", "panic_after_fault">>}))
  \cup If(tokOp /\ ev.r \notin {"notok"} /\ ~co.live /\ ev.r # "invalid" /\ ev.r # "panic",
          {<<"C06", "dead_token_accepted">>})
  \cup If(tokOp /\ co.live /\ ev.r = "invalid", {<<"C07", "live_token_rejected">>, <<"C06", "live_token_rejected">>})
  \cup If(ev.op = "update" /\ ev.r = "ok" /\ co.live /\ co.tgt \in sh.S /\ co.ctx # co.tgt /\ ~sh.en[co.tgt]
          /\ PlainFdSource(sh, co.tgt) /\ ~sh.faultSeen,
          {<<"C16", "update_registered_a_disabled_source">>, <<"C07", "update_registered_a_disabled_source">>})
  \cup If(ev.op = "insert" /\ ev.r = "err" /\ ~sh.regErrSeen, {<<"C15", "insert_failed_without_cause">>, <<"C16", "fd_not_reinsertable">>})
  \cup If(ev.op = "into_inner" /\ ev.r = "panic" /\ LifeOf(sh, co.tgt) = "out" /\ ~InPe(sh, co.tgt),
          {<<"C06", "into_inner_after_removal_failed">>})
  \cup If(ev.op = "dispatch" /\ ev.r = "ok", PendingCheck(sh) \cup IdleEndCheck(sh) \cup FutCheck(sh))
  \cup If(ev.op = "schedule" /\ ev.r = "destroyed" /\ co.tgt \in sh.S /\ sh.dropSrc[co.tgt] = 0,
          {<<"C10", "schedule_refused_while_executor_alive">>})
  \cup If(ev.op = "schedule" /\ ev.r = "ok" /\ co.tgt \in sh.S /\ sh.dropSrc[co.tgt] >= 1,
          {<<"C10", "schedule_accepted_after_executor_dropped">>})
  \cup If(ev.op = "schedule" /\ ev.r = "panic", {<<"C10", "schedule_panicked">>})
  \cup If(ev.op = "dispatch", ViolPaEnd(sh))
  \* C12: with no event and no wake-up the wait lasts at least min(timeout, earliest armed deadline)
  \cup If(ev.op = "dispatch" /\ ev.r = "ok" /\ sh.earlyRet /\ sh.fired = {} /\ sh.idleRanNow = {},
          {<<"C12", "wait_cut_short_without_event">>, <<"C05", "cancelled_arming_left_residue_that_wakes_the_loop">>})
  \* idles belong to the first dispatch that returns Ok after their insertion: a failing dispatch runs none
  \cup If(ev.op = "dispatch" /\ ev.r = "err" /\ sh.idleRanNow # {}, {<<"C13", "idle_ran_in_failed_dispatch">>})
  \* a dispatch fails only for a reason: a source's processing / hook returned an error or a (re/un)registration
  \* failed -- not because the handle operations a callback issued (all of which returned Ok) were combined
  \cup If(ev.op = "dispatch" /\ ev.r \notin {"ok", "panic"} /\ ~sh.errCauseNow,
          {<<"C08", "dispatch_failed_without_cause">>, <<"C09", "dispatch_failed_without_cause">>})
  \cup If(ev.op = "dispatch" /\ ev.r = "ok" /\ sh.synthWanted \ (sh.synthDone \cup sh.touched) # {},
          {<<"C14", "synthetic_event_not_delivered">>})
  \cup If(co.ctx = 0 /\ ev.op \notin {"drop_loop", "insert"}, ReleasedCheck(sh))

ViolWait(sh, ev) ==
  If(\E s \in sh.S : ~sh.fuzzy[s] /\ sh.bs[s] # (IF s \in sh.opted THEN 1 ELSE 0), {<<"C14", "before_sleep_count">>})
  \cup If(\E s \in sh.S : sh.bs[s] > 1, {<<"C14", "before_sleep_count">>})
  \cup If(sh.synthWanted # {} /\ ev.timeout # 0, {<<"C14", "synthetic_event_did_not_force_zero_timeout">>})

BatchOf(sh, k2) == Sel(sh.batch, LAMBDA k : Tok2(k) = k2)

ViolBhe(sh, ev) ==
  If(~sh.batchSeen \/ sh.synthSeen, {<<"C14", "before_handle_events_order">>})
  \cup If(ev.keys # BatchOf(sh, KeyOf(sh, ev.s)), {<<"C14", "before_handle_events_wrong_events">>})

ViolSynthObs(sh, ev) ==
  If(\E s \in sh.S : ~sh.fuzzy[s] /\ sh.bhe[s] # (IF s \in sh.opted THEN 1 ELSE 0), {<<"C14", "before_handle_events_count">>})
  \cup If(\E s \in sh.S : sh.bhe[s] > 1, {<<"C14", "before_handle_events_count">>})

ViolBs(sh, ev) == If(sh.waitSeen, {<<"C14", "before_sleep_after_wait">>})
                  \* C07: a disabled source is silent: the loop does not call its lifecycle hooks either
                  \cup If(ev.s \in sh.S /\ sh.life[ev.s] = "in" /\ ~sh.en[ev.s] /\ ~sh.fuzzy[ev.s] /\ ~sh.faultSeen,
                          {<<"C07", "lifecycle_hook_called_while_disabled">>})

ViolIdleRun(sh, ev) ==
  LET i == ev.i IN
  IF i \notin DOMAIN sh.idle THEN {<<"C13", "unknown_idle_ran">>}
  ELSE LET d == sh.idle[i]
           earlier == {j \in DOMAIN sh.idle : sh.idle[j].st = "pending" /\ j # i
                          /\ ~(sh.idle[j].byIdle /\ sh.idle[j].nd = sh.ndisp)
                          /\ sh.idle[j].pos < d.pos}
       IN If(d.st = "cancelled", {<<"C13", "cancelled_idle_ran">>})
          \cup If(d.st = "ran", {<<"C13", "idle_ran_twice">>})
          \cup If(d.byIdle /\ d.nd = sh.ndisp, {<<"C13", "idle_from_idle_ran_in_same_dispatch">>})
          \cup If(earlier # {}, {<<"C13", "idle_order">>})

ViolLookup(sh, ev) ==
  ViolPaEnd(sh)
  \cup If(ev.found = 0 /\ Tok2(ev.key) \in sh.deadBefore /\ ~sh.faultSeen,
          {<<"C16", "ghost_event_of_released_fd">>})

FuzzyFds(sh) == UNION {RangeOf(sh.decl[s].fds) : s \in {x \in sh.S : sh.fuzzy[x]}}
Occ(snap) == Cardinality({i \in DOMAIN snap.slots : snap.slots[i][3] = 1})
SnapDiffers(a, b) == \/ a.epoll # b.epoll \/ a.life # b.life \/ a.heap # b.heap
                     \/ Occ(a) # Occ(b) \/ a.idles # b.idles \/ a.pending # b.pending
SymDiffSet(A, B) == (A \ B) \cup (B \ A)
LifeSetOf(snap) == {<<snap.life[i][1], snap.life[i][2]>> : i \in DOMAIN snap.life}

ViolSnap(sh, ev) ==
  IF ev.gone = 1 THEN {}
  ELSE
  If(ev.pending # "continue", {<<"C09", "post_action_carried_over">>, <<"C08", "in_callback_request_left_pending">>})
  \cup If(LifeSetOf(ev) # {KeyOf(sh, s) : s \in Opted(sh)} /\ ~(\E s \in sh.S : sh.fuzzy[s]),
          {<<"C14", "lifecycle_set_wrong">>} \cup If(sh.faultSeen, {<<"C15", "bookkeeping_leak_after_fault">>})
          \cup If(sh.cbTargets # {} /\ ~sh.faultSeen, {<<"C08", "in_callback_operation_effect_differs">>})
          \* a Disable / Remove / Reregister was applied in this dispatch and the loop's books are wrong afterwards
          \cup If(sh.appliedNow /\ ~sh.faultSeen, {<<"C09", "post_action_half_applied">>}))
  \* C07: a disabled source is out of the lifecycle set as well (it would be called from before_sleep otherwise)
  \cup If(\E x \in sh.S : sh.life[x] = "in" /\ ~sh.en[x] /\ ~sh.fuzzy[x] /\ KeyOf(sh, x) \in LifeSetOf(ev) /\ ~sh.faultSeen,
          {<<"C07", "disabled_source_kept_in_lifecycle_set">>})
  \cup If(Len(ev.life) # Cardinality(LifeSetOf(ev)), {<<"C14", "lifecycle_set_duplicates">>})
  \cup If(Cardinality({i \in DOMAIN ev.slots : ev.slots[i][3] = 1}) # Cardinality({s \in sh.S : sh.life[s] = "in"}),
          {<<"C06", "occupied_slots_mismatch">>} \cup If(sh.faultSeen, {<<"C15", "slot_leak_after_fault">>}))
  \cup If(ev.heap # Cardinality({s \in sh.S : IsTimer(sh, s) /\ sh.life[s] = "in" /\ sh.en[s] /\ sh.armed[s]})
          /\ ~(\E s \in sh.S : sh.fuzzy[s] /\ IsTimer(sh, s)) /\ ~sh.prevDispErr,
          {<<"C05", "timer_heap_residue">>})
  \cup If(~sh.c16off /\ {e \in SnapEpoll6(ev) : e[1] \notin FuzzyFds(sh)} # {e \in ExpectedEpoll(sh) : e[1] \notin FuzzyFds(sh)},
          {<<"C16", "kernel_registrations_differ">>}
          \cup If(\E e \in SymDiffSet({x \in SnapEpoll6(ev) : x[1] \notin FuzzyFds(sh)}, {x \in ExpectedEpoll(sh) : x[1] \notin FuzzyFds(sh)}) :
                     \E s \in sh.cbTargets \cap sh.S : e[1] \in RangeOf(sh.decl[s].fds),
                  {<<"C08", "in_callback_operation_effect_differs">>}))
  \* C06: a source that is no longer inserted has left something behind in the loop: a kernel registration of one of
  \* its fds (that no inserted source shares), a lifecycle entry under one of its old keys, or a timer arming
  \cup If(\/ \E e \in SnapEpoll6(ev) \ ExpectedEpoll(sh) :
               /\ e[1] \notin FuzzyFds(sh) /\ ~sh.c16off
               /\ \E x \in sh.S : sh.life[x] = "out" /\ e[1] \in RangeOf(sh.decl[x].fds)
               /\ ~\E y \in sh.S : sh.life[y] = "in" /\ e[1] \in RangeOf(sh.decl[y].fds)
          \/ /\ ~(\E x \in sh.S : sh.fuzzy[x])
             /\ \E k \in LifeSetOf(ev) : \E i \in DOMAIN sh.tokens : <<sh.tokens[i].id, sh.tokens[i].ver>> = k /\ ~LiveTok(sh, i)
                                           /\ ~\E j \in DOMAIN sh.tokens : <<sh.tokens[j].id, sh.tokens[j].ver>> = k /\ LiveTok(sh, j)
          \/ /\ ev.heap > Cardinality({x \in sh.S : IsTimer(sh, x) /\ sh.life[x] = "in" /\ sh.en[x] /\ sh.armed[x]})
             /\ ~(\E x \in sh.S : sh.fuzzy[x] /\ IsTimer(sh, x)) /\ ~sh.prevDispErr
             /\ \E x \in sh.S : IsTimer(sh, x) /\ sh.life[x] = "out",
          {<<"C06", "removed_source_left_registrations">>})
  \* (kernel entries of the fds of the rejected source itself are its own business: a composite written with `?` leaves
  \*  the sub-sources it had registered before the failing step in the poller -- they are "fuzzy" from then on)
  \* C20: the key the kernel holds for a registered fd is the key of the registration's token (same fd, interest and
  \* mode as expected, but another slot id / generation in the epoll data)
  \cup If(~sh.c16off /\ \E e \in SnapEpoll6(ev), x \in ExpectedEpoll(sh) :
               /\ e[1] = x[1] /\ e[2] = x[2] /\ e[3] = x[3] /\ e[4] = x[4] /\ e[1] \notin FuzzyFds(sh)
               /\ (e[5] # x[5] \/ e[6] # x[6]),
          {<<"C20", "kernel_key_differs_from_token">>})
  \* C16 / C20: ... and the sub-id in that key is the one the child was handed at the last (re)registration of its source:
  \* sub-ids are handed out in order to the children that are present, at every (re)registration of the whole source
  \cup If(~sh.c16off /\ ~sh.faultSeen /\ \E s \in sh.S :
               /\ Kind(sh, s) = "comp" /\ sh.life[s] = "in" /\ sh.en[s] /\ ~sh.fuzzy[s]
               /\ \E c \in 1..NCh(sh.decl[s]), i \in DOMAIN ev.epoll :
                     /\ ~sh.childOff[s][c] /\ sh.decl[s].children[c].fd = "sock"
                     /\ ev.epoll[i][1] = sh.decl[s].fds[c] /\ ev.epoll[i][1] \notin FuzzyFds(sh)
                     /\ <<ev.epoll[i][5], ev.epoll[i][6]>> = KeyOf(sh, s)
                     /\ ev.epoll[i][7] # Cardinality({d \in 1..(c - 1) : ~sh.childOff[s][d]}),
          {<<"C16", "kernel_sub_key_differs_from_last_registration">>, <<"C20", "kernel_sub_key_differs_from_last_registration">>})
  \cup If(sh.cmpSnap /\ sh.lastSnap.valid
          /\ (\/ {e \in SnapEpoll6(sh.lastSnap) : e[1] \notin FuzzyFds(sh)} # {e \in SnapEpoll6(ev) : e[1] \notin FuzzyFds(sh)}
              \/ SnapDiffers([sh.lastSnap EXCEPT !.epoll = <<>>], [ev EXCEPT !.epoll = <<>>])),
          {<<"C15", "failed_insert_changed_loop_state">>})
  \* ... in particular the set of sources that get lifecycle notifications
  \cup If(sh.cmpSnap /\ sh.lastSnap.valid /\ sh.lastSnap.life # ev.life,
          {<<"C14", "failed_registration_changed_lifecycle_set">>})
  \cup If(~SnapSubsDistinct(ev), {<<"C16", "duplicate_sub_token">>, <<"C20", "duplicate_sub_token">>})

ViolEnd(sh, ev) ==
  If(\E f \in DOMAIN sh.fut : sh.fut[f].drops # 1, {<<"C10", "future_not_dropped_exactly_once">>})
  \cup If(\E s \in sh.S : sh.dropSrc[s] # 1, {<<"C06", "source_not_dropped_exactly_once_at_teardown">>})
  \cup If(\E s \in sh.S : sh.dropCb[s] # sh.cbMade[s],
          {<<"C06", "callback_not_dropped_exactly_once_at_teardown">>})

Viol(sh, ev) ==
  CASE ev.e = "cb"      -> ViolCb(sh, ev)
    [] ev.e = "pe"      -> ViolPe(sh, ev)
    [] ev.e = "poll"    -> ViolPoll(sh, ev)
    [] ev.e = "peret"   -> ViolPeret(sh, ev)
    [] ev.e = "apply"   -> ViolApply(sh, ev)
    [] ev.e \in {"reg", "rereg", "unreg"} -> ViolProbeCall(sh, ev)
    [] ev.e = "opret"   -> ViolOpret(sh, ev)
    [] ev.e = "wait"    -> ViolWait(sh, ev)
    [] ev.e = "bhe"     -> ViolBhe(sh, ev)
    [] ev.e = "bs"      -> ViolBs(sh, ev)
    [] ev.e = "synth"   -> ViolSynthObs(sh, ev)
    \* a synthetic event is delivered in the dispatch whose before_sleep returned it, not in a later one (O15: events left
    \* behind by a dispatch that failed after the hook)
    [] ev.e = "synth_pe" -> If(ev.s \notin sh.synthWanted, {<<"C14", "synthetic_event_of_an_earlier_dispatch_delivered">>})
    [] ev.e = "idle_run" -> ViolIdleRun(sh, ev)
    [] ev.e = "lookup"  -> ViolLookup(sh, ev)
    [] ev.e = "snap"    -> ViolSnap(sh, ev) \cup ViolFutures(sh)
    [] ev.e = "end"     -> ViolEnd(sh, ev)
    [] ev.e = "teardown_panic" -> {<<"C08", "teardown_panicked">>, <<"C06", "teardown_panicked">>}
    [] OTHER -> {}

Step(sh, ev, l) ==
  IF ev.e = "reset" THEN Fresh(sh, ev)
  ELSE LET V == IF sh.misuse THEN {} ELSE Viol(sh, ev)
           n == Upd(sh, ev)
       IN [n EXCEPT !.viol = sh.viol \cup {[p |-> v[1], c |-> v[2], l |-> l, scn |-> sh.scn] : v \in V}]

=============================================================================
