SPECIFICATION TSpec
CONSTANTS
  B <- TrB
  LowWater <- TrLow
  Sym = {0, 1}
  MaxLen = 0
  MaxChunk = 0
  Tasks <- TrTasks
  AdOf <- TrAdOf
  Kinds <- TrKinds
  Join <- TrJoin
  Adapted <- TrAdapted
  MaxOps = 0
  MaxPeerOps = 0
  MaxAdapt = 0
  MaxAbandon = 0
  WithFile = FALSE
  Variants = {}
  AsyncPeer = FALSE
  RecordHist = FALSE
  MaxSteps = 0
  Guided = FALSE
INVARIANT Verdict
POSTCONDITION Consumed
CHECK_DEADLOCK FALSE
