------------------------------- MODULE Signals -------------------------------
(***************************************************************************)
(* C19 -- calloop::signals::Signals (src/sources/signals.rs): bookkeeping   *)
(* of the thread's blocked set and of the signalfd mask, and delivery of    *)
(* pending signals, in a single-threaded process.                           *)
(*                                                                         *)
(* The model follows the ORDER OF SYSTEM CALLS of the code: every           *)
(* configuration call (new / add_signals / remove_signals / set_signals /   *)
(* drop) is a program of system calls (`Prog`), executed one call per       *)
(* transition, because a pending signal is delivered to its normal          *)
(* disposition at the very moment a `sigprocmask(SIG_UNBLOCK)` unblocks it. *)
(*                                                                         *)
(* The first part of the module is PURE (operators over a state record):    *)
(* it is evaluated (i) by the transition system at the end of this module   *)
(* (MCSignals.tla + mc/signals_*.cfg, exhaustive) and (ii) by               *)
(* SignalsTrace.tla on traces recorded from the real crate by               *)
(* harness/src/bin/drive_signals.rs.                                        *)
(*                                                                         *)
(* Kernel facts the model relies on (Linux):                                *)
(*  - a standard signal that is blocked stays pending; a second instance    *)
(*    of the same signal in the same queue coalesces with it;               *)
(*  - there are two queues: thread-directed (raise/tgkill: kind "t") and    *)
(*    process-directed (kill(getpid()): kind "p"), so at most one pending   *)
(*    instance per (signal, kind);                                          *)
(*  - unblocking a pending signal delivers every pending instance of it     *)
(*    to the installed disposition before sigprocmask returns to the caller *)
(*    (the normal disposition is modelled as "a counting handler ran");     *)
(*  - read(signalfd) dequeues pending instances of the signals of the       *)
(*    signalfd's mask, whatever the blocked set is.                         *)
(***************************************************************************)
EXTENDS Naturals, Integers, Sequences, FiniteSets, TLC

CONSTANTS
  U,         \* universe of signal numbers (SIGUSR1=10, SIGUSR2=12, SIGURG=23, SIGWINCH=28)
  Kinds,     \* subset of {"t", "p"}: raise() (thread-directed) / kill(getpid()) (process-directed)
  Variants   \* deliberately wrong behaviours (non-vacuity), {} = the code as it is in /repo:
             \*   "set_unblocks_old_first"  set_signals before commit e7c3b32: unblock(old); block(new); set fd mask
             \*   "add_skips_block"         add_signals only updates the signalfd mask
             \*   "drop_keeps_blocked"      Drop does not unblock
             \*   "remove_stale_fd"         remove_signals does not update the signalfd mask
             \*   "remove_forgets_kernel"   remove_signals only updates the source's own mask

CfgOps == {"new", "add", "remove", "set", "drop"}

Cnt(P, x) == Cardinality({i \in P : i[1] = x})
SigsOf(P) == {i[1] : i \in P}
Zero      == [x \in U |-> 0]

(***************************************************************************)
(* State record.                                                           *)
(*  alive  a Signals source exists                                         *)
(*  M      configured set (the source's `mask`, as of the last completed   *)
(*         call)                                                           *)
(*  K      signals that are configured *throughout* the call in progress   *)
(*         (old M \cap new M); equals M between calls.  A handler run of a  *)
(*         signal in K is a signal lost to the callback.                   *)
(*  B      thread's blocked set \cap U          F   signalfd mask \cap U      *)
(*  P      pending instances, <<sig, kind>>                                *)
(*  cb, hd    per signal: callbacks delivered / handler runs               *)
(*  raised, coal   per signal: raise calls / raises coalesced (ghost)      *)
(*  badH   signals whose handler ran although configured (ghost)           *)
(*  badC   signals reported to the callback although not configured (ghost)*)
(*  last   name of the last completed operation                            *)
(***************************************************************************)
Init0 == [alive |-> FALSE, M |-> {}, K |-> {}, B |-> {}, F |-> {}, P |-> {},
          cb |-> Zero, hd |-> Zero, raised |-> Zero, coal |-> Zero,
          badH |-> {}, badC |-> {}, last |-> "init"]

\* every pending instance whose signal is not blocked is delivered to the handler now
Settle(s) ==
  LET D == {i \in s.P : i[1] \notin s.B}
  IN [s EXCEPT !.P = @ \ D,
               !.hd = [x \in U |-> @[x] + Cnt(D, x)],
               !.badH = @ \cup (SigsOf(D) \cap s.K)]

\* one system call
Sys(s, c) ==
  CASE c.c = "block"   -> [s EXCEPT !.B = @ \cup c.S]                \* sigprocmask(SIG_BLOCK, S)
    [] c.c = "unblock" -> Settle([s EXCEPT !.B = @ \ c.S])          \* sigprocmask(SIG_UNBLOCK, S)
    [] c.c = "setfd"   -> [s EXCEPT !.F = c.S]                      \* signalfd(fd or -1, S)
    [] c.c = "close"   -> [s EXCEPT !.F = {}]                       \* close(signalfd)

Call(c, S) == [c |-> c, S |-> S]

Target(s, op) ==
  CASE op.op = "new"    -> op.S
    [] op.op = "add"    -> s.M \cup op.S
    [] op.op = "remove" -> s.M \ op.S
    [] op.op = "set"    -> op.S
    [] op.op = "drop"   -> {}

\* the system calls of one configuration call, in the order of signals.rs
Prog(s, op) ==
  CASE op.op = "new" ->                                   \* :191  thread_block(mask); SignalFd::with_flags(mask)
         <<Call("block", op.S), Call("setfd", op.S)>>
    [] op.op = "add" ->                                   \* :213  mask += S; thread_block(mask); set_mask(mask)
         IF "add_skips_block" \in Variants THEN <<Call("setfd", s.M \cup op.S)>>
         ELSE <<Call("block", s.M \cup op.S), Call("setfd", s.M \cup op.S)>>
    [] op.op = "remove" ->                                \* :233  mask -= S; thread_unblock(S); set_mask(mask)
         IF "remove_forgets_kernel" \in Variants THEN <<Call("block", {})>>
         ELSE IF "remove_stale_fd" \in Variants THEN <<Call("unblock", op.S)>>
         ELSE <<Call("unblock", op.S), Call("setfd", s.M \ op.S)>>
    [] op.op = "set" ->                                   \* :255  thread_block(new); thread_unblock(old \ new); set_mask(new)
         IF "set_unblocks_old_first" \in Variants
         THEN <<Call("unblock", s.M), Call("block", op.S), Call("setfd", op.S)>>
         ELSE <<Call("block", op.S), Call("unblock", s.M \ op.S), Call("setfd", op.S)>>
    [] op.op = "drop" ->                                  \* :285  thread_unblock(mask); then the fields: close(fd)
         IF "drop_keeps_blocked" \in Variants THEN <<Call("close", {})>>
         ELSE <<Call("unblock", s.M), Call("close", {})>>

OpEnabled(s, op) ==
  CASE op.op = "new" -> ~s.alive
    [] op.op \in {"add", "remove", "set", "drop"} -> s.alive
    [] OTHER -> TRUE

Begin(s, op)  == [s EXCEPT !.K = s.M \cap Target(s, op)]
Commit(s, op) == [s EXCEPT !.M = Target(s, op), !.K = Target(s, op), !.alive = (op.op # "drop"), !.last = op.op]

\* raise(x) / kill(getpid(), x)
DoRaise(s, x, k) ==
  LET s1 == [s EXCEPT !.raised[x] = @ + 1]
  IN IF x \in s.B
     THEN IF <<x, k>> \in s.P THEN [s1 EXCEPT !.coal[x] = @ + 1]
                             ELSE [s1 EXCEPT !.P = @ \cup {<<x, k>>}]
     ELSE [s1 EXCEPT !.hd[x] = @ + 1, !.badH = IF x \in s.K THEN @ \cup {x} ELSE @]

\* what one EventLoop::dispatch hands to the callback: process_events reads the signalfd until EAGAIN
Readable(s) == IF s.alive THEN {i \in s.P : i[1] \in s.F} ELSE {}

DoDispatch(s) ==
  LET R == Readable(s)
  IN [s EXCEPT !.P = @ \ R,
               !.cb = [x \in U |-> @[x] + Cnt(R, x)],
               !.badC = @ \cup (SigsOf(R) \ s.M),
               !.last = "dispatch"]

RECURSIVE RunSys(_, _)
RunSys(s, q) == IF q = <<>> THEN s ELSE RunSys(Sys(s, Head(q)), Tail(q))

\* a whole operation (used by the trace specification; the transition system below runs Prog call by call)
RunOp(s, op) ==
  CASE op.op \in CfgOps     -> Commit(RunSys(Begin(s, op), Prog(s, op)), op)
    [] op.op = "raise"    -> [DoRaise(s, op.sig, op.k) EXCEPT !.last = "raise"]
    [] op.op = "dispatch" -> DoDispatch(s)

(***************************************************************************)
(* Property clauses (state predicates over the record; `idle` = no         *)
(* configuration call is in progress).                                     *)
(***************************************************************************)
\* exactly the configured signals are blocked and in the signalfd mask; nothing stays blocked after drop
MaskExact(s, idle) ==
  idle => IF s.alive THEN s.B = s.M /\ s.F = s.M ELSE s.B = {}

\* every raise ended in exactly one of: coalesced / one callback / one handler run / (still pending)
ExactlyOnce(s) == \A x \in U : s.raised[x] = s.coal[x] + s.cb[x] + s.hd[x] + Cnt(s.P, x)
\* ... and the handler (normal disposition) only for a signal that was not configured at that moment
HandlerOnlyUnconfigured(s) == s.badH = {}
\* a pending instance of a configured signal is readable by the next dispatch, and a dispatch leaves none behind
PendingReported(s, idle) ==
  (idle /\ s.alive) => /\ \A i \in s.P : i[1] \in s.M => i[1] \in s.F
                       /\ s.last = "dispatch" => SigsOf(s.P) \cap s.M = {}
Delivery(s, idle) == ExactlyOnce(s) /\ HandlerOnlyUnconfigured(s) /\ PendingReported(s, idle)

NeverReportedIfNotConfigured(s) == s.badC = {}

(***************************************************************************)
(* Transition system: all interleavings of configuration calls, raises and *)
(* dispatches, at most MaxOps operations.                                  *)
(***************************************************************************)
CONSTANTS
  MaxOps,      \* bound on the number of operations of a behaviour
  AsyncRaise,  \* TRUE: a raise (an external sender) may also arrive between two system calls of a call
  RecordHist   \* TRUE: keep the sequence of operations (scenario extraction for the replay on the real crate)

VARIABLES st, pc, cur, n, hist
vars == <<st, pc, cur, n, hist>>

NoOp == [op |-> "none"]

Init == st = Init0 /\ pc = <<>> /\ cur = NoOp /\ n = 0 /\ hist = <<>>

Hist(op) == IF RecordHist THEN Append(hist, op) ELSE hist

\* begin a configuration call
Start(op) ==
  /\ pc = <<>> /\ n < MaxOps /\ OpEnabled(st, op)
  /\ st' = Begin(st, op)
  /\ pc' = Prog(st, op)
  /\ cur' = op /\ n' = n + 1 /\ hist' = Hist(op)

\* next system call of the call in progress; the last one completes the call
StepSys ==
  /\ pc # <<>>
  /\ st' = IF Len(pc) = 1 THEN Commit(Sys(st, Head(pc)), cur) ELSE Sys(st, Head(pc))
  /\ pc' = Tail(pc)
  /\ cur' = IF Len(pc) = 1 THEN NoOp ELSE cur
  /\ UNCHANGED <<n, hist>>

Raise(x, k) ==
  /\ n < MaxOps
  /\ IF pc = <<>> THEN st' = [DoRaise(st, x, k) EXCEPT !.last = "raise"]
                  ELSE AsyncRaise /\ st' = DoRaise(st, x, k)
  /\ n' = n + 1 /\ hist' = Hist([op |-> "raise", sig |-> x, k |-> k, mid |-> IF pc = <<>> THEN 0 ELSE 1])
  /\ UNCHANGED <<pc, cur>>

Dispatch ==
  /\ pc = <<>> /\ n < MaxOps
  /\ st' = DoDispatch(st)
  /\ n' = n + 1 /\ hist' = Hist([op |-> "dispatch"])
  /\ UNCHANGED <<pc, cur>>

Next ==
  \/ \E o \in {"new", "add", "remove", "set"}, S \in SUBSET U : Start([op |-> o, S |-> S])
  \/ Start([op |-> "drop", S |-> {}])
  \/ StepSys
  \/ \E x \in U, k \in Kinds : Raise(x, k)
  \/ Dispatch

Spec == Init /\ [][Next]_vars

Idle == pc = <<>>
Done == Idle /\ n = MaxOps

TypeOK ==
  /\ st.M \subseteq U /\ st.K \subseteq st.M /\ st.B \subseteq U /\ st.F \subseteq U
  /\ st.P \subseteq U \X Kinds
  /\ SigsOf(st.P) \subseteq st.B               \* only a blocked signal can be pending
  /\ n \in 0..MaxOps
  /\ (Idle => st.K = st.M)

Inv_C19_MaskExact == MaskExact(st, Idle)
Inv_C19_Delivery  == Delivery(st, Idle)
Inv_C19_NeverReportedIfNotConfigured == NeverReportedIfNotConfigured(st)
Inv_C19 == Inv_C19_MaskExact /\ Inv_C19_Delivery /\ Inv_C19_NeverReportedIfNotConfigured
=============================================================================
