---------------------------- MODULE SignalProto ----------------------------
(***************************************************************************)
(* LoopSignal::stop / wakeup, EventLoop::run and EventLoop::block_on       *)
(* (loop_logic.rs) against signalling threads.                             *)
(*                                                                         *)
(*   stop()    = store(stop, true)                                         *)
(*   wakeup()  = Poller::notify()   (sticky: makes the current or the next *)
(*               wait return; consumed by that wait)                       *)
(*   run()     = store(stop, false); while !stop { dispatch(None); cb }    *)
(*   block_on  = store(stop, false); store(future_ready, true);            *)
(*               while !stop { if swap(future_ready, false) { poll } ;     *)
(*                             dispatch_events(None); idles; cb }          *)
(*   waker     = store(future_ready, true); notify()                       *)
(*                                                                         *)
(* One action = one yield-to-yield step of a thread; a wait that finds no  *)
(* notification really blocks (pc "waiting") and continues only after a    *)
(* notify.  Behaviours are schedules for the step scheduler of the harness.*)
(***************************************************************************)
EXTENDS ConcContract, SequencesExt

CONSTANTS Scripts,   \* [tid -> sequence of "stop" | "wakeup" | "wake"]
          Mode,      \* "run" | "blockon"
          Need,      \* block_on: wakes the future needs before it completes
          Variants, RecordHist

T == DOMAIN Scripts
Loop == 0

VARIABLES stop, fready, note, lpc, pc, ip, woken, hasWaker, out, niter, finished, everBlocked,
          pollPending,   \* ghost: a waker stored future_ready and no poll has started since
          wpend,         \* variant wakeup_coalesced only: "a wake-up has been sent and not yet consumed" flag of LoopSignal
          mon, hist, sched
vars == <<stop, fready, note, lpc, pc, ip, woken, hasWaker, out, niter, finished, pollPending, wpend, mon, hist, sched, everBlocked>>
ProtoView == <<stop, fready, note, lpc, pc, ip, woken, hasWaker, out, niter, finished, pollPending, wpend>>

Feed(m, evs) == FoldLeft(LAMBDA acc, e : CStep(acc, e, 0), m, evs)
Emit(evs, t) == /\ mon' = Feed(mon, evs)
                /\ hist' = IF RecordHist THEN hist \o evs ELSE hist
                /\ sched' = IF RecordHist THEN Append(sched, t) ELSE sched
Y(t, l) == [e |-> "y", t |-> t, l |-> l]
Call(t, n, op) == [e |-> "call", t |-> t, n |-> n, op |-> op, f |-> 0]
Ret(t, n, op, r) == [e |-> "ret", t |-> t, n |-> n, op |-> op, r |-> r, m |-> 0]
LoopOp == IF Mode = "run" THEN "run" ELSE "block_on"
ResetEv == [e |-> "reset", id |-> "model", kind |-> IF Mode = "run" THEN "signal" ELSE "blockon", cap |-> -1, limit |-> 1024,
            threads |-> [t \in {ToString(x) : x \in T} |-> Scripts[CHOOSE x \in T : ToString(x) = t]],
            loop |-> <<LoopOp>>]

\* a worker from script position i to its next yield point: [ip, evs, pc, woken]
RECURSIVE RunTo(_, _, _, _)
RunTo(t, i, w, evs) ==
  IF i > Len(Scripts[t]) THEN [ip |-> i, evs |-> evs, pc |-> "done", woken |-> w]
  ELSE LET op == Scripts[t][i] n == i - 1 IN
       CASE op = "stop" -> [ip |-> i, woken |-> w, pc |-> "st_before", evs |-> evs \o <<Call(t, n, op), Y(t, "signal.stop.before")>>]
         [] op = "wakeup" -> [ip |-> i, woken |-> w, pc |-> "wu_before", evs |-> evs \o <<Call(t, n, op), Y(t, "signal.wakeup.before")>>]
         [] OTHER -> \* wake: the driver counts the wake, then calls the waker (if the future registered one)
              IF hasWaker THEN [ip |-> i, woken |-> w + 1, pc |-> "k_before", evs |-> evs \o <<Call(t, n, op), Y(t, "blockon.wake.before")>>]
              ELSE RunTo(t, i + 1, w + 1, evs \o <<Call(t, n, op), Ret(t, n, op, "nowaker")>>)

Init ==
  /\ stop = FALSE /\ fready = FALSE /\ note = FALSE /\ lpc = "start"
  /\ pc = [t \in T |-> "start"] /\ ip = [t \in T |-> 1] /\ woken = 0 /\ hasWaker = FALSE /\ out = -2 /\ niter = 0
  /\ finished = FALSE /\ pollPending = FALSE /\ everBlocked = FALSE /\ wpend = FALSE
  /\ mon = Feed(CEmpty, <<ResetEv>>) /\ hist = (IF RecordHist THEN <<ResetEv>> ELSE <<>>) /\ sched = <<>>

Apply(t, r) == /\ ip' = [ip EXCEPT ![t] = r.ip] /\ pc' = [pc EXCEPT ![t] = r.pc] /\ woken' = r.woken

WorkerStep(t) ==
  /\ pc[t] # "done"
  /\ CASE pc[t] = "start" ->
            LET r == RunTo(t, ip[t], woken, <<>>) IN Apply(t, r) /\ Emit(r.evs, t) /\ UNCHANGED <<stop, fready, note, pollPending>>
       [] pc[t] = "st_before" ->
            /\ stop' = TRUE /\ pc' = [pc EXCEPT ![t] = "st_after"] /\ Emit(<<Y(t, "signal.stop.after")>>, t)
            /\ UNCHANGED <<ip, woken, fready, note, pollPending>>
       [] pc[t] = "wu_before" ->
            \* (variant wakeup_coalesced: wakeup() notifies only if no earlier wake-up is still marked as pending; the mark
            \*  is cleared when the loop is about to wait, long after the notification itself was consumed)
            /\ note' = (IF "wakeup_coalesced" \in Variants /\ wpend THEN note ELSE TRUE) /\ pc' = [pc EXCEPT ![t] = "wu_after"] /\ Emit(<<Y(t, "signal.wakeup.after")>>, t)
            /\ UNCHANGED <<ip, woken, stop, fready, pollPending>>
       [] pc[t] = "k_before" ->
            \* the waker: store(future_ready, true) ...
            /\ IF "notify_before_store" \in Variants THEN note' = TRUE /\ fready' = fready /\ pollPending' = pollPending
               ELSE fready' = TRUE /\ pollPending' = TRUE /\ note' = note
            /\ pc' = [pc EXCEPT ![t] = "k_between"] /\ Emit(<<Y(t, "blockon.wake.between")>>, t) /\ UNCHANGED <<ip, woken, stop>>
       [] pc[t] = "k_between" ->
            \* ... then notify()
            /\ IF "notify_before_store" \in Variants THEN fready' = TRUE /\ pollPending' = TRUE /\ note' = note
               ELSE note' = TRUE /\ fready' = fready /\ pollPending' = pollPending
            /\ LET r == RunTo(t, ip[t] + 1, woken, <<Ret(t, ip[t] - 1, "wake", "ok")>>) IN Apply(t, r) /\ Emit(r.evs, t)
            /\ UNCHANGED stop
       [] OTHER -> \* st_after / wu_after: the call returns
            LET r == RunTo(t, ip[t] + 1, woken, <<Ret(t, ip[t] - 1, Scripts[t][ip[t]], "ok")>>) IN
            Apply(t, r) /\ Emit(r.evs, t) /\ UNCHANGED <<stop, fready, note, pollPending>>
  /\ wpend' = (IF pc[t] = "wu_before" /\ "wakeup_coalesced" \in Variants THEN TRUE ELSE wpend)
  /\ UNCHANGED <<lpc, hasWaker, out, niter, finished, everBlocked>>

LRet(extra) == [e |-> "lret", op |-> LoopOp, k |-> 0, r |-> "ok"] @@ extra
\* the loop operation returned: the loop thread goes on to the barrier
\* (block_on drops the future it was given when it returns)
LoopReturned(evs) == /\ lpc' = "barrier" /\ Emit(evs \o <<Y(0, "barrier")>>, Loop)
FDrop == IF Mode = "blockon" THEN <<[e |-> "fdrop", f |-> 0, on_loop |-> 1]>> ELSE <<>>

LoopStep ==
  /\ lpc \notin {"barrier", "done", "waiting"}
  /\ CASE lpc = "start" ->
            \* the reset of the stop flag (and, for block_on, future_ready := true)
            /\ stop' = FALSE /\ fready' = (Mode = "blockon" \/ fready) /\ lpc' = "check"
            /\ Emit(<<[e |-> "lcall", op |-> LoopOp, k |-> 0, f |-> 0, need |-> Need],
                      Y(0, IF Mode = "run" THEN "loop.run.before_stop_check" ELSE "blockon.before_stop_check")>>, Loop)
            /\ UNCHANGED <<note, hasWaker, out, niter, pollPending>>
       [] lpc = "check" ->
            \* (variant poll_before_stop: block_on looks at the stop flag only when the future is still pending)
            IF stop /\ ~("poll_before_stop" \in Variants /\ Mode = "blockon" /\ fready)
            THEN /\ out' = -1 /\ LoopReturned(FDrop \o <<LRet(IF Mode = "run" THEN [iters |-> niter] ELSE [out |-> -1])>>)
                 /\ UNCHANGED <<stop, fready, note, hasWaker, niter, pollPending>>
            ELSE /\ lpc' = IF Mode = "run" THEN "iter" ELSE "swap"
                 /\ Emit(<<Y(0, IF Mode = "run" THEN "loop.run.iter_begin" ELSE "blockon.before_swap")>>, Loop)
                 /\ UNCHANGED <<stop, fready, note, hasWaker, out, niter, pollPending>>
       [] lpc = "iter" ->
            /\ lpc' = "wait_before" /\ Emit(<<Y(0, "loop.wait.before")>>, Loop)
            /\ UNCHANGED <<stop, fready, note, hasWaker, out, niter, pollPending>>
       [] lpc = "swap" ->
            \* if swap(future_ready, false) { poll }
            IF fready
            THEN IF woken >= Need
                 THEN /\ fready' = FALSE /\ pollPending' = FALSE /\ out' = 0
                      /\ LoopReturned(<<[e |-> "poll", f |-> 0, woken |-> woken, on_loop |-> 1]>> \o FDrop \o <<LRet([out |-> 0])>>)
                      /\ UNCHANGED <<stop, note, hasWaker, niter>>
                 ELSE /\ fready' = (IF "swap_after_poll" \in Variants THEN fready ELSE FALSE) /\ pollPending' = FALSE
                      /\ hasWaker' = TRUE /\ lpc' = "inpoll"
                      /\ Emit(<<[e |-> "poll", f |-> 0, woken |-> woken, on_loop |-> 1], Y(0, "user.poll")>>, Loop)
                      /\ UNCHANGED <<stop, note, out, niter>>
            ELSE IF "poll_before_stop" \in Variants /\ stop
                 THEN /\ out' = -1 /\ LoopReturned(FDrop \o <<LRet([out |-> -1])>>)
                      /\ UNCHANGED <<stop, fready, note, hasWaker, niter, pollPending>>
                 ELSE /\ lpc' = "wait_before" /\ Emit(<<Y(0, "loop.wait.before")>>, Loop)
                      /\ UNCHANGED <<stop, fready, note, hasWaker, out, niter, pollPending>>
       [] lpc = "inpoll" ->
            \* the poll returns Pending; (variant: the flag is only cleared now, after the poll)
            /\ fready' = (IF "swap_after_poll" \in Variants THEN FALSE ELSE fready)
            /\ IF "poll_before_stop" \in Variants /\ stop
               THEN /\ out' = -1 /\ LoopReturned(FDrop \o <<LRet([out |-> -1])>>) /\ UNCHANGED <<stop, note, hasWaker, niter, pollPending>>
               ELSE /\ lpc' = "wait_before" /\ Emit(<<Y(0, "loop.wait.before")>>, Loop)
                    /\ UNCHANGED <<stop, note, hasWaker, out, niter, pollPending>>
       [] lpc = "wait_before" ->
            \* Poller::wait(None): returns at once if a notification is pending, else blocks
            IF note THEN /\ note' = FALSE /\ lpc' = "wait_after" /\ Emit(<<Y(0, "loop.wait.after")>>, Loop)
                         /\ UNCHANGED <<stop, fready, hasWaker, out, niter, pollPending>>
            ELSE /\ lpc' = "waiting" /\ Emit(<<>>, Loop) /\ UNCHANGED <<stop, fready, note, hasWaker, out, niter, pollPending>>
       [] OTHER -> \* "wait_after": the dispatch returns; idles; per-iteration closure
            /\ niter' = niter + 1 /\ lpc' = "check"
            /\ Emit(<<[e |-> "iter", n |-> IF Mode = "run" THEN niter + 1 ELSE 0],
                      Y(0, IF Mode = "run" THEN "loop.run.before_stop_check" ELSE "blockon.before_stop_check")>>, Loop)
            /\ UNCHANGED <<stop, fready, note, hasWaker, out, pollPending>>
  /\ everBlocked' = (everBlocked \/ lpc' = "waiting")
  /\ wpend' = (IF lpc = "wait_before" THEN FALSE ELSE wpend)
  /\ UNCHANGED <<pc, ip, woken, finished>>

\* the blocked wait returns once a notification arrives (not a scheduler step: the thread wakes by itself)
LoopWake ==
  /\ lpc = "waiting" /\ note
  /\ note' = FALSE /\ lpc' = "wait_after" /\ Emit(<<Y(0, "loop.wait.after")>>, Loop)
  /\ UNCHANGED <<stop, fready, pc, ip, woken, hasWaker, out, niter, finished, pollPending, everBlocked, wpend>>

WorkersDone == \A t \in T : pc[t] = "done"
Final ==
  /\ ~finished /\ WorkersDone
  /\ \/ lpc = "barrier" /\ Emit(<<[e |-> "loop_done"], [e |-> "end", id |-> "model", stuck |-> 0, loop_ok |-> 1]>>, Loop)
     \/ lpc = "waiting" /\ ~note /\ Emit(<<[e |-> "loop_stuck"], [e |-> "end", id |-> "model", stuck |-> 0, loop_ok |-> 0]>>, Loop)
  /\ finished' = TRUE /\ lpc' = IF lpc = "barrier" THEN "done" ELSE lpc
  /\ UNCHANGED <<stop, fready, note, pc, ip, woken, hasWaker, out, niter, pollPending, everBlocked, wpend>>

Next == (\E t \in T : WorkerStep(t)) \/ LoopStep \/ LoopWake \/ Final
Spec == Init /\ [][Next]_vars

Inv_C11 == {v \in mon.viol : v.p = "C11"} = {}

(***************************************************************************)
(* State invariants.                                                       *)
(***************************************************************************)
\* a completed waker store is never forgotten: the flag stays set until a poll starts
WakeFlagKept == pollPending => fready
\* the loop never sleeps on a pending poll request or stop request without a notification on its way
NoSleepOnPending ==
  (lpc = "waiting" /\ ~note /\ (fready \/ FALSE)) => \E t \in T : pc[t] \in {"k_between"} \/ ("notify_before_store" \in Variants /\ FALSE)
\* run()/block_on() return None / Ok only after a stop request
NoSpuriousReturn == (out = -1) => stop
\* the future's output is returned only when it completed
OutputOnlyIfComplete == (out = 0) => woken >= Need
SInv_C11 == WakeFlagKept /\ NoSleepOnPending /\ NoSpuriousReturn /\ OutputOnlyIfComplete
\* end-to-end form (used to obtain *complete* counterexample schedules from the variants)
EndInv == finished => Inv_C11
Done == finished
=============================================================================
