SPECIFICATION TSpec
CONSTANTS
  NChildren = 3
  KindSets = {}
  Inits = {}
  MaxLen = 0
  MaxChanges = 2
  MaxUser = 1
  AfterChange = "rereg_only"
  ReEnable = TRUE
  Variants = {}
  Ignore = {}
INVARIANT Verdict
POSTCONDITION Consumed
CHECK_DEADLOCK FALSE
