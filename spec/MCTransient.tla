---------------------------- MODULE MCTransient ----------------------------
(* Model-checking shell for Transient.tla: constant definitions for the .cfg files and the graph dump *)
(* (every edge  state --call--> state  of the bounded model, from which the engine derives the call   *)
(* sequences that are replayed on the real crate).                                                    *)
EXTENDS Transient, Json

CONSTANT RecordEdges

\* child-kind assignments (child 1 is the From<T> child; the others arrive through replace())
Kinds3Q   == {<<"fd", "fd", "fd">>, <<"tm", "tm", "tm">>, <<"fd", "tm", "fd">>, <<"tm", "fd", "tm">>}
Kinds3All == [1..3 -> {"fd", "tm"}]
Kinds4All == [1..4 -> {"fd", "tm"}]
Kinds5All == [1..5 -> {"fd", "tm"}]
KindsFd3  == {<<"fd", "fd", "fd">>}
BothInits == {"from", "default"}
FromOnly  == {"from"}
NoVariants == {}
NoIgnore == {}
\* the clause names of the findings recorded in /verif/known_findings.json (KF-C18-disable-forgets-unregistered)
KnownO9 == {"child_unregistered_twice_after_disable", "removed_child_unregistered_twice",
            "replaced_child_unregistered_twice"}

Abs == [st |-> st, cur |-> cur, old |-> old, reg |-> reg, dropped |-> dropped, kind |-> kind,
        preg |-> preg, pend |-> pend, upend |-> upend, fresh |-> fresh]

InitP == Init /\ (RecordEdges => PrintT(<<"INIT", ToJson(Abs)>>))
SpecP == InitP /\ [][Next]_vars

\* ACTION_CONSTRAINT: prints every transition TLC generates (always TRUE)
EdgeOut == RecordEdges =>
             PrintT(<<"EDGE", ToJson([s |-> Abs, call |-> last'.call, t |-> Abs', evs |-> last'.evs,
                                      ret |-> last'.ret, viol |-> last'.viol])>>)

\* prints the violated clauses together with the violating call (the engine reads it)
Inv_C18_report == Inv_C18 \/ (PrintT(<<"C18VIOL", ToJson([viol |-> last.viol \ Ignore, call |-> last.call, pre |-> last.pre])>>) /\ FALSE)
=============================================================================
