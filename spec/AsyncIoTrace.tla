---------------------------- MODULE AsyncIoTrace ----------------------------
(* Trace validation for C17: feeds a trace recorded by harness/src/bin/drive_asyncio.rs from the real        *)
(* calloop::io::Async (a real EventLoop, a real Executor, a real socket pair) through the operators of        *)
(* AsyncIo.tla, one logged event per step.                                                                    *)
(*                                                                                                           *)
(* The shadow state `sh.st` is a state record of AsyncIo.tla.  For every event the specification applies the   *)
(* model's operator for that step -- DoAdapt, DoSpawn, PeerWrite/PeerRead/PeerClose, DispBegin (epoll_wait),   *)
(* IoEvent (process_events), ExecBegin, OpStart/PollCur (one poll_read / poll_write / readable / writable),    *)
(* TaskDone, Settle, DoDrop -- and compares what it PREDICTS with what the driver OBSERVED:                    *)
(*   the adapter's epoll entry in the kernel's table (/proc/self/fdinfo: present, r, w, oneshot, armed),       *)
(*   O_NONBLOCK of every fd (fcntl F_GETFL), the loop's occupied slots, the task states, the wakers woken by   *)
(*   each event, the result of readable()/writable():                   clause  Mismatch_<what>   (p = C17)   *)
(*   what the kernel did (bytes moved by read/write, the batch of epoll_wait): Env_<what>  (p = C17_env:      *)
(*   the kernel model of AsyncIo.tla -- FIFO of `cap` blocks, POLLOUT low-water `lw` -- not the adapter).      *)
(* Non-deterministic choices of the model (order of the batch, outcome of a read/write) are resolved by the    *)
(* observation and the shadow state continues from the observed values.                                       *)
(*                                                                                                           *)
(* Independently the property clauses of C17 are evaluated on the observed values:                            *)
(*   Exact      bytes_differ (a read returned something else than the next bytes written, in order),          *)
(*              digest_differs (same number of bytes, different content), at `end` rcvd is a prefix of sent   *)
(*   NeverStuck parked_not_armed (a poll returned Pending and the kernel's entry is not armed for the bit),   *)
(*              task_stuck (after a dispatch a parked task has lost its waker or its registration)            *)
(*   Woken      task_not_woken_on_event (process_events ran for the bit a task waits for, its waker did not), *)
(*              task_never_woken / task_never_run (at the end, after the driver dispatched until nothing was  *)
(*              left to do, a task is parked although the kernel reports its fd ready / runnable but not run), *)
(*              never_quiescent (60 further dispatches and each of them still had an event to process)       *)
(*   Blocking   nonblock_not_set_while_adapted, blocking_mode_not_restored                                    *)
(*   Released   fd_left_in_poller, adapter_not_registered (a live adapter without its entry in the kernel's  *)
(*              table -- also when somebody else deleted it), registration_not_oneshot, foreign_epoll_entry, *)
(*              slot_leaked, failed_adapt_disturbed_live_adapter (an adapt_io of an fd that already has a    *)
(*              live adapter -- EEXIST -- changed that adapter's entry, the slot count or O_NONBLOCK)         *)
(* Not a clause of C17, only counted (p = C17_note): stale_readiness -- readable()/writable() resolved from a  *)
(* last_readiness recorded earlier (poll_read/poll_write do not consume it) although the fd is not ready now. *)
(* The clauses apply to every topology, also to two futures on ONE adapter (split / join; fixed by 0061559).  *)
(*                                                                                                           *)
(* All scenarios of one trace file have the same topology: the constants Tasks, AdOf, Join, B, LowWater are    *)
(* read from the first `reset` event.                                                                         *)
EXTENDS AsyncIo, Json, IOUtils

Rec == ndJsonDeserialize(IOEnv.TRACE)

VARIABLES l, sh
tvars == <<l, sh>>

ToSet(q) == {q[i] : i \in DOMAIN q}

\* ---- the constants of AsyncIo.tla, from the first event
TrTasks  == {Rec[1].tasks[i][1] : i \in DOMAIN Rec[1].tasks}
TrAdOf   == [t \in TrTasks |-> LET i == CHOOSE j \in DOMAIN Rec[1].tasks : Rec[1].tasks[j][1] = t IN Rec[1].tasks[i][2]]
TrKinds  == [t \in TrTasks |-> {"read", "write", "readable", "writable"}]
TrJoin   == Rec[1].join = 1
TrB      == Rec[1].cap
TrLow    == Rec[1].lw
TrAdapted == ToSet(Rec[1].adapted)

SameTopology(ev) ==
  /\ ev.tasks = Rec[1].tasks /\ ev.join = Rec[1].join /\ ev.cap = Rec[1].cap /\ ev.lw = Rec[1].lw

Nb0(ev) == [f \in Fds |-> ev.nb0[f] = 1]
\* `seen`: the clauses already reported for the current scenario (each clause is reported once per scenario, at its first line)
Empty == [scn |-> "none", nscn |-> 0, misuse |-> 0, bad |-> FALSE, occ0 |-> 0, st |-> Init0([f \in Fds |-> FALSE]), viol |-> {}, seen |-> {}]

V(c, ln, scn)  == [p |-> "C17", c |-> c, l |-> ln, scn |-> scn]
VE(c, ln, scn) == [p |-> "C17_env", c |-> c, l |-> ln, scn |-> scn]
\* a step outside the protocol of the model (not judged; counted, and named for diagnosis)
Outside(s0, ev, ln) == [s0 EXCEPT !.misuse = @ + 1, !.bad = TRUE,
                                  !.viol = @ \cup {[p |-> "C17_outside", c |-> "outside_" \o ev.e, l |-> ln, scn |-> s0.scn]}]
Add(s0, ln, cs, es) ==
  IF cs \subseteq s0.seen /\ es \subseteq s0.seen THEN s0
  ELSE [s0 EXCEPT !.viol = @ \cup {V(c, ln, s0.scn) : c \in cs \ s0.seen} \cup {VE(c, ln, s0.scn) : c \in es \ s0.seen},
                  !.seen = @ \cup cs \cup es]
\* an observation that is no clause of C17 (counted by the engine, reported in its notes)
Note(s0, ln, ns) ==
  IF ns \subseteq s0.seen THEN s0
  ELSE [s0 EXCEPT !.viol = @ \cup {[p |-> "C17_note", c |-> c, l |-> ln, scn |-> s0.scn] : c \in ns \ s0.seen}, !.seen = @ \cup ns]

\* ------------------------------------------------------------------ comparing an observation with a model state
ObsState(x) == CASE x = "pending" -> "parked" [] x = "woken" -> "runnable" [] OTHER -> x

\* the epoll entry [present, r, w, oneshot, armed] of end e against the model's entry
EpMatches(o, m) ==
  IF m.reg THEN o[1] = 1 /\ (o[2] = 1) = ("r" \in m.int) /\ (o[3] = 1) = ("w" \in m.int) /\ (o[5] = 1) = m.armed
  ELSE o[1] = 0

EpClauses(s, ev) ==
  UNION {
    (IF ~EpMatches(ev.ep[e], s.ep[e]) THEN {"Mismatch_epoll"} ELSE {})
    \cup (IF ~s.ad[e].live /\ ev.ep[e][1] = 1 THEN {"fd_left_in_poller"} ELSE {})
    \cup (IF s.ad[e].live /\ ev.ep[e][1] = 0 THEN {"adapter_not_registered"} ELSE {})
    \cup (IF ev.ep[e][1] = 1 /\ ev.ep[e][4] = 0 THEN {"registration_not_oneshot"} ELSE {})
    : e \in Ends}
  \cup (IF ev.ep[3][1] = 1 THEN {"fd_left_in_poller"} ELSE {})
  \cup (IF ev.xep # 0 THEN {"foreign_epoll_entry"} ELSE {})

NbClauses(s, ev) ==
  UNION {
    IF ev.nb[f] = -1 THEN {}
    ELSE IF s.ad[f].live THEN (IF ev.nb[f] # 1 THEN {"nonblock_not_set_while_adapted"} ELSE {})
    ELSE (IF (ev.nb[f] = 1) # s.base[f] THEN {"blocking_mode_not_restored"} ELSE {})
    : f \in Fds}

OccClauses(s0, s, ev) ==
  IF ev.occ = s0.occ0 + s.occ THEN {}
  ELSE IF ev.occ > s0.occ0 + Cardinality({f \in Fds : s.ad[f].live}) THEN {"slot_leaked"} ELSE {"Mismatch_occupied"}

TsClauses(s, ev) ==
  IF \E i \in DOMAIN ev.ts : ev.ts[i][1] \in Tasks /\ ObsState(ev.ts[i][2]) # s.ts[ev.ts[i][1]]
  THEN {"Mismatch_task_state"} ELSE {}

ObsClauses(s0, s, ev) == EpClauses(s, ev) \cup NbClauses(s, ev) \cup OccClauses(s0, s, ev) \cup TsClauses(s, ev)

\* the shadow continues from the kernel's table as it was OBSERVED (so that NeverStuck / Woken below are evaluated on the
\* observed registration, not on the predicted one; a difference was reported as Mismatch_epoll)
ObsEp(o) == [reg |-> o[1] = 1, int |-> (IF o[2] = 1 THEN {"r"} ELSE {}) \cup (IF o[3] = 1 THEN {"w"} ELSE {}), armed |-> o[5] = 1]
WithObsEp(s, ev) == [s EXCEPT !.ep = [f \in Fds |-> IF f \in Ends THEN ObsEp(ev.ep[f]) ELSE @[f]]]

\* NeverStuck / Woken on the shadow state (which follows the observations)
StuckClauses(s) == IF StuckTasks(s) # {} THEN {"task_stuck"} ELSE {}
QuiescentClauses(s) ==
  (IF \E t \in Tasks : s.ts[t] = "parked" /\ KReady(s, AdOf[t], s.wait[t]) THEN {"task_never_woken"} ELSE {})
  \cup (IF \E t \in Tasks : s.ts[t] = "runnable" THEN {"task_never_run"} ELSE {})

Without(q, x) ==
  IF \E i \in DOMAIN q : q[i] = x
  THEN LET i == CHOOSE j \in DOMAIN q : q[j] = x /\ \A k \in 1..(j - 1) : q[k] # x
       IN SubSeq(q, 1, i - 1) \o SubSeq(q, i + 1, Len(q))
  ELSE q
ToFront(q, x) == <<x>> \o Without(q, x)

\* ------------------------------------------------------------------------------------------------ the steps
StepAdapt(s0, ev, ln) ==
  LET pre == s0.st  f == ev.f IN
  IF ev.r = "misuse" \/ pre.pc # "idle" \/ pre.ad[f].live THEN Outside(s0, ev, ln)
  ELSE
  LET pred == DoAdapt(pre, f)
      okp  == ~AdaptFails(pre, f)
      cs   == (IF (ev.r = "ok") # okp THEN {"Mismatch_adapt_result"} ELSE {})
              \cup (IF ev.r = "panic" THEN {"panic"} ELSE {})
              \cup ObsClauses(s0, pred, ev)
      es   == IF ev.nbb # -1 /\ (ev.nbb = 1) # pre.nb[f] THEN {"Env_nonblock_before"} ELSE {}
  IN Add([s0 EXCEPT !.st = pred], ln, cs, es)

\* adapt_io of an fd whose adapter is alive: must fail and change nothing
StepAdaptAgain(s0, ev, ln) ==
  LET pre == s0.st  f == ev.f IN
  IF ev.r = "misuse" \/ pre.pc # "idle" \/ f \notin Ends \/ ~pre.ad[f].live THEN Outside(s0, ev, ln)
  ELSE
  LET pred == DoAdaptAgain(pre, f)
      oc   == ObsClauses(s0, pred, ev)
      cs   == (IF ev.r # "err" THEN {"Mismatch_adapt_result"} ELSE {})
              \cup (IF ev.r = "panic" THEN {"panic"} ELSE {})
              \cup oc
              \cup (IF ~EpMatches(ev.ep[f], pre.ep[f]) \/ ev.occ # s0.occ0 + pre.occ \/ ev.nb[f] # 1
                    THEN {"failed_adapt_disturbed_live_adapter"} ELSE {})
  IN Add([s0 EXCEPT !.st = pred], ln, cs, IF ev.r = "err" /\ ev.errno # 17 THEN {"Env_adapt_errno"} ELSE {})

StepDrop(s0, ev, ln) ==
  LET pre == s0.st  f == ev.f IN
  IF ev.r = "misuse" \/ pre.pc # "idle" \/ ~pre.ad[f].live
     \/ \E t \in Tasks : AdOf[t] = f /\ pre.ts[t] \notin {"new", "done"}
  THEN Outside(s0, ev, ln)
  ELSE LET pred == DoDrop(pre, f)
       IN Add([s0 EXCEPT !.st = pred], ln, (IF ev.r # "ok" THEN {"panic"} ELSE {}) \cup ObsClauses(s0, pred, ev), {})

StepSpawn(s0, ev, ln) ==
  LET pre == s0.st
      T   == IF ev.t = "J" THEN Tasks ELSE {ev.t} \cap Tasks
  IN IF T = {} \/ pre.pc # "idle" \/ \E t \in T : pre.ts[t] # "new" \/ ~pre.ad[AdOf[t]].live
     THEN Outside(s0, ev, ln)
     ELSE LET pred == DoSpawn(pre, T)
          IN Add([s0 EXCEPT !.st = pred], ln, (IF ev.r # "ok" THEN {"panic"} ELSE {}) \cup ObsClauses(s0, pred, ev), {})

\* a parked task is woken from outside and will drop its pending operation
StepAbandon(s0, ev, ln) ==
  LET pre == s0.st  t == ev.t IN
  IF ev.r # "ok" \/ pre.pc # "idle" \/ Join \/ t \notin Tasks THEN Outside(s0, ev, ln)
  ELSE IF pre.ts[t] # "parked" THEN Add(s0, ln, {"Mismatch_task_state"}, {})
  ELSE LET pred == DoAbandon(pre, t)
       IN Add([s0 EXCEPT !.st = pred], ln, ObsClauses(s0, pred, ev), {})

StepAbandoned(s0, ev, ln) ==
  LET pre0 == s0.st  t == ev.t IN
  IF t \notin Tasks \/ pre0.pc # "exec" \/ pre0.ts[t] # "runnable" \/ ~pre0.abn[t] THEN Add(s0, ln, {"Mismatch_poll_unexpected"}, {})
  ELSE Add([s0 EXCEPT !.st = Abandoned([pre0 EXCEPT !.runq = ToFront(@, t)], t)], ln,
           IF Head(pre0.runq) # t THEN {"Mismatch_run_order"} ELSE {}, {})

StepPeer(s0, ev, ln) ==
  LET pre == s0.st  p == ev.p IN
  IF ev.r = "misuse" \/ p \notin Ends \/ pre.ad[p].live THEN Outside(s0, ev, ln)
  \* closing with unread data resets the connection (ECONNRESET): outside the kernel model; it happens to a scripted close
  \* when the real order of a batch let a writer put more into the queue than in the model's behaviour
  ELSE IF ev.k = "close" /\ pre.q[p] # <<>> THEN Outside(s0, ev, ln)
  ELSE
  CASE ev.k = "w" ->
         LET want == IF Hup(pre, p) THEN 0 ELSE Min(ev.n, B - Len(pre.q[Other(p)]))
             pred == IF ev.done > 0 /\ ev.r # "err" THEN PeerWrite(pre, p, ev.syms) ELSE pre
         IN Add([s0 EXCEPT !.st = pred], ln,
                (IF ev.r = "misaligned" THEN {"bytes_differ"} ELSE {}) \cup ObsClauses(s0, pred, ev),
                IF ev.r = "err" \/ ev.done # want THEN {"Env_peer_write"} ELSE {})
    [] ev.k = "r" ->
         LET want == Min(ev.n, Len(pre.q[p]))
             got  == IF ev.r = "err" THEN 0 ELSE ev.done
             pred == [pre EXCEPT !.q[p] = Drop_(@, got), !.rcvd[p] = @ \o ev.syms, !.npeer = @ + 1]
         IN Add([s0 EXCEPT !.st = pred], ln,
                (IF ev.r = "misaligned" \/ ev.syms # Take(pre.q[p], got) THEN {"bytes_differ"} ELSE {})
                \cup ObsClauses(s0, pred, ev),
                IF ev.r = "err" \/ got # want THEN {"Env_peer_read"} ELSE {})
    [] OTHER ->
         LET pred == PeerClose(pre, p)
         IN Add([s0 EXCEPT !.st = pred], ln, ObsClauses(s0, pred, ev), {})

StepBatch(s0, ev, ln) ==
  LET pre   == s0.st
      order == SelectSeq(ev.evs, LAMBDA x : x \in {0, 1, 2})
      pred  == DispBegin(pre, order)
  IN IF pre.pc # "idle" THEN Add(s0, ln, {"Mismatch_batch_nested"}, {})
     ELSE Add([s0 EXCEPT !.st = pred], ln,
              IF Len(order) # Cardinality(ToSet(order)) \/ Len(order) # Len(ev.evs) THEN {"Mismatch_batch"} ELSE {},
              IF ToSet(order) # EvSet(pre) THEN {"Env_batch"} ELSE {})

StepIoEv(s0, ev, ln) ==
  LET pre0 == s0.st
      a    == ev.a
  IN IF a \notin Ends \/ pre0.pc # "batch" \/ ~InFlight(pre0, a) THEN Add(s0, ln, {"Mismatch_io_event"}, {})
  ELSE
  LET pre  == [pre0 EXCEPT !.batch = ToFront(@, a)]
      rd   == pre.evrd[a]
      wsP  == IF pre.ad[a].live THEN WokenBy(pre, a, rd) ELSE {}
      wsO  == ToSet(ev.woke)
      pred == IoEventW(pre, wsO)       \* the shadow follows the wakes that were observed
      \* tasks that wait on this adapter for a bit that was reported, and whose waker was not woken
      lost == {t \in Tasks : pre.ts[t] = "parked" /\ AdOf[t] = a /\ pre.wait[t] \in rd /\ Wk(t) \notin wsO}
      cs   == (IF Head(pre0.batch) # a THEN {"Mismatch_batch_order"} ELSE {})
              \cup (IF (ev.found = 1) # pre.ad[a].live THEN {"Mismatch_lookup"} ELSE {})
              \cup (IF wsO # wsP THEN {"Mismatch_wake"} ELSE {})
              \cup (IF lost # {} THEN {"task_not_woken_on_event"} ELSE {})
              \* the driver reads the kernel's entry when process_events has returned and BEFORE the loop applies its
              \* PostAction::Reregister: process_events itself does not touch the poller, the renewed registration is
              \* compared at the end of the dispatch (dispd) and at the next poll of a task on this adapter
              \cup (IF ev.found = 1 /\ ~EpMatches(ev.ep, pre.ep[a]) THEN {"Mismatch_epoll"} ELSE {})
  IN Add([s0 EXCEPT !.st = pred], ln, cs, {})

StepExecBegin(s0, ev, ln) ==
  LET pre == s0.st IN
  IF pre.pc # "batch" \/ ~InFlight(pre, 0) THEN Add(s0, ln, {"Mismatch_exec_event"}, {})
  ELSE Add([s0 EXCEPT !.st = ExecBegin([pre EXCEPT !.batch = ToFront(@, 0)])], ln,
           IF Head(pre.batch) # 0 THEN {"Mismatch_batch_order"} ELSE {}, {})

StepPoll(s0, ev, ln) ==
  LET pre0 == s0.st  t == ev.t IN
  IF ev.r = "noadapter" \/ t \notin Tasks THEN Outside(s0, ev, ln)
  \* one waker per direction: a second task starting to wait for a direction that another task of the adapter is waiting
  \* for is outside the protocol (reached when the real order of a batch differs from the model's behaviour)
  ELSE IF pre0.cur[t] = NoOp /\ BitBusy(pre0, t, WaitBit(ev.op)) THEN Outside(s0, ev, ln)
  ELSE IF pre0.pc # "exec" \/ pre0.ts[t] # "runnable" \/ pre0.abn[t] THEN Add(s0, ln, {"Mismatch_poll_unexpected"}, {})
  ELSE
  LET pre  == [pre0 EXCEPT !.runq = ToFront(@, t)]
      op   == [k |-> ev.op, n |-> ev.n]
      s1   == IF pre.cur[t] = NoOp THEN OpStart(pre, t, op) ELSE pre
      a    == AdOf[t]
      kP   == ReadyK(s1, t, op)
      kO   == CASE ev.r = "pending" -> -1 [] ev.r \in {"ready", "misaligned"} -> ev.k [] OTHER -> -2
      io   == op.k \in {"read", "write"}
      \* Exact: a read returns the next bytes of the queue, in order
      bad  == \/ ev.r = "misaligned"
              \/ op.k = "read" /\ kO > 0 /\ ev.syms # Take(s1.q[a], kO)
              \/ op.k = "write" /\ kO > 0 /\ Len(ev.syms) # kO
      s2   == IF op.k = "read" /\ kO > 0
              THEN OpReady([s1 EXCEPT !.q[a] = Drop_(@, kO), !.rcvd[a] = @ \o ev.syms], t)
              ELSE PollCur(s1, t, kO, IF op.k = "write" /\ kO > 0 THEN ev.syms ELSE <<>>)
      x    == WaitBit(op.k)
      o    == ev.ep
      armedOk == o[1] = 1 /\ o[5] = 1 /\ (IF x = "r" THEN o[2] = 1 ELSE o[3] = 1)
      cs   == (IF pre0.runq = <<>> \/ Head(pre0.runq) # t THEN {"Mismatch_run_order"} ELSE {})
              \cup (IF pre.cur[t] # NoOp /\ pre.cur[t] # op THEN {"Mismatch_op"} ELSE {})
              \cup (IF ev.r = "panic" THEN {"panic"} ELSE {})
              \cup (IF ~io /\ kO # kP THEN {"Mismatch_readiness_result"} ELSE {})
              \cup (IF bad THEN {"bytes_differ"} ELSE {})
              \cup (IF kO = -1 /\ ~armedOk THEN {"parked_not_armed"} ELSE {})
              \cup (IF ~EpMatches(o, s2.ep[a]) THEN {"Mismatch_epoll"} ELSE {})
      es   == IF io /\ kO # kP THEN {"Env_io_result"} ELSE {}
      \* readable()/writable() resolved from a readiness recorded earlier although the kernel does not report the fd ready now
      ns   == IF ~io /\ kO = 1 /\ ~KReady(s1, a, x) THEN {"stale_readiness"} ELSE {}
  IN Note(Add([s0 EXCEPT !.st = s2], ln, cs, es), ln, ns)

StepTdone(s0, ev, ln) ==
  LET pre0 == s0.st  t == ev.t IN
  IF t \notin Tasks \/ pre0.pc # "exec" \/ pre0.ts[t] # "runnable" THEN Add(s0, ln, {"Mismatch_tdone_unexpected"}, {})
  ELSE LET pre == [pre0 EXCEPT !.runq = ToFront(@, t)]
       IN Add([s0 EXCEPT !.st = TaskDone(pre, t)], ln,
              (IF Head(pre0.runq) # t THEN {"Mismatch_run_order"} ELSE {})
              \cup (IF pre.cur[t] # NoOp THEN {"Mismatch_op"} ELSE {}), {})

StepExecEnd(s0, ev, ln) ==
  LET pre == s0.st IN
  IF pre.pc # "exec" THEN Add(s0, ln, {"Mismatch_exec_event"}, {})
  ELSE Add([s0 EXCEPT !.st = [pre EXCEPT !.pc = "batch", !.batch = Tail(@)]], ln,
           IF pre.runq # <<>> THEN {"Mismatch_exec_left"} ELSE {}, {})

StepDispd(s0, ev, ln) ==
  LET pre  == s0.st
      pred == [pre EXCEPT !.pc = "idle", !.batch = <<>>]
      obs  == WithObsEp(pred, ev)
  IN Add([s0 EXCEPT !.st = obs], ln,
         (IF pre.pc = "exec" \/ pre.batch # <<>> THEN {"Mismatch_batch_left"} ELSE {})
         \cup (IF ev.r # "ok" THEN {"dispatch_failed"} ELSE {})
         \cup ObsClauses(s0, pred, ev) \cup StuckClauses(obs), {})

StepEnd(s0, ev, ln) ==
  LET s == WithObsEp(s0.st, ev)
      cs == UNION {
              (IF ~IsPrefix(ev.rcvd[e], ev.sent[e]) \/ \E i \in DOMAIN ev.rcvd[e] : ev.rcvd[e][i] = -1 THEN {"bytes_differ"} ELSE {})
              \cup (IF ev.brcvd[e] = ev.bsent[e] /\ ev.hrcvd[e] # ev.hsent[e] THEN {"digest_differs"} ELSE {})
              \cup (IF ev.brcvd[e] > ev.bsent[e] THEN {"bytes_differ"} ELSE {})
              \cup (IF ev.sent[e] # s.sent[e] \/ ev.rcvd[e] # s.rcvd[e] THEN {"Mismatch_data"} ELSE {})
              : e \in Ends}
            \cup ObsClauses(s0, s0.st, ev)
            \cup StuckClauses(s)
            \cup (IF Quiescent(s) THEN QuiescentClauses(s) ELSE {"never_quiescent"})
  IN Add(s0, ln, cs, {})

Step(s0, ev, ln) ==
  IF ev.e = "reset"
  THEN IF SameTopology(ev)
       THEN [Empty EXCEPT !.scn = ev.id, !.nscn = s0.nscn + 1, !.misuse = s0.misuse, !.viol = s0.viol,
                          !.occ0 = ev.occ0, !.st = Init0(Nb0(ev))]
       ELSE [Empty EXCEPT !.scn = ev.id, !.nscn = s0.nscn + 1, !.misuse = s0.misuse + 1, !.viol = s0.viol, !.bad = TRUE]
  ELSE IF s0.bad THEN s0          \* after a step outside the protocol the rest of the scenario is not judged
  ELSE CASE ev.e = "adapt"      -> StepAdapt(s0, ev, ln)
         [] ev.e = "adapt2"     -> StepAdaptAgain(s0, ev, ln)
         [] ev.e = "drop"       -> StepDrop(s0, ev, ln)
         [] ev.e = "spawn"      -> StepSpawn(s0, ev, ln)
         [] ev.e = "abandon"    -> StepAbandon(s0, ev, ln)
         [] ev.e = "abandoned"  -> StepAbandoned(s0, ev, ln)
         [] ev.e = "peer"       -> StepPeer(s0, ev, ln)
         [] ev.e = "batch"      -> StepBatch(s0, ev, ln)
         [] ev.e = "io"         -> StepIoEv(s0, ev, ln)
         [] ev.e = "exec_begin" -> StepExecBegin(s0, ev, ln)
         [] ev.e = "poll"       -> StepPoll(s0, ev, ln)
         [] ev.e = "tdone"      -> StepTdone(s0, ev, ln)
         [] ev.e = "exec_end"   -> StepExecEnd(s0, ev, ln)
         [] ev.e = "dispd"      -> StepDispd(s0, ev, ln)
         [] ev.e = "end"        -> StepEnd(s0, ev, ln)
         [] ev.e = "wake_stray" -> Add(s0, ln, {"Mismatch_wake"}, {})
         [] OTHER               -> s0

\* (the variables of the transition system of AsyncIo.tla are not used here: they stay at their initial values)
TInit == l = 1 /\ sh = Empty /\ st = Init0([f \in Fds |-> FALSE]) /\ n = 0 /\ hist = <<>> /\ script = [t \in Tasks |-> <<>>]
TNext == /\ l <= Len(Rec)
         /\ sh' = Step(sh, Rec[l], l)
         /\ l' = l + 1
         /\ UNCHANGED vars
TSpec == TInit /\ [][TNext]_<<tvars, vars>>

\* printed once, in the final state: the verdict that the check driver parses
Verdict == l = Len(Rec) + 1 =>
             PrintT(<<"VERDICT", ToJson([n |-> Len(Rec), scenarios |-> sh.nscn, misuse |-> sh.misuse, viol |-> sh.viol])>>)
\* the whole trace was consumed (Step is total: it never blocks on a well-formed event)
Consumed == TLCGet("stats").diameter = Len(Rec) + 1
=============================================================================
