------------------------------ MODULE MCToken ------------------------------
(* Model-checking shell for Token.tla (property C20).                                              *)
(*                                                                                                 *)
(* Every representable triple is an initial state (codec clauses are evaluated at it); from each, *)
(* the TokenFactory of <<tok[1], tok[2]>> is asked for MaxReq tokens.  Configurations:             *)
(*   mc/token_q.cfg     IB=3 VB=3 SB=3, storage 4 bits     exhaustive, < 30 s                      *)
(*   mc/token_q2.cfg    IB=4 VB=2 SB=3 (unequal widths: a version/sub shift mix-up is visible)     *)
(*   mc/token_limb.cfg  IB=4 VB=2 SB=2 (limb layout, LB=2): limb form = numeric form; token_t_limb: LB=3*)
(*   mc/token_t.cfg     IB=4 VB=4 SB=4  (thorough tier)                                            *)
(*   mc/token_var_*.cfg one wrong behaviour each; TLC must report an Inv_C20_* invariant violated  *)
EXTENDS Token

\* all clause invariants in one list is what the .cfg files name; this is the conjunction for reference
Inv_C20_all == Inv_C20 /\ Inv_C20_factory_boundary /\ Inv_C20_limb_form
=============================================================================
