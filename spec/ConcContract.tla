--------------------------- MODULE ConcContract ---------------------------
(***************************************************************************)
(* Observable-level contracts of the cross-thread protocols:               *)
(*   C03  ping        (eventfd ping source)                                *)
(*   C04  channel     (channel / sync_channel)                             *)
(*   C10  executor    (futures executor)                                   *)
(*   C11  loop signal (LoopSignal::stop/wakeup, run(), block_on())         *)
(* A pure monitor (`CEmpty`, `CStep`) over the events logged by            *)
(* drive_sched: worker calls and returns, loop-thread calls and returns,   *)
(* callbacks, future polls/drops, and the labels of the yield points each  *)
(* thread passes (events "y").  The same monitor is fed by the protocol    *)
(* models (PingProto, ChanProto, ExecProto, SignalProto) on every          *)
(* transition, and by TLC trace validation of real executions.             *)
(***************************************************************************)
EXTENDS Naturals, Integers, Sequences, FiniteSets, TLC

CHas(r, f) == f \in DOMAIN r
CIf(c, set) == IF c THEN set ELSE {}

CEmpty == [
    tfMs |-> -1, tfOut |-> -2, tfElapsed |-> 0,
  scn |-> "none", nscn |-> 0, kind |-> "none", cap |-> -1, idx |-> 0,
  \* worker calls: set of records [t, n, op, at (index of call), ret (index of return or 0), m, f]
  calls |-> {},
  handles |-> 0, dropsStarted |-> 0, dropsDone |-> 0,
  \* ping
  cbIdx |-> <<>>,           \* indices of callback events
  cbDrain |-> <<>>,         \* for each callback: index of the eventfd read that caused it
  cbThisDisp |-> 0, inDisp |-> FALSE, lastDrainAt |-> 0, wroteAt |-> {},   \* <<t, n, index of write.after>>
  curPing |-> <<>>,         \* per thread: n of the ping call in progress
  \* channel
  sentOk |-> {}, delivered |-> <<>>, closedCount |-> 0, announced |-> {},
  \* executor
  scheduled |-> {}, polls |-> {}, done |-> {}, results |-> <<>>, fdropped |-> {}, needOf |-> <<>>, execGone |-> FALSE,
  \* loop signal
  runBegan |-> FALSE, runBeganAt |-> 0, curBeganAt |-> 0, lastCheckAt |-> 0, polledAfterStop |-> FALSE, runRet |-> 0, iters |-> <<>>, blockOut |-> -2, stopCalls |-> {}, blockNeed |-> -1,
  loopScript |-> <<>>, sawRemove |-> FALSE, enabledNow |-> TRUE,
  stuck |-> FALSE, loopStuck |-> FALSE, occupied |-> -1, idleElapsed |-> -1, idleTimeout |-> -1,
  viol |-> {}
]

CallsOf(sh, op) == {c \in sh.calls : c.op = op}
Returned(c) == c.ret # 0

NThreads(ev) == Cardinality(DOMAIN ev.threads)

CFresh(old, ev) ==
  [CEmpty EXCEPT !.scn = ev.id, !.nscn = old.nscn + 1, !.kind = ev.kind, !.cap = ev.cap,
                 !.handles = NThreads(ev), !.loopScript = ev.loop,
                 !.sawRemove = \E i \in DOMAIN ev.loop : ev.loop[i] \in {"remove"},
                 !.viol = old.viol]

(***************************************************************************)
(* Updates.                                                                *)
(***************************************************************************)
CUpd(sh0, ev) ==
  LET sh == [sh0 EXCEPT !.idx = @ + 1]
      i == sh.idx
  IN
  CASE ev.e = "call" ->
         LET c == [t |-> ev.t, n |-> ev.n, op |-> ev.op, at |-> i, ret |-> 0, m |-> 0, f |-> ev.f, r |-> "none"]
         IN [sh EXCEPT !.calls = @ \cup {c},
                       !.dropsStarted = IF ev.op = "drop" THEN @ + 1 ELSE @,
                       !.stopCalls = IF ev.op = "stop" THEN @ \cup {i} ELSE @]
    [] ev.e = "ret" ->
         LET old == {c \in sh.calls : c.t = ev.t /\ c.n = ev.n}
             new == {[c EXCEPT !.ret = i, !.m = ev.m, !.r = ev.r] : c \in old}
         IN [sh EXCEPT !.calls = (@ \ old) \cup new,
                       !.handles = CASE ev.op = "clone" /\ ev.r = "ok" -> @ + 1
                                     [] ev.op = "drop" /\ ev.r = "ok" -> @ - 1
                                     [] OTHER -> @,
                       !.dropsDone = IF ev.op = "drop" /\ ev.r = "ok" THEN @ + 1 ELSE @,
                       !.sentOk = IF ev.op \in {"send", "try_send"} /\ ev.r = "ok" THEN @ \cup {ev.m} ELSE @]
    [] ev.e = "sending" -> [sh EXCEPT !.announced = @ \cup {ev.m}]
    [] ev.e = "y" ->
         CASE ev.l = "ping.write.after" /\ sh.kind = "ping" ->
                \* the write of the ping call in progress on thread ev.t is done
                LET cs == {c \in sh.calls : c.t = ev.t /\ c.op = "ping" /\ c.ret = 0} IN
                [sh EXCEPT !.wroteAt = @ \cup {<<c.t, c.n, i>> : c \in cs}]
           [] ev.l = "ping.drain.after" -> [sh EXCEPT !.lastDrainAt = i]
           [] ev.l = "loop.run.before_stop_check" \/ ev.l = "blockon.before_stop_check" -> [sh EXCEPT !.runBegan = TRUE, !.runBeganAt = IF sh.runBegan THEN @ ELSE i,
                                                                                                                  !.curBeganAt = IF @ = 0 THEN i ELSE @, !.lastCheckAt = i]
           [] OTHER -> sh
    [] ev.e = "cb" ->
         CASE sh.kind = "ping" -> [sh EXCEPT !.cbIdx = Append(@, i), !.cbDrain = Append(@, IF sh.lastDrainAt = 0 THEN i ELSE sh.lastDrainAt),
                                             !.cbThisDisp = @ + 1]
           [] sh.kind = "chan" -> IF ev.p >= 0 THEN [sh EXCEPT !.delivered = Append(@, ev.p)]
                                  ELSE [sh EXCEPT !.closedCount = @ + 1]
           [] sh.kind = "exec" -> [sh EXCEPT !.results = Append(@, ev.p)]
           [] OTHER -> sh
    [] ev.e = "lcall" ->
         CASE ev.op \in {"dispatch", "idle_wait"} -> [sh EXCEPT !.inDisp = TRUE, !.cbThisDisp = 0, !.lastDrainAt = 0]
           [] ev.op = "schedule" -> [sh EXCEPT !.scheduled = @ \cup {<<ev.f, i>>}]
           [] ev.op = "block_on" -> [sh EXCEPT !.blockNeed = ev.need, !.scheduled = @ \cup {<<0, i>>}, !.curBeganAt = 0, !.lastCheckAt = 0]
           \* block_on(TimeoutFuture::from_duration(ms))
           [] ev.op = "block_on_timeout" -> [sh EXCEPT !.tfMs = ev.need]
           [] ev.op = "disable" -> [sh EXCEPT !.enabledNow = FALSE]
           [] ev.op = "enable" -> [sh EXCEPT !.enabledNow = TRUE]
           [] ev.op = "remove" -> [sh EXCEPT !.execGone = sh.kind = "exec"]
           [] OTHER -> sh
    [] ev.e = "lret" ->
         CASE ev.op = "dispatch" -> [sh EXCEPT !.inDisp = FALSE]
           [] ev.op = "idle_wait" -> [sh EXCEPT !.inDisp = FALSE, !.idleElapsed = ev.elapsed_us, !.idleTimeout = ev.timeout_us]
           [] ev.op = "snap" -> [sh EXCEPT !.occupied = ev.occupied]
           [] ev.op = "run" -> [sh EXCEPT !.runRet = i]
           [] ev.op = "block_on" -> [sh EXCEPT !.runRet = i, !.blockOut = IF CHas(ev, "out") THEN ev.out ELSE -2]
           [] ev.op = "block_on_timeout" -> [sh EXCEPT !.runRet = i, !.tfOut = IF CHas(ev, "out") THEN ev.out ELSE -2,
                                                       !.tfElapsed = IF CHas(ev, "elapsed_us") THEN ev.elapsed_us ELSE 0]
           [] OTHER -> sh
    [] ev.e = "iter" -> [sh EXCEPT !.iters = Append(@, i)]
    [] ev.e = "poll" -> [sh EXCEPT !.polls = @ \cup {<<ev.f, i, ev.woken>>},
                                   \* block_on: the stop flag is read between the yield point "before_stop_check" and this poll; a
                                   \* stop() of this block_on that had RETURNED before that yield point was therefore requested first
                                   !.polledAfterStop = @ \/ (sh.blockNeed >= 0 /\ sh.curBeganAt > 0 /\
                                        \E c \in sh.calls : c.op = "stop" /\ c.ret # 0 /\ c.at > sh.curBeganAt /\ c.ret < sh.lastCheckAt)]
    [] ev.e = "fdrop" -> [sh EXCEPT !.fdropped = @ \cup {ev.f}]
    [] ev.e = "stuck" -> [sh EXCEPT !.stuck = TRUE]
    [] ev.e = "loop_stuck" -> [sh EXCEPT !.loopStuck = TRUE]
    [] OTHER -> sh

(***************************************************************************)
(* Violations.                                                             *)
(***************************************************************************)
SenderOf(m) == m \div 1000
LastOf(q) == q[Len(q)]

\* C03 ---------------------------------------------------------------------
PingCbViol(sh) ==
  LET i == sh.idx + 1
      \* a ping that can be the cause of this callback: its call began and no earlier callback started after
      \* its write was certainly complete
      consumed(c) == \E w \in sh.wroteAt : w[1] = c.t /\ w[2] = c.n /\ \E k \in DOMAIN sh.cbDrain : sh.cbDrain[k] > w[3]
      cause == {c \in CallsOf(sh, "ping") : ~consumed(c)}
  IN CIf(cause = {}, {<<"C03", "callback_without_ping">>})
     \cup CIf(sh.cbThisDisp >= 1, {<<"C03", "pings_not_coalesced_in_one_dispatch">>})

PingEndViol(sh) ==
  LET lost == {c \in CallsOf(sh, "ping") : Returned(c) /\ c.r = "ok" /\ ~\E k \in DOMAIN sh.cbIdx : sh.cbIdx[k] > c.at}
      lateLost == {w \in sh.wroteAt : ~\E k \in DOMAIN sh.cbDrain : sh.cbDrain[k] > w[3]}
      allGone == sh.handles = 0
  IN IF sh.sawRemove \/ ~sh.enabledNow THEN {} ELSE
     CIf(lost # {}, {<<"C03", "returned_ping_never_followed_by_callback">>})
     \cup CIf(lateLost # {}, {<<"C03", "ping_written_after_last_callback_never_delivered">>})
     \cup CIf(allGone /\ sh.occupied > 0, {<<"C03", "source_not_removed_after_last_handle_dropped">>})
     \cup CIf(~allGone /\ sh.occupied = 0, {<<"C03", "source_removed_while_handles_alive">>})
     \cup CIf(sh.idleTimeout > 0 /\ sh.idleElapsed < sh.idleTimeout - 2000, {<<"C03", "loop_spins_on_idle_ping_source">>})

\* C04 ---------------------------------------------------------------------
ChanCbViol(sh, ev) ==
  IF ev.p >= 0
  THEN LET t == SenderOf(ev.p)
           prev == SelectSeq(sh.delivered, LAMBDA m : SenderOf(m) = t)
       IN CIf(\E k \in DOMAIN sh.delivered : sh.delivered[k] = ev.p, {<<"C04", "message_delivered_twice">>})
          \cup CIf(ev.p \notin sh.announced, {<<"C04", "message_never_sent">>})
          \cup CIf(prev # <<>> /\ LastOf(prev) > ev.p, {<<"C04", "sender_order_violated">>})
          \cup CIf(sh.closedCount > 0, {<<"C04", "message_after_closed">>})
  ELSE CIf(sh.closedCount > 0, {<<"C04", "closed_delivered_twice">>})
       \cup CIf(sh.dropsStarted < sh.handles + sh.dropsDone, {<<"C04", "closed_before_all_senders_gone">>})
       \cup CIf(sh.sentOk \ {sh.delivered[k] : k \in DOMAIN sh.delivered} # {}, {<<"C04", "closed_before_all_messages_delivered">>})

ChanEndViol(sh) ==
  LET del == {sh.delivered[k] : k \in DOMAIN sh.delivered} IN
  IF sh.sawRemove \/ ~sh.enabledNow THEN {} ELSE
  \* known finding KF-C04-rendezvous: with bound 0 the wake-up written before the sender blocks can be
  \* consumed while the sender is not yet waiting; nothing wakes the loop again (own clause = fingerprint)
  CIf(sh.stuck /\ sh.cap = 0, {<<"C04", "rendezvous_send_never_completed">>})
  \cup CIf(sh.stuck /\ sh.cap # 0, {<<"C04", "blocking_send_never_completed">>})
  \* (C02: a queued message on an inserted, enabled channel is a pending cause that no dispatch delivered)
  \cup CIf(~sh.stuck /\ sh.sentOk \ del # {}, {<<"C04", "message_stranded">>, <<"C02", "pending_cause_not_dispatched">>})
  \cup CIf(~sh.stuck /\ sh.handles = 0 /\ sh.closedCount # 1, {<<"C04", "closed_not_delivered_once">>})
  \cup CIf(sh.handles > 0 /\ sh.closedCount > 0, {<<"C04", "closed_while_senders_alive">>})
  \cup CIf(~sh.stuck /\ sh.handles = 0 /\ sh.occupied > 0, {<<"C04", "channel_not_removed_after_closed">>})
  \cup CIf(sh.idleTimeout > 0 /\ sh.idleElapsed < sh.idleTimeout - 2000 /\ ~sh.stuck, {<<"C04", "loop_spins_on_idle_channel">>})

\* C10 ---------------------------------------------------------------------
ExecViol(sh, ev) ==
  CASE ev.e = "poll" -> CIf(ev.on_loop = 0, {<<"C10", "future_polled_off_loop_thread">>})
                        \cup CIf(~\E s \in sh.scheduled : s[1] = ev.f, {<<"C10", "unscheduled_future_polled">>})
                        \cup CIf(ev.f \in sh.fdropped, {<<"C10", "future_polled_after_drop">>})
    [] ev.e = "fdrop" -> CIf(ev.on_loop = 0, {<<"C10", "future_dropped_off_loop_thread">>})
                         \cup CIf(ev.f \in sh.fdropped, {<<"C10", "future_dropped_twice">>})
    [] ev.e = "cb" -> CIf(\E k \in DOMAIN sh.results : sh.results[k] = ev.p, {<<"C10", "result_delivered_twice">>})
                      \cup CIf(~\E p \in sh.polls : p[1] = ev.p, {<<"C10", "result_without_poll">>})
    [] OTHER -> {}

ExecEndViol(sh) ==
  LET futs == {s[1] : s \in sh.scheduled}
      lastPoll(f) == LET P == {p[2] : p \in {q \in sh.polls : q[1] = f}} IN IF P = {} THEN 0 ELSE CHOOSE x \in P : \A y \in P : y <= x
      delivered(f) == \E k \in DOMAIN sh.results : sh.results[k] = f
      wakes == {c \in CallsOf(sh, "wake") : Returned(c) /\ c.r = "ok"}
  IN IF sh.execGone THEN CIf(\E f \in futs : f \notin sh.fdropped, {<<"C10", "future_not_dropped_with_executor">>})
     ELSE
     CIf(\E f \in futs : lastPoll(f) = 0, {<<"C10", "scheduled_future_never_polled">>})
     \cup CIf(\E w \in wakes : ~delivered(w.f) /\ lastPoll(w.f) < w.at, {<<"C10", "wake_lost">>})
     \cup CIf(\E f \in futs : delivered(f) /\ f \notin sh.fdropped, {<<"C10", "completed_future_not_dropped">>})
     \cup CIf(sh.idleTimeout > 0 /\ sh.idleElapsed < sh.idleTimeout - 2000, {<<"C10", "loop_spins_on_idle_executor">>})

\* C11 ---------------------------------------------------------------------
SigEndViol(sh) ==
  LET \* stop requests issued after run()/block_on() has begun (= after its own reset of the stop flag)
      stops == {c \in CallsOf(sh, "stop") : Returned(c) /\ sh.runBegan /\ c.at > sh.runBeganAt}
      wakeups == {c \in CallsOf(sh, "wakeup") : Returned(c)}
      \* a stop() that returned, followed by a wakeup() that began after it
      pair == \E s \in stops, w \in wakeups : w.at > s.ret
      pairEnd == IF pair THEN CHOOSE x \in {w.ret : w \in {v \in wakeups : \E s \in stops : v.at > s.ret}} :
                                 \A y \in {w.ret : w \in {v \in wakeups : \E s \in stops : v.at > s.ret}} : x <= y ELSE 0
      itersAfter == Cardinality({k \in DOMAIN sh.iters : sh.iters[k] > pairEnd})
      usesRun == \E k \in DOMAIN sh.loopScript : sh.loopScript[k] = "run"
      usesBlockOn == sh.blockNeed >= 0
      wakes == {c \in CallsOf(sh, "wake") : Returned(c) /\ c.r = "ok"}
      \* wakes that were issued before any stop() began
      firstStop == IF sh.stopCalls = {} THEN 1000000000 ELSE CHOOSE x \in sh.stopCalls : \A y \in sh.stopCalls : x <= y
      wakesBeforeStop == {c \in wakes : c.ret < firstStop}
      completedPolls == {p \in sh.polls : p[3] >= sh.blockNeed}
  IN CIf(usesBlockOn /\ sh.stopCalls = {} /\ Cardinality(wakes) >= sh.blockNeed /\ (sh.loopStuck \/ sh.blockOut # 0),
         {<<"C11", "block_on_did_not_complete_after_wakes">>})
     \cup CIf(usesBlockOn /\ sh.blockOut = 0 /\ completedPolls = {}, {<<"C11", "block_on_returned_output_of_incomplete_future">>})
     \cup CIf(usesBlockOn /\ sh.blockOut = -1 /\ sh.stopCalls = {}, {<<"C11", "block_on_returned_none_without_stop">>})
     \cup CIf(usesBlockOn /\ sh.polledAfterStop, {<<"C11", "block_on_polled_the_future_although_stop_was_requested_first">>})
     \cup CIf(usesBlockOn /\ sh.polls = {} /\ sh.runRet # 0 /\ sh.stopCalls = {}, {<<"C11", "block_on_never_polled_the_future">>})
     \cup CIf(usesBlockOn /\ sh.stopCalls # {} /\ pair /\ sh.loopStuck, {<<"C11", "block_on_did_not_return_after_stop_and_wakeup">>})
     \cup CIf(usesRun /\ pair /\ (sh.loopStuck \/ sh.runRet = 0), {<<"C11", "run_did_not_return_after_stop_and_wakeup">>})
     \cup CIf(usesRun /\ pair /\ sh.runRet # 0 /\ itersAfter > 1, {<<"C11", "more_than_one_iteration_after_stop">>})
     \cup CIf(usesRun /\ sh.runRet # 0 /\ sh.stopCalls = {}, {<<"C11", "run_returned_without_stop">>})
     \* block_on(TimeoutFuture): completes (woken by the loop's own timer source), never before the duration is over,
     \* whatever spurious wake-ups arrive
     \cup CIf(sh.tfMs >= 0 /\ sh.stopCalls = {} /\ (sh.loopStuck \/ sh.tfOut # 0), {<<"C11", "block_on_timeout_future_did_not_complete">>})
     \cup CIf(sh.tfMs >= 0 /\ sh.tfOut = 0 /\ sh.tfElapsed < sh.tfMs * 1000,
              {<<"C11", "block_on_timeout_future_completed_early">>, <<"C05", "fired_early">>})

CViol(sh, ev) ==
  CASE ev.e = "cb" /\ sh.kind = "ping" -> PingCbViol(sh)
    [] ev.e = "cb" /\ sh.kind = "chan" -> ChanCbViol(sh, ev)
    [] ev.e \in {"cb", "poll", "fdrop"} /\ sh.kind = "exec" -> ExecViol(sh, ev)
    [] ev.e = "end" -> CASE sh.kind = "ping" -> PingEndViol(sh)
                         [] sh.kind = "chan" -> ChanEndViol(sh)
                         [] sh.kind = "exec" -> ExecEndViol(sh)
                         [] OTHER -> SigEndViol(sh)
    [] ev.e = "teardown_panic" -> {<<"C08", "teardown_panicked">>}
    [] ev.e = "ret" /\ ev.r = "panic" -> {<<"C08", "handle_operation_panicked">>}
    [] ev.e = "lret" /\ ev.r = "panic" -> {<<"C08", "loop_operation_panicked">>}
    [] OTHER -> {}

CStep(sh, ev, l) ==
  IF ev.e = "reset" THEN CFresh(sh, ev)
  ELSE LET V == CViol(sh, ev)
           n == CUpd(sh, ev)
       IN [n EXCEPT !.viol = sh.viol \cup {[p |-> v[1], c |-> v[2], l |-> l, scn |-> sh.scn] : v \in V}]
=============================================================================
