-------------------------- MODULE TransientTraceFix --------------------------
(* TransientTrace with the candidate fix of finding O9 switched on (see TransientTraceFix.cfg): the engine *)
(* validates a trace against it when the real crate no longer matches the transcription of the defect.      *)
EXTENDS TransientTrace
=============================================================================
