----------------------------- MODULE MCSignals -----------------------------
(* Model-checking shell for Signals.tla: concrete universes and scenario printing.          *)
(* Signal numbers are the Linux ones (generic ABI: x86-64, aarch64, riscv).                  *)
EXTENDS Signals, Json

SIGUSR1  == 10
SIGUSR2  == 12
SIGURG   == 23
SIGWINCH == 28

U2 == {SIGUSR1, SIGUSR2}
U3 == {SIGUSR1, SIGUSR2, SIGWINCH}
U4 == {SIGUSR1, SIGUSR2, SIGURG, SIGWINCH}

KT  == {"t"}
KTP == {"t", "p"}

\* scenario extraction: print the operations of every complete behaviour (exhaustive mode: each distinct history is a
\* distinct state, so every history of length MaxOps is printed exactly once; simulation mode: one line per behaviour)
PrintScn == (RecordHist /\ Done) => PrintT(<<"SCN", ToJson(hist)>>)
=============================================================================
