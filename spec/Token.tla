------------------------------- MODULE Token -------------------------------
(***************************************************************************************************)
(* Property C20: poller keys encode (slot, generation, sub-source) injectively and reversibly.    *)
(*                                                                                                 *)
(* The module is parametric in the bit widths of the three fields (IB: slot id, VB: generation,   *)
(* called "version" in the crate, SB: sub-source id).  It contains                                *)
(*   1. the codec of /repo/src/token.rs (Pack, Unpack, NextVersion, NextSub), written the way the  *)
(*      code computes it (shifts are multiplications by powers of two, masks are `%`, the storage  *)
(*      types of the fields are explicit: VStore / SStore bits, u16 in the crate);                 *)
(*   2. TokenFactory (/repo/src/sys.rs) as a small state machine;                                  *)
(*   3. the property, clause by clause, as invariants Inv_C20_<clause> of that machine and as      *)
(*      THEOREMs over the whole domain;                                                            *)
(*   4. the *limb form* of the real layout (IB = 2*LB, VB = SB = LB, LB = 16): TLC integers are    *)
(*      32-bit, so a 64-bit key is written as its four base-2^LB digits <<id_hi, id_lo, ver, sub>>.*)
(*      LimbFormAgrees ties the limb form to the numeric form; TLC checks it exhaustively for      *)
(*      small LB (mc/token_limb.cfg); TokenTrace.tla uses the limb form with LB = 16 on records    *)
(*      produced by the real code.                                                                 *)
(*                                                                                                 *)
(* `Variants` switches on deliberately wrong behaviours (non-vacuity: mc/token_var_*.cfg).         *)
(***************************************************************************************************)
EXTENDS Naturals, Sequences, FiniteSets

CONSTANTS IB, VB, SB,       \* bit widths of slot id / version / sub id
          VStore, SStore,   \* bit widths of the integer types that hold version / sub_id (u16 in the crate)
          MaxReq,           \* bound on the number of requests made to one factory (model checking only)
          Variants          \* subset of AllVariants; {} = the code as it is

AllVariants == {"sub_wraps",            \* increment_sub_id wraps (wrapping_add & mask) instead of panicking
                "sub_unchecked",        \* increment_sub_id only fails when the storage type overflows (guard `sid <= MASK_SUBID` missing)
                "version_not_masked",   \* increment_version without `& MASK_VERSION`
                "wrong_shift",          \* version shifted by BITS_SUBID - 1 when packing
                "unpack_no_mask",       \* version extracted without `& MASK_VERSION`
                "lazy_overflow_silent"} \* factory clamps at the last sub id instead of panicking (hands it out again)

ASSUME Widths == /\ IB \in Nat \ {0} /\ VB \in Nat \ {0} /\ SB \in Nat \ {0}
                 /\ VStore \in Nat /\ SStore \in Nat /\ VStore >= VB /\ SStore >= SB
                 /\ MaxReq \in Nat /\ Variants \subseteq AllVariants

P2(n) == 2 ^ n

IdR  == 0 .. P2(IB) - 1
VerR == 0 .. P2(VB) - 1
SubR == 0 .. P2(SB) - 1
Triples == IdR \X VerR \X SubR          \* every representable (slot, generation, sub-source)
Keys == 0 .. P2(IB + VB + SB) - 1       \* every value of the key type (usize when IB+VB+SB = 64)
NotifyKey == P2(IB + VB + SB) - 1       \* polling reserves usize::MAX for its notifier
MaskV == P2(VB) - 1
MaskS == P2(SB) - 1
Overflow == [overflow |-> TRUE]         \* explicit result of a successor that is not representable (the code panics)
Some(x) == [overflow |-> FALSE, val |-> x]

(***************************************************************************************************)
(* 1. The codec (token.rs)                                                                         *)
(***************************************************************************************************)
\* impl From<TokenInner> for usize:
\*   ((token.id as usize) << (BITS_SUBID + BITS_VERSION)) + ((token.version as usize) << BITS_SUBID) + (token.sub_id as usize)
ShiftV == IF "wrong_shift" \in Variants THEN SB - 1 ELSE SB
Pack(i, v, s) == i * P2(SB + VB) + v * P2(ShiftV) + s
PackT(t) == Pack(t[1], t[2], t[3])

\* impl From<usize> for TokenInner:
\*   sub_id = value & MASK_SUBID; version = (value >> BITS_SUBID) & MASK_VERSION; id = value >> (BITS_SUBID + BITS_VERSION)
Unpack(k) == << k \div P2(SB + VB),
                IF "unpack_no_mask" \in Variants THEN k \div P2(SB) ELSE (k \div P2(SB)) % P2(VB),
                k % P2(SB) >>

\* TokenInner::increment_version:  version: self.version.wrapping_add(1) & (MASK_VERSION as u16)   (sub_id: 0)
NextVersion(v) == IF "version_not_masked" \in Variants
                  THEN (v + 1) % P2(VStore)
                  ELSE ((v + 1) % P2(VStore)) % P2(VB)

\* TokenInner::increment_sub_id:
\*   match self.sub_id.checked_add(1) { Some(sid) if sid <= (MASK_SUBID as u16) => sid,
\*                                      _ => panic!("Maximum number of sub-ids reached for source #{}", self.id) }
NextSub(s) ==
   CASE "sub_wraps" \in Variants     -> Some((s + 1) % P2(SB))
     [] "sub_unchecked" \in Variants -> IF s + 1 < P2(SStore) THEN Some(s + 1) ELSE Overflow
     [] OTHER                        -> IF s + 1 < P2(SStore) /\ s + 1 <= MaskS THEN Some(s + 1) ELSE Overflow

\* TokenInner::same_source_as
SameSource(t, u) == t[1] = u[1] /\ t[2] = u[2]

(***************************************************************************************************)
(* 2. TokenFactory (sys.rs)                                                                        *)
(*                                                                                                 *)
(*    pub fn token(&mut self) -> Token {                                                           *)
(*        let token = self.next_token;                                                             *)
(*        self.next_token = token.increment_sub_id();      // successor computed EAGERLY           *)
(*        Token { inner: token }                                                                   *)
(*    }                                                                                            *)
(*                                                                                                 *)
(* The successor is computed before the current token is returned, so the request that would hand *)
(* out sub id 2^SB - 1 (= MASK_SUBID, whose successor is not representable) panics, the token is   *)
(* not returned and `next_token` is not updated: every later request panics again.  A factory      *)
(* therefore hands out exactly FactoryCapacity = 2^SB - 1 tokens (sub ids 0 .. 2^SB - 2); request  *)
(* number 2^SB is the first that panics (65 536th request on 64-bit targets; 65 535 tokens).       *)
(***************************************************************************************************)
FactoryCapacity == P2(SB) - 1

Min(a, b) == IF a <= b THEN a ELSE b

\* closed form of the machine below: its state after n requests (Inv_C20_factory_boundary checks the agreement)
FactoryAfter(n) == [issued |-> Min(n, FactoryCapacity), panics |-> n - Min(n, FactoryCapacity), next |-> Min(n, FactoryCapacity)]

VARIABLES tok,       \* the triple under examination (codec clauses); <<tok[1], tok[2]>> is the factory's source
          next,      \* sub id of TokenFactory.next_token
          issued,    \* sequence of tokens (triples) returned by token(), in order
          req,       \* number of calls of token() so far
          panics     \* how many of them panicked
tvars == <<tok, next, issued, req, panics>>

panicked == panics > 0

Init == /\ tok \in Triples
        /\ next = 0              \* TokenFactory::new: next_token = token.forget_sub_id()
        /\ issued = <<>> /\ req = 0 /\ panics = 0

Request ==
   /\ req < MaxReq
   /\ req' = req + 1
   /\ tok' = tok
   /\ LET succ == NextSub(next) IN
        IF succ.overflow
        THEN IF "lazy_overflow_silent" \in Variants
             THEN issued' = Append(issued, <<tok[1], tok[2], next>>) /\ UNCHANGED <<next, panics>>
             ELSE panics' = panics + 1 /\ UNCHANGED <<next, issued>>      \* panic before the assignment and before the return
        ELSE /\ next' = succ.val
             /\ issued' = Append(issued, <<tok[1], tok[2], next>>)
             /\ UNCHANGED panics

Next == Request
Spec == Init /\ [][Next]_tvars

(***************************************************************************************************)
(* 3. The property, clause by clause                                                               *)
(***************************************************************************************************)
\* --- whole-domain statements (THEOREMs below; the invariants evaluate them pointwise at `tok`)
ReversibleAll == \A t \in Triples : Unpack(PackT(t)) = t
InjectiveAll  == \A t1, t2 \in Triples : PackT(t1) = PackT(t2) => t1 = t2
OntoAll       == \A k \in Keys : Unpack(k) \in Triples /\ PackT(Unpack(k)) = k
InRangeAll    == \A t \in Triples : PackT(t) \in Keys
NotNotifyAll  == \A t \in Triples : t[1] < P2(IB) - 1 => PackT(t) # NotifyKey
VersionAll    == \A v \in VerR : NextVersion(v) = (v + 1) % P2(VB)
SubSuccAll    == \A s \in SubR : NextSub(s) = IF s + 1 \in SubR THEN Some(s + 1) ELSE Overflow

\* --- the same, at the triple held by the current state (every triple is an initial state)
Inv_C20_reversible == Unpack(PackT(tok)) = tok
Inv_C20_in_range   == PackT(tok) \in Keys
Inv_C20_injective  == req = 0 => \A t2 \in Triples : PackT(t2) = PackT(tok) => t2 = tok
Inv_C20_injective_card == (req = 0 /\ tok = <<0, 0, 0>>) => Cardinality({PackT(t) : t \in Triples}) = Cardinality(Triples)
Inv_C20_onto       == (req = 0 /\ tok = <<0, 0, 0>>) => OntoAll
Inv_C20_not_notify == /\ tok[1] < P2(IB) - 1 => PackT(tok) # NotifyKey
                      /\ (tok = <<P2(IB) - 1, MaskV, MaskS>>) => PackT(tok) = NotifyKey    \* the one colliding triple
Inv_C20_version    == NextVersion(tok[2]) = (tok[2] + 1) % P2(VB)
Inv_C20_sub_succ   == NextSub(tok[3]) = IF tok[3] + 1 \in SubR THEN Some(tok[3] + 1) ELSE Overflow

\* --- factory clauses
\* tokens of one factory have pairwise distinct keys
Inv_C20_factory_distinct == \A a, b \in DOMAIN issued : a # b => PackT(issued[a]) # PackT(issued[b])
\* ... are representable and decode to the factory's own source (what the loop does with a key coming back from the poller)
Inv_C20_factory_owner == \A a \in DOMAIN issued : /\ issued[a] \in Triples
                                                   /\ SameSource(Unpack(PackT(issued[a])), tok)
\* ... are numbered consecutively from 0
Inv_C20_factory_consecutive == \A a \in DOMAIN issued : issued[a][3] = a - 1
\* asking for more tokens than there are sub ids fails loudly; nothing is ever handed out twice ("never wraps")
Inv_C20_factory_loud == /\ req > P2(SB) => panicked
                        /\ Len(issued) <= P2(SB)
                        /\ req = Len(issued) + panics
\* once a request has panicked every later one does (the factory does not resume / wrap)
Act_C20_factory_stuck == [][panicked => issued' = issued]_tvars
\* the exact boundary of the implementation (eager successor): see FactoryCapacity
Inv_C20_factory_boundary == /\ Len(issued) = FactoryAfter(req).issued
                            /\ panics = FactoryAfter(req).panics
                            /\ next = FactoryAfter(req).next

Inv_C20 == /\ Inv_C20_reversible /\ Inv_C20_in_range /\ Inv_C20_injective /\ Inv_C20_injective_card /\ Inv_C20_onto
           /\ Inv_C20_not_notify /\ Inv_C20_version /\ Inv_C20_sub_succ
           /\ Inv_C20_factory_distinct /\ Inv_C20_factory_owner /\ Inv_C20_factory_consecutive /\ Inv_C20_factory_loud

TypeOK == /\ tok \in Triples /\ next \in Nat /\ req \in 0 .. MaxReq /\ panics \in 0 .. MaxReq
          /\ issued \in Seq(Nat \X Nat \X Nat)

(***************************************************************************************************)
(* 4. Limb form of the layout IB = 2*LB, VB = SB = LB  (the 64-bit layout has LB = 16)             *)
(*    A key is the sequence of its four base-2^LB digits, most significant first.                  *)
(***************************************************************************************************)
LB == SB
LimbLayout == IB = 2 * SB /\ VB = SB
Base == P2(LB)
Limb == 0 .. Base - 1

PackLimbs(ih, il, v, s) == <<ih, il, v, s>>              \* id occupies the two high limbs, then version, then sub id
UnpackLimbs(k) == <<k[1], k[2], k[3], k[4]>>             \* <<id_hi, id_lo, version, sub>>
NotifyLimbs == <<Base - 1, Base - 1, Base - 1, Base - 1>>
NextVersionLimb(v) == (v + 1) % Base
IdMaxLimbs(ih, il) == ih = Base - 1 /\ il = Base - 1     \* id = 2^IB - 1

\* digits of a number below Base^4
Digits(k) == << k \div (Base * Base * Base), (k \div (Base * Base)) % Base, (k \div Base) % Base, k % Base >>

\* the limb form says the same as the numeric form (checked exhaustively by TLC for LB = 1, 2, 3)
LimbFormAgreesAt(t) ==
   LET ih == t[1] \div Base  il == t[1] % Base IN
   /\ Digits(PackT(t)) = PackLimbs(ih, il, t[2], t[3])
   /\ LET u == Unpack(PackT(t)) IN <<u[1] \div Base, u[1] % Base, u[2], u[3]>> = UnpackLimbs(Digits(PackT(t)))
   /\ Digits(NotifyKey) = NotifyLimbs
   /\ (PackT(t) = NotifyKey) = (Digits(PackT(t)) = NotifyLimbs)
   /\ NextVersionLimb(t[2]) = NextVersion(t[2])
Inv_C20_limb_form == LimbLayout => LimbFormAgreesAt(tok)

(***************************************************************************************************)
(* Theorems (parametric statements; TLC checks them for the widths of the mc/token_*.cfg files).   *)
(***************************************************************************************************)
THEOREM C20_Reversible == Variants = {} => ReversibleAll
THEOREM C20_Injective  == Variants = {} => InjectiveAll
THEOREM C20_Onto       == Variants = {} => OntoAll
THEOREM C20_NotNotify  == Variants = {} => NotNotifyAll
THEOREM C20_Version    == Variants = {} => VersionAll
THEOREM C20_Factory    == Variants = {} => (Spec => [](Inv_C20_factory_distinct /\ Inv_C20_factory_owner /\ Inv_C20_factory_loud))
=============================================================================
