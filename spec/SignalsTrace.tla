---------------------------- MODULE SignalsTrace ----------------------------
(* Trace validation for C19: feeds a trace recorded by harness/src/bin/drive_signals.rs from the real     *)
(* calloop::signals::Signals through the operators of Signals.tla, one logged operation per step.          *)
(*                                                                                                         *)
(* For every operation the specification PREDICTS, from the state observed after the previous operation,   *)
(* what the kernel must show afterwards (RunOp: the code's system calls in the code's order) and compares   *)
(* it with what the driver observed (pthread_sigmask query, sigpending, /proc/self/status SigPnd/ShdPnd,    *)
(* the signalfd's mask in /proc/self/fdinfo, the callback events, the counting handlers):                  *)
(*     a difference is a clause  Mismatch_<what>  (the implementation does not behave like the model).     *)
(* Independently the property clauses of C19 are evaluated ON THE OBSERVED VALUES:                         *)
(*     MaskExact, Delivery_exactly_once, Delivery_handler_while_configured, Delivery_pending_not_reported, *)
(*     Delivery_sender_info, NeverReportedIfNotConfigured.                                                 *)
(* The shadow state continues from the observed values (one deviation is reported once, not on every line).*)
EXTENDS Signals, Json, IOUtils

Rec == ndJsonDeserialize(IOEnv.TRACE)

VARIABLES l, sh
tvars == <<l, sh>>

ToSet(q) == {q[i] : i \in DOMAIN q}

Empty == [scn |-> "none", nscn |-> 0, misuse |-> 0, st |-> Init0, viol |-> {}]

V(c, ln, scn) == [p |-> "C19", c |-> c, l |-> ln, scn |-> scn]

SI_USER  == 0      \* kill(2)
SI_TKILL == -6     \* raise(3) = tgkill(2)
KindOf(code) == IF code = SI_TKILL THEN "t" ELSE IF code = SI_USER THEN "p" ELSE "?"

OpOf(ev) ==
  CASE ev.op \in {"new", "add", "remove", "set"} -> [op |-> ev.op, S |-> ToSet(ev.S) \cap U]
    [] ev.op = "drop"     -> [op |-> "drop", S |-> {}]
    [] ev.op = "raise"    -> [op |-> "raise", sig |-> ev.sig, k |-> ev.k]
    [] ev.op = "dispatch" -> [op |-> "dispatch"]

HdOf(ev, x) == LET i == CHOOSE j \in DOMAIN ev.hd : ev.hd[j][1] = x IN ev.hd[i][2]

StepOp(s0, ev, ln) ==
  LET pre == s0.st
      op  == OpOf(ev)
  IN
  IF ev.r = "misuse" \/ ~OpEnabled(pre, op)
  THEN [s0 EXCEPT !.misuse = @ + 1]        \* outside the quantifier (e.g. add without a source): not judged
  ELSE
  LET pred  == RunOp(pre, op)                                 \* prediction
      \* ------------------------------------------------------------------ observation
      oB    == ToSet(ev.blk)
      oF    == ToSet(ev.fdm)
      oP    == {<<x, "t">> : x \in ToSet(ev.pt)} \cup {<<x, "p">> : x \in ToSet(ev.pp)}
      oHd   == [x \in U |-> HdOf(ev, x)]
      cbs   == ev.cbs
      cbSig == {cbs[i][1] : i \in DOMAIN cbs}
      oCb   == {<<cbs[i][1], KindOf(cbs[i][2])>> : i \in DOMAIN cbs}
      expCb == IF op.op = "dispatch" THEN Readable(pre) ELSE {}
      \* signals configured throughout this operation: their handler must not run
      Kop   == IF op.op \in CfgOps THEN pre.M \cap Target(pre, op) ELSE pre.M
      obs   == [pred EXCEPT
                  !.alive = (ev.alive = 1),
                  !.B = oB, !.F = oF, !.P = oP, !.hd = oHd,
                  !.cb = [x \in U |-> pre.cb[x] + Cardinality({i \in DOMAIN cbs : cbs[i][1] = x})],
                  !.badH = pre.badH \cup {x \in U : oHd[x] > pre.hd[x] /\ x \in Kop},
                  !.badC = pre.badC \cup (cbSig \ pre.M)]
      \* ------------------------------------------------------------------ model vs. implementation
      mism ==
        (IF ev.r # "ok" THEN {"Mismatch_result"} ELSE {})
        \cup (IF obs.alive # pred.alive THEN {"Mismatch_alive"} ELSE {})
        \cup (IF oB # pred.B \/ ToSet(ev.blkp) # oB THEN {"Mismatch_blocked"} ELSE {})
        \cup (IF oF # pred.F \/ ev.nfd # (IF pred.alive THEN 1 ELSE 0) THEN {"Mismatch_sigfd"} ELSE {})
        \cup (IF oP # pred.P \/ ToSet(ev.pend) # SigsOf(pred.P) THEN {"Mismatch_pending"} ELSE {})
        \cup (IF oCb # expCb \/ Len(cbs) # Cardinality(expCb) THEN {"Mismatch_callbacks"} ELSE {})
        \cup (IF oHd # pred.hd THEN {"Mismatch_handlers"} ELSE {})
      \* ------------------------------------------------------------------ C19 on the observed values
      prop ==
        (IF ~MaskExact(obs, TRUE) THEN {"MaskExact"} ELSE {})
        \cup (IF ~ExactlyOnce(obs) /\ ExactlyOnce(pre) THEN {"Delivery_exactly_once"} ELSE {})
        \cup (IF obs.badH # pre.badH THEN {"Delivery_handler_while_configured"} ELSE {})
        \cup (IF ~PendingReported(obs, TRUE) THEN {"Delivery_pending_not_reported"} ELSE {})
        \cup (IF \E i \in DOMAIN cbs : cbs[i][3] # 1 \/ cbs[i][4] # 1 \/ KindOf(cbs[i][2]) = "?"
              THEN {"Delivery_sender_info"} ELSE {})
        \cup (IF obs.badC # pre.badC THEN {"NeverReportedIfNotConfigured"} ELSE {})
  IN [s0 EXCEPT !.st = obs, !.viol = @ \cup {V(c, ln, s0.scn) : c \in mism \cup prop}]

Step(s0, ev, ln) ==
  IF ev.e = "reset" THEN [Empty EXCEPT !.scn = ev.id, !.nscn = s0.nscn + 1, !.misuse = s0.misuse, !.viol = s0.viol]
  ELSE IF ev.e = "op" THEN StepOp(s0, ev, ln)
  ELSE s0

\* (the variables of the transition system of Signals.tla are not used here: they stay at their initial values)
TInit == l = 1 /\ sh = Empty /\ Init
TNext == /\ l <= Len(Rec)
         /\ sh' = Step(sh, Rec[l], l)
         /\ l' = l + 1
         /\ UNCHANGED vars
TSpec == TInit /\ [][TNext]_<<tvars, vars>>

\* printed once, in the final state: the verdict that the check driver parses
Verdict == l = Len(Rec) + 1 =>
             PrintT(<<"VERDICT", ToJson([n |-> Len(Rec), scenarios |-> sh.nscn, misuse |-> sh.misuse, viol |-> sh.viol])>>)
\* the whole trace was consumed (Step is total: it never blocks on a well-formed event)
Consumed == TLCGet("stats").diameter = Len(Rec) + 1
=============================================================================
