//! Sequential scenario interpreter for the loop core: executes a scenario (top-level steps and
//! callback programs) on a real `EventLoop` and logs every observable event.

use crate::fdinfo;
use crate::probe::*;
use crate::trace::{ev, key3, post_action_str};
use calloop::channel::{channel, sync_channel, Channel, Event as ChanEvent, Sender, SyncSender};
use calloop::generic::Generic;
use calloop::ping::{make_ping, Ping, PingSource};
use calloop::timer::{TimeoutAction, Timer};
use calloop::transient::TransientSource;
use calloop::{
    Dispatcher, EventLoop, EventSource, Idle, LoopHandle, PostAction, RegistrationToken,
};
use serde_json::{json, Value};
use std::cell::{Cell, RefCell};
use std::collections::BTreeMap;
use std::io::{Read, Write};
use std::os::unix::io::{AsRawFd, RawFd};
use std::os::unix::net::UnixStream;
use std::panic::{catch_unwind, AssertUnwindSafe};
use std::rc::Rc;
use std::time::{Duration, Instant};

pub type Handle = LoopHandle<'static, ()>;
pub type W = Rc<RefCell<World>>;

#[derive(Clone)]
pub struct Weak(Rc<dyn Fn() -> Option<Handle>>);
impl Weak {
    pub fn upgrade(&self) -> Option<Handle> {
        (self.0)()
    }
}

/// What insertion gives back when it fails: the source and the error.
type InsertResult = Result<(RegistrationToken, Option<Box<dyn Held>>), (Box<dyn Insertable>, calloop::Error)>;

pub trait Insertable {
    fn insert(self: Box<Self>, h: &Handle, w: &W, held: bool) -> InsertResult;
    /// `Generic::unwrap()` on every child (composites only): gives the fds back, deleting them from the poller if the
    /// Generic still believes it is registered
    fn unwrap_children(&mut self) -> bool {
        false
    }
}

pub trait Held {
    /// `Dispatcher::into_source_inner`; Err(msg) if it panicked.
    fn into_inner(self: Box<Self>) -> Result<Box<dyn Insertable>, String>;
    fn set_deadline(&self, dl: Instant) -> Result<bool, String>;
    fn cur_deadline(&self) -> Option<Option<Instant>>;
}

struct HeldD<S: EventSource + 'static>(Dispatcher<'static, S, ()>);

impl<S> Held for HeldD<S>
where
    S: EventSource + DeadlineAccess + 'static,
    S: Insertable,
{
    fn into_inner(self: Box<Self>) -> Result<Box<dyn Insertable>, String> {
        let d = self.0;
        match catch_unwind(AssertUnwindSafe(move || d.into_source_inner())) {
            Ok(s) => Ok(Box::new(s)),
            Err(p) => Err(panic_msg(&p)),
        }
    }
    fn set_deadline(&self, dl: Instant) -> Result<bool, String> {
        match catch_unwind(AssertUnwindSafe(|| self.0.as_source_mut().set_dl(dl))) {
            Ok(b) => Ok(b),
            Err(p) => Err(panic_msg(&p)),
        }
    }
    fn cur_deadline(&self) -> Option<Option<Instant>> {
        catch_unwind(AssertUnwindSafe(|| self.0.as_source_ref().cur_dl()))
            .ok()
            .flatten()
    }
}

pub fn panic_msg(p: &Box<dyn std::any::Any + Send>) -> String {
    if let Some(s) = p.downcast_ref::<&str>() {
        s.to_string()
    } else if let Some(s) = p.downcast_ref::<String>() {
        s.clone()
    } else {
        "panic".to_string()
    }
}

/// Logs `drop_cb` when the callback closure that owns it is dropped.
struct CbGuard {
    s: u32,
}
impl Drop for CbGuard {
    fn drop(&mut self) {
        ev("drop_cb", json!({"s": self.s}));
    }
}

thread_local! {
    /// the next non-held insertion goes through the `impl EventSource for Box<T>` forwarding impl
    pub static BOXED: Cell<bool> = const { Cell::new(false) };
}

fn insert_generic<S, F>(src: S, cb: F, h: &Handle, held: bool) -> InsertResult
where
    S: EventSource + DeadlineAccess + Insertable + 'static,
    F: FnMut(S::Event, &mut S::Metadata, &mut ()) -> S::Ret + 'static,
{
    if !held && BOXED.with(|b| b.replace(false)) {
        return match h.insert_source(Box::new(src), cb) {
            Ok(t) => Ok((t, None)),
            Err(e) => Err((e.inserted as Box<dyn Insertable>, e.error)),
        };
    }
    if held {
        let d = Dispatcher::new(src, cb);
        match h.register_dispatcher(d.clone()) {
            Ok(t) => Ok((t, Some(Box::new(HeldD(d))))),
            Err(e) => Err((Box::new(d.into_source_inner()), e)),
        }
    } else {
        match h.insert_source(src, cb) {
            Ok(t) => Ok((t, None)),
            Err(e) => Err((Box::new(e.inserted), e.error)),
        }
    }
}

impl<const LIFE: bool> Insertable for Probe<PingSource, LIFE> {
    fn insert(self: Box<Self>, h: &Handle, w: &W, held: bool) -> InsertResult {
        let s = self.id;
        let w = w.clone();
        let guard = CbGuard { s };
        insert_generic(
            *self,
            move |(), &mut (), _| {
                let _g = &guard;
                run_callback(&w, s, 0, json!(0));
            },
            h,
            held,
        )
    }
}

impl<const LIFE: bool> Insertable for Probe<Channel<i64>, LIFE> {
    fn insert(self: Box<Self>, h: &Handle, w: &W, held: bool) -> InsertResult {
        let s = self.id;
        let w = w.clone();
        let guard = CbGuard { s };
        insert_generic(
            *self,
            move |e, &mut (), _| {
                let _g = &guard;
                let p = match e {
                    ChanEvent::Msg(m) => m,
                    ChanEvent::Closed => -1,
                };
                run_callback(&w, s, 0, json!(p));
            },
            h,
            held,
        )
    }
}

impl<const LIFE: bool> Insertable for Probe<calloop::stream::StreamSource<ManualStream>, LIFE> {
    fn insert(self: Box<Self>, h: &Handle, w: &W, held: bool) -> InsertResult {
        let s = self.id;
        let w = w.clone();
        let guard = CbGuard { s };
        insert_generic(
            *self,
            move |item: Option<i64>, &mut (), _| {
                let _g = &guard;
                run_callback(&w, s, 0, json!(item.unwrap_or(-1)));
            },
            h,
            held,
        )
    }
}

impl<const LIFE: bool> Insertable for Probe<calloop::futures::Executor<i64>, LIFE> {
    fn insert(self: Box<Self>, h: &Handle, w: &W, held: bool) -> InsertResult {
        let s = self.id;
        let w = w.clone();
        let guard = CbGuard { s };
        insert_generic(
            *self,
            move |v: i64, &mut (), _| {
                let _g = &guard;
                run_callback(&w, s, 0, json!(v));
            },
            h,
            held,
        )
    }
}

impl<const LIFE: bool> Insertable for Probe<Timer, LIFE> {
    fn insert(self: Box<Self>, h: &Handle, w: &W, held: bool) -> InsertResult {
        let s = self.id;
        let w = w.clone();
        let guard = CbGuard { s };
        insert_generic(
            *self,
            move |deadline, &mut (), _| {
                let _g = &guard;
                let (base, tick) = {
                    let wb = w.borrow();
                    (wb.base, wb.tick)
                };
                let p = us_since(base, deadline);
                let ret = run_callback(&w, s, 0, json!(p));
                match &ret {
                    Value::Object(m) if m.contains_key("to") => TimeoutAction::ToInstant(
                        base + tick * (m["to"].as_u64().unwrap_or(0) as u32),
                    ),
                    Value::Object(m) if m.contains_key("dur") => {
                        TimeoutAction::ToDuration(tick * (m["dur"].as_u64().unwrap_or(0) as u32))
                    }
                    Value::Object(m) if m.contains_key("durmax") => {
                        let _ = m;
                        TimeoutAction::ToDuration(Duration::MAX)
                    }
                    _ => TimeoutAction::Drop,
                }
            },
            h,
            held,
        )
    }
}

impl<const LIFE: bool> Insertable for Probe<Composite, LIFE> {
    fn unwrap_children(&mut self) -> bool {
        for ch in std::mem::take(&mut self.inner.children) {
            if let Child::Plain(g) = ch {
                drop(g.unwrap());
            }
        }
        true
    }
    fn insert(self: Box<Self>, h: &Handle, w: &W, held: bool) -> InsertResult {
        let s = self.id;
        let w = w.clone();
        let guard = CbGuard { s };
        insert_generic(
            *self,
            move |(child, r), &mut (), _| {
                let _g = &guard;
                let p = (r.readable as i64) | ((r.writable as i64) << 1);
                let ret = run_callback(&w, s, child, json!(p));
                match ret.as_str().unwrap_or("continue") {
                    "reregister" => Ok(PostAction::Reregister),
                    "disable" => Ok(PostAction::Disable),
                    "remove" => Ok(PostAction::Remove),
                    "err" => Err(std::io::Error::new(
                        std::io::ErrorKind::Other,
                        "callback error",
                    )),
                    _ => Ok(PostAction::Continue),
                }
            },
            h,
            held,
        )
    }
}

pub fn us_since(base: Instant, t: Instant) -> i64 {
    if t >= base {
        (t - base).as_micros() as i64
    } else {
        -((base - t).as_micros() as i64)
    }
}

pub struct Src {
    pub spec: Value,
    pub pending: Option<Box<dyn Insertable>>,
    pub held: Option<Box<dyn Held>>,
    pub pings: Vec<Ping>,
    pub senders: Vec<Sender<i64>>,
    pub sync_senders: Vec<SyncSender<i64>>,
    /// per child: the peer end of the socketpair
    pub peers: Vec<Option<UnixStream>>,
    /// per child: a handle on the loop-side end (shares the open file description)
    pub own: Vec<Option<Rc<UnixStream>>>,
    pub fds: Vec<i32>,
    pub last_tok: Option<usize>,
    pub stream: Option<Rc<RefCell<StreamState>>>,
    pub scheds: Vec<calloop::futures::Scheduler<i64>>,
}

pub struct World {
    /// upgrade of a weak loop handle (the weak handle type is not nameable outside the crate)
    pub weak: Weak,
    pub signal: Option<calloop::LoopSignal>,
    pub epfd: RawFd,
    pub tokens: Vec<RegistrationToken>,
    pub srcs: BTreeMap<u32, Src>,
    pub idles: BTreeMap<u32, Option<Idle<'static>>>,
    pub progs: BTreeMap<String, Vec<Value>>,
    pub futs: BTreeMap<i64, Rc<RefCell<FutState>>>,
    pub cbcount: BTreeMap<String, usize>,
    pub faults: Rc<Faults>,
    pub base: Instant,
    pub tick: Duration,
    pub stack: Vec<String>,
    /// set when a step overran its tick window (timing-sensitive scenarios only)
    pub overrun: Cell<bool>,
}

impl World {
    pub fn now_us(&self) -> i64 {
        us_since(self.base, Instant::now())
    }
}

/// Run the program of the k-th invocation of callback `s`; logs cb / cbret; returns the `ret` spec.
fn run_callback(w: &W, s: u32, sub: usize, payload: Value) -> Value {
    let ctx = format!("s{}", s);
    let (prog, k, us) = {
        let mut wb = w.borrow_mut();
        let k = {
            let c = wb.cbcount.entry(ctx.clone()).or_insert(0);
            let k = *c;
            *c += 1;
            k
        };
        let prog = wb.progs.get(&ctx).and_then(|v| v.get(k)).cloned();
        wb.stack.push(ctx.clone());
        (prog, k, wb.now_us())
    };
    ev("cb", json!({"s": s, "sub": sub, "p": payload, "k": k, "us": us}));
    let mut ret = Value::Null;
    if let Some(p) = prog {
        if let Some(ops) = p.get("ops").and_then(|o| o.as_array()) {
            for op in ops {
                exec_op(w, None, op, s as i64);
            }
        }
        ret = p.get("ret").cloned().unwrap_or(Value::Null);
    }
    let us = {
        let mut wb = w.borrow_mut();
        wb.stack.pop();
        wb.now_us()
    };
    let (rs, arg) = match &ret {
        Value::String(x) => (x.clone(), 0),
        Value::Object(m) if m.contains_key("to") => ("to".to_string(), m["to"].as_i64().unwrap_or(0)),
        Value::Object(m) if m.contains_key("dur") => ("dur".to_string(), m["dur"].as_i64().unwrap_or(0)),
        Value::Object(m) if m.contains_key("durmax") => ("durmax".to_string(), 0),
        _ => ("none".to_string(), 0),
    };
    ev("cbret", json!({"s": s, "ret": rs, "arg": arg, "us": us}));
    ret
}

fn run_idle(w: &W, i: u32) {
    let ctx = format!("i{}", i);
    let prog = {
        let mut wb = w.borrow_mut();
        let prog = wb.progs.get(&ctx).and_then(|v| v.first()).cloned();
        wb.stack.push(ctx.clone());
        prog
    };
    ev("idle_run", json!({"i": i}));
    if let Some(p) = prog {
        if let Some(ops) = p.get("ops").and_then(|o| o.as_array()) {
            for op in ops {
                exec_op(w, None, op, -(i as i64));
            }
        }
    }
    w.borrow_mut().stack.pop();
    ev("idle_ret", json!({"i": i}));
}

struct IdleGuard(u32);
impl Drop for IdleGuard {
    fn drop(&mut self) {
        ev("drop_idle_cb", json!({"i": self.0}));
    }
}

fn res_str<T>(r: &Result<calloop::Result<T>, String>) -> (&'static str, String) {
    match r {
        Ok(Ok(_)) => ("ok", String::new()),
        Ok(Err(calloop::Error::InvalidToken)) => ("invalid", String::new()),
        Ok(Err(e)) => ("err", e.to_string()),
        Err(m) => ("panic", m.clone()),
    }
}

fn guard<T>(f: impl FnOnce() -> T) -> Result<T, String> {
    catch_unwind(AssertUnwindSafe(f)).map_err(|p| panic_msg(&p))
}

fn tok_json(t: &RegistrationToken) -> Value {
    let k = key3(t.verif_raw());
    json!([k[0], k[1]])
}

/// Build the (not yet inserted) source described by `spec`.
pub fn build_source(spec: &Value, faults: &Rc<Faults>, base: Instant, tick: Duration, w: &W) -> Src {
    let s = spec["s"].as_u64().unwrap() as u32;
    let kind = spec["kind"].as_str().unwrap_or("ping");
    let life = spec["life"].as_u64().unwrap_or(0) != 0;
    let synth_at: Vec<usize> = spec["synth"]
        .as_array()
        .map(|a| a.iter().filter_map(|v| v.as_u64()).map(|v| v as usize).collect())
        .unwrap_or_default();
    let mut src = Src {
        spec: spec.clone(),
        pending: None,
        held: None,
        pings: vec![],
        senders: vec![],
        sync_senders: vec![],
        peers: vec![],
        own: vec![],
        fds: vec![],
        last_tok: None,
        stream: None,
        scheds: vec![],
    };
    // "ondrop": the source's Drop calls LoopHandle::remove with its own (by then dead) token
    let ondrop = spec["ondrop"].as_u64().unwrap_or(0) != 0;
    let mk_on_drop = || -> Option<Box<dyn FnOnce()>> {
        if !ondrop {
            return None;
        }
        let w2 = w.clone();
        Some(Box::new(move || {
            exec_op(&w2, None, &json!({"op": "remove", "ts": s}), 1000 + s as i64);
        }))
    };
    macro_rules! wrap {
        ($inner:expr) => {{
            if life {
                let mut p = Probe::<_, true>::new(s, $inner, faults.clone(), synth_at.clone());
                p.on_drop = mk_on_drop();
                Box::new(p) as Box<dyn Insertable>
            } else {
                let mut p = Probe::<_, false>::new(s, $inner, faults.clone(), synth_at.clone());
                p.on_drop = mk_on_drop();
                Box::new(p) as Box<dyn Insertable>
            }
        }};
    }
    match kind {
        "ping" => {
            let before = fdinfo::open_fds();
            let (p, source) = make_ping().unwrap();
            let after = fdinfo::open_fds();
            src.fds = after.into_iter().filter(|f| !before.contains(f)).collect();
            src.pings.push(p);
            src.pending = Some(wrap!(source));
        }
        "chan" => {
            let before = fdinfo::open_fds();
            let cap = spec.get("cap").and_then(|c| c.as_u64());
            let chan: Channel<i64> = match cap {
                None => {
                    let (tx, rx) = channel();
                    src.senders.push(tx);
                    rx
                }
                Some(c) => {
                    let (tx, rx) = sync_channel(c as usize);
                    src.sync_senders.push(tx);
                    rx
                }
            };
            let after = fdinfo::open_fds();
            src.fds = after.into_iter().filter(|f| !before.contains(f)).collect();
            src.pending = Some(wrap!(chan));
        }
        "stream" => {
            let before = fdinfo::open_fds();
            let st = Rc::new(RefCell::new(StreamState::default()));
            let source = calloop::stream::StreamSource::new(ManualStream(st.clone())).unwrap();
            let after = fdinfo::open_fds();
            src.fds = after.into_iter().filter(|f| !before.contains(f)).collect();
            src.stream = Some(st);
            src.pending = Some(wrap!(source));
        }
        "exec" => {
            let before = fdinfo::open_fds();
            let (exec, sched) = calloop::futures::executor::<i64>().unwrap();
            let after = fdinfo::open_fds();
            src.fds = after.into_iter().filter(|f| !before.contains(f)).collect();
            src.scheds.push(sched);
            src.pending = Some(wrap!(exec));
        }
        "timer" => {
            let t = match spec.get("dl") {
                Some(Value::Number(n)) => {
                    let d = n.as_i64().unwrap_or(0);
                    if d >= 0 {
                        Timer::from_deadline(base + tick * (d as u32))
                    } else {
                        // a deadline before the base instant: already expired
                        Timer::from_deadline(base.checked_sub(tick * ((-d) as u32)).unwrap_or(base))
                    }
                }
                _ => Timer::from_duration(Duration::MAX),
            };
            src.pending = Some(wrap!(t));
        }
        _ => {
            // "comp": n children
            let children_spec: Vec<Value> = spec["children"].as_array().cloned().unwrap_or_else(|| {
                vec![json!({"interest": "r", "mode": "level"})]
            });
            let mut children = Vec::new();
            for c in children_spec.iter() {
                let interest = parse_interest(c["interest"].as_str().unwrap_or("r"));
                let mode = parse_mode(c["mode"].as_str().unwrap_or("level"));
                let fd = match c["fd"].as_str().unwrap_or("sock") {
                    "file" => {
                        let f = std::fs::File::open("/proc/self/status").unwrap();
                        src.peers.push(None);
                        src.own.push(None);
                        src.fds.push(f.as_raw_fd());
                        Fd::File(Rc::new(f))
                    }
                    "closed" => {
                        src.peers.push(None);
                        src.own.push(None);
                        src.fds.push(-1);
                        // an fd number that is certainly not open
                        Fd::Raw(1_000_000)
                    }
                    _ => {
                        let (a, b) = UnixStream::pair().unwrap();
                        a.set_nonblocking(true).unwrap();
                        b.set_nonblocking(true).unwrap();
                        let a = Rc::new(a);
                        src.fds.push(a.as_raw_fd());
                        src.own.push(Some(a.clone()));
                        src.peers.push(Some(b));
                        Fd::Sock(a)
                    }
                };
                let g = Generic::new(fd, interest, mode);
                if c["transient"].as_u64().unwrap_or(0) != 0 {
                    children.push(Child::Transient(TransientSource::from(g)));
                } else {
                    children.push(Child::Plain(g));
                }
            }
            let comp = Composite {
                id: s,
                children,
                faults: faults.clone(),
                rollback: spec["norollback"].as_u64().unwrap_or(0) == 0,
            };
            src.pending = Some(wrap!(comp));
        }
    }
    src
}

/// A second source over the *same* fd as child `c` of source `of` (duplicate registration).
pub fn build_dup_source(spec: &Value, of: &Src, c: usize, faults: &Rc<Faults>) -> Src {
    let s = spec["s"].as_u64().unwrap() as u32;
    let sock = of.own[c].clone().expect("dup of a socket child");
    let interest = parse_interest(spec["interest"].as_str().unwrap_or("r"));
    let mode = parse_mode(spec["mode"].as_str().unwrap_or("level"));
    let g = Generic::new(Fd::Sock(sock.clone()), interest, mode);
    let comp = Composite {
        id: s,
        children: vec![Child::Plain(g)],
        faults: faults.clone(),
        rollback: true,
    };
    Src {
        spec: spec.clone(),
        pending: Some(Box::new(Probe::<_, false>::new(s, comp, faults.clone(), vec![]))),
        held: None,
        pings: vec![],
        senders: vec![],
        sync_senders: vec![],
        peers: vec![None],
        own: vec![Some(sock.clone())],
        fds: vec![sock.as_raw_fd()],
        last_tok: None,
        stream: None,
        scheds: vec![],
    }
}

pub fn snapshot(w: &W) {
    let (weak, epfd) = {
        let wb = w.borrow();
        (wb.weak.clone(), wb.epfd)
    };
    let h = match weak.upgrade() {
        Some(h) => h,
        None => {
            ev("snap", json!({"gone": 1}));
            return;
        }
    };
    let st = h.verif_stats();
    let slots: Vec<Value> = st
        .slot_list
        .iter()
        .map(|(id, v, o)| json!([id, v, *o as u8]))
        .collect();
    let life: Vec<Value> = st.lifecycle.iter().map(|(id, v)| json!([id, v])).collect();
    let ep = fdinfo::read(epfd);
    ev(
        "snap",
        json!({"gone": 0, "slots": slots, "life": life, "idles": st.idles_len, "heap": st.timer_heap_len,
               "pending": post_action_str(st.pending_action), "epoll": fdinfo::to_json(&ep)}),
    );
}

/// Execute one operation.  `lp` is the loop (top level only), `ctx` = 0 at top level, the source id
/// inside a source callback, minus the idle id inside an idle callback.
pub fn exec_op(w: &W, lp: Option<&mut Option<EventLoop<'static, ()>>>, op: &Value, ctx: i64) {
    let name = op["op"].as_str().unwrap_or("").to_string();
    let s = op.get("s").and_then(|v| v.as_u64()).map(|v| v as u32);
    let mut op = op.clone();
    // "ts": the latest token issued for source `ts` (resolved here, logged as "t")
    if let Some(ts) = op.get("ts").and_then(|v| v.as_u64()) {
        let wb = w.borrow();
        let want = wb.srcs.get(&(ts as u32)).and_then(|x| x.last_tok);
        drop(wb);
        match want {
            Some(ti) => op["t"] = json!(ti),
            None => op["t"] = json!(1_000_000),
        }
    }
    let op = &op;
    let t = op.get("t").and_then(|v| v.as_u64()).map(|v| v as usize);
    let mut begin = op.clone();
    begin["ctx"] = json!(ctx);
    ev("op", begin);
    let handle = w.borrow().weak.upgrade();
    let mut ret = json!({"op": name, "ctx": ctx});
    macro_rules! done {
        ($r:expr) => {{
            ret["r"] = json!($r);
            ev("opret", ret);
            return;
        }};
    }
    let get_tok = |t: Option<usize>| -> Option<RegistrationToken> {
        t.and_then(|t| w.borrow().tokens.get(t).copied())
    };
    match name.as_str() {
        "insert" => {
            let s = s.unwrap();
            let (pending, held) = {
                let mut wb = w.borrow_mut();
                let src = wb.srcs.get_mut(&s).unwrap();
                (src.pending.take(), src.spec["held"].as_u64().unwrap_or(0) != 0)
            };
            let (Some(p), Some(h)) = (pending, handle) else { done!("nosrc") };
            let boxed = w.borrow().srcs.get(&s).map(|x| x.spec["boxed"].as_u64().unwrap_or(0) != 0).unwrap_or(false);
            BOXED.with(|b| b.set(boxed && !held));
            let r = guard(|| p.insert(&h, w, held));
            BOXED.with(|b| b.set(false));
            match r {
                Ok(Ok((tok, held))) => {
                    let mut wb = w.borrow_mut();
                    wb.tokens.push(tok);
                    let ti = wb.tokens.len() - 1;
                    let src = wb.srcs.get_mut(&s).unwrap();
                    src.held = held;
                    src.last_tok = Some(ti);
                    ret["t"] = json!(ti);
                    ret["tid"] = tok_json(&tok);
                    ret["s"] = json!(s);
                    drop(wb);
                    done!("ok")
                }
                Ok(Err((back, e))) => {
                    w.borrow_mut().srcs.get_mut(&s).unwrap().pending = Some(back);
                    ret["s"] = json!(s);
                    ret["msg"] = json!(e.to_string());
                    done!("err")
                }
                Err(m) => {
                    ret["s"] = json!(s);
                    ret["msg"] = json!(m);
                    done!("panic")
                }
            }
        }
        "remove" => {
            let (Some(tok), Some(h)) = (get_tok(t), handle) else { done!("notok") };
            let r = guard(|| h.remove(tok));
            match r {
                Ok(()) => done!("ok"),
                Err(m) => {
                    ret["msg"] = json!(m);
                    done!("panic")
                }
            }
        }
        "disable" | "enable" | "update" => {
            let (Some(tok), Some(h)) = (get_tok(t), handle) else { done!("notok") };
            let r = guard(|| match name.as_str() {
                "disable" => h.disable(&tok),
                "enable" => h.enable(&tok),
                _ => h.update(&tok),
            });
            let (rs, msg) = res_str(&r);
            if !msg.is_empty() {
                ret["msg"] = json!(msg);
            }
            done!(rs)
        }
        "ping" => {
            let wb = w.borrow();
            let r = match wb.srcs.get(&s.unwrap()).and_then(|x| x.pings.first()) {
                Some(p) => {
                    p.ping();
                    "ok"
                }
                None => "nohandle",
            };
            drop(wb);
            done!(r)
        }
        "clone_ping" => {
            let mut wb = w.borrow_mut();
            let src = wb.srcs.get_mut(&s.unwrap()).unwrap();
            let r = match src.pings.first().cloned() {
                Some(p) => {
                    src.pings.push(p);
                    "ok"
                }
                None => "nohandle",
            };
            drop(wb);
            done!(r)
        }
        "drop_ping" => {
            let p = w.borrow_mut().srcs.get_mut(&s.unwrap()).unwrap().pings.pop();
            let r = if p.is_some() { "ok" } else { "nohandle" };
            drop(p);
            done!(r)
        }
        "send" => {
            let m = op["m"].as_i64().unwrap_or(0);
            let wb = w.borrow();
            let src = wb.srcs.get(&s.unwrap()).unwrap();
            let r = if let Some(tx) = src.senders.first() {
                match tx.send(m) {
                    Ok(()) => "ok",
                    Err(_) => "disconnected",
                }
            } else if let Some(tx) = src.sync_senders.first() {
                match tx.try_send(m) {
                    Ok(()) => "ok",
                    Err(std::sync::mpsc::TrySendError::Full(_)) => "full",
                    Err(std::sync::mpsc::TrySendError::Disconnected(_)) => "disconnected",
                }
            } else {
                "nohandle"
            };
            drop(wb);
            done!(r)
        }
        "push_many" | "send_many" => {
            // n items at once (m0+1 ..= m0+n): more than the per-dispatch limits of the real code (1024)
            let m0 = op["m"].as_i64().unwrap_or(0);
            let n = op["d"].as_i64().unwrap_or(0);
            if name == "push_many" {
                let st = w.borrow().srcs.get(&s.unwrap()).and_then(|x| x.stream.clone());
                let Some(st) = st else { done!("nohandle") };
                let waker = {
                    let mut b = st.borrow_mut();
                    for i in 1..=n {
                        b.queue.push_back(m0 + i);
                    }
                    b.waker.take()
                };
                if let Some(wk) = waker {
                    wk.wake();
                }
                done!("ok")
            } else {
                let wb = w.borrow();
                let src = wb.srcs.get(&s.unwrap()).unwrap();
                let Some(tx) = src.senders.first() else { drop(wb); done!("nohandle") };
                let mut r = "ok";
                for i in 1..=n {
                    if tx.send(m0 + i).is_err() {
                        r = "disconnected";
                        break;
                    }
                }
                drop(wb);
                done!(r)
            }
        }
        "push" | "end_stream" => {
            let m = op["m"].as_i64().unwrap_or(0);
            let st = w.borrow().srcs.get(&s.unwrap()).and_then(|x| x.stream.clone());
            match st {
                Some(st) => {
                    let waker = {
                        let mut b = st.borrow_mut();
                        if name == "push" {
                            b.queue.push_back(m);
                        } else {
                            b.ended = true;
                        }
                        b.waker.take()
                    };
                    if let Some(wk) = waker {
                        wk.wake();
                    }
                    done!("ok")
                }
                None => done!("nohandle"),
            }
        }
        "schedule" => {
            let f = op["f"].as_i64().unwrap_or(0);
            let sched = w.borrow().srcs.get(&s.unwrap()).and_then(|x| x.scheds.first().cloned());
            let Some(sched) = sched else { done!("nohandle") };
            let st = Rc::new(RefCell::new(FutState::default()));
            w.borrow_mut().futs.insert(f, st.clone());
            let weak = Rc::downgrade(w);
            let sid = s.unwrap();
            let fut = ManualFut {
                s: sid,
                f,
                st,
                on_poll: Box::new(move |f, k| {
                    let Some(w) = weak.upgrade() else { return };
                    let prog = w.borrow().progs.get(&format!("f{}", f)).and_then(|v| v.get(k as usize)).cloned();
                    if let Some(ops) = prog.as_ref().and_then(|p| p.get("ops")).and_then(|o| o.as_array()) {
                        for op in ops {
                            exec_op(&w, None, op, sid as i64);
                        }
                    }
                }),
            };
            match guard(|| sched.schedule(fut)) {
                Ok(Ok(())) => done!("ok"),
                Ok(Err(_)) => done!("destroyed"),
                Err(msg) => {
                    ret["msg"] = json!(msg);
                    done!("panic")
                }
            }
        }
        "wake" | "complete" => {
            let f = op["f"].as_i64().unwrap_or(0);
            let st = w.borrow().futs.get(&f).cloned();
            let Some(st) = st else { done!("nofuture") };
            let waker = {
                let mut b = st.borrow_mut();
                if name == "complete" {
                    b.ready = Some(op["v"].as_i64().unwrap_or(0));
                }
                b.waker.take()
            };
            match waker {
                Some(wk) => {
                    wk.wake();
                    done!("ok")
                }
                None => done!("nowaker"),
            }
        }
        "clone_sched" => {
            let mut wb = w.borrow_mut();
            let src = wb.srcs.get_mut(&s.unwrap()).unwrap();
            let r = if let Some(x) = src.scheds.first().cloned() {
                src.scheds.push(x);
                "ok"
            } else {
                "nohandle"
            };
            drop(wb);
            done!(r)
        }
        "drop_sched" => {
            let x = w.borrow_mut().srcs.get_mut(&s.unwrap()).and_then(|x| x.scheds.pop());
            let r = if x.is_some() { "ok" } else { "nohandle" };
            drop(x);
            done!(r)
        }
        "clone_sender" => {
            let mut wb = w.borrow_mut();
            let src = wb.srcs.get_mut(&s.unwrap()).unwrap();
            let r = if let Some(tx) = src.senders.first().cloned() {
                src.senders.push(tx);
                "ok"
            } else if let Some(tx) = src.sync_senders.first().cloned() {
                src.sync_senders.push(tx);
                "ok"
            } else {
                "nohandle"
            };
            drop(wb);
            done!(r)
        }
        "drop_sender" => {
            let (a, b) = {
                let mut wb = w.borrow_mut();
                let src = wb.srcs.get_mut(&s.unwrap()).unwrap();
                (src.senders.pop(), src.sync_senders.pop())
            };
            let r = if a.is_some() || b.is_some() { "ok" } else { "nohandle" };
            drop(a);
            drop(b);
            done!(r)
        }
        "wr" => {
            let c = op["c"].as_u64().unwrap_or(0) as usize;
            let wb = w.borrow();
            let r = match wb.srcs.get(&s.unwrap()).and_then(|x| x.peers.get(c)).and_then(|p| p.as_ref()) {
                Some(mut p) => match p.write(&[7u8]) {
                    Ok(_) => "ok",
                    Err(_) => "err",
                },
                None => "nohandle",
            };
            drop(wb);
            done!(r)
        }
        "rd" => {
            let c = op["c"].as_u64().unwrap_or(0) as usize;
            let wb = w.borrow();
            let mut n = 0usize;
            if let Some(o) = wb.srcs.get(&s.unwrap()).and_then(|x| x.own.get(c)).and_then(|p| p.as_ref()) {
                let mut buf = [0u8; 256];
                loop {
                    match (&**o).read(&mut buf) {
                        Ok(0) => break,
                        Ok(k) => n += k,
                        Err(_) => break,
                    }
                }
            }
            drop(wb);
            ret["n"] = json!(n);
            done!("ok")
        }
        "close_peer" => {
            let c = op["c"].as_u64().unwrap_or(0) as usize;
            let p = {
                let mut wb = w.borrow_mut();
                wb.srcs.get_mut(&s.unwrap()).and_then(|x| x.peers.get_mut(c)).and_then(|p| p.take())
            };
            let r = if p.is_some() { "ok" } else { "nohandle" };
            drop(p);
            done!(r)
        }
        "set_deadline" => {
            let d = op["d"].as_i64().unwrap_or(0);
            let wb = w.borrow();
            let dl = if d >= 0 {
                wb.base + wb.tick * (d as u32)
            } else {
                wb.base.checked_sub(wb.tick * ((-d) as u32)).unwrap_or(wb.base)
            };
            let r = match wb.srcs.get(&s.unwrap()).and_then(|x| x.held.as_ref()) {
                Some(h) => match h.set_deadline(dl) {
                    Ok(true) => "ok".to_string(),
                    Ok(false) => "nottimer".to_string(),
                    Err(m) => {
                        ret["msg"] = json!(m);
                        "panic".to_string()
                    }
                },
                None => "nohandle".to_string(),
            };
            drop(wb);
            done!(r)
        }
        "advance" => {
            let k = op["k"].as_u64().unwrap_or(0) as u32;
            let (base, tick) = {
                let wb = w.borrow();
                (wb.base, wb.tick)
            };
            let target = base + tick * k + tick / 2;
            let now = Instant::now();
            if target > now {
                std::thread::sleep(target - now);
            }
            ret["us"] = json!(w.borrow().now_us());
            done!("ok")
        }
        "insert_idle_many" => {
            // d idles at once (ids m+1 ..= m+d): more than any per-dispatch limit of the real code
            let m0 = op["m"].as_u64().unwrap_or(0) as u32;
            let n = op["d"].as_u64().unwrap_or(0) as u32;
            let Some(h) = handle else { done!("noloop") };
            for i in (m0 + 1)..=(m0 + n) {
                let w2 = w.clone();
                let g = IdleGuard(i);
                let idle = h.insert_idle(move |_| {
                    let _g = &g;
                    run_idle(&w2, i);
                });
                w.borrow_mut().idles.insert(i, Some(idle));
            }
            done!("ok")
        }
        "insert_idle" => {
            let i = op["i"].as_u64().unwrap() as u32;
            let Some(h) = handle else { done!("noloop") };
            let w2 = w.clone();
            let g = IdleGuard(i);
            let r = guard(|| {
                h.insert_idle(move |_| {
                    let _g = &g;
                    run_idle(&w2, i);
                })
            });
            match r {
                Ok(idle) => {
                    w.borrow_mut().idles.insert(i, Some(idle));
                    ret["i"] = json!(i);
                    done!("ok")
                }
                Err(m) => {
                    ret["msg"] = json!(m);
                    done!("panic")
                }
            }
        }
        "cancel_idle" | "drop_idle" => {
            let i = op["i"].as_u64().unwrap() as u32;
            let idle = w.borrow_mut().idles.get_mut(&i).and_then(|x| x.take());
            ret["i"] = json!(i);
            match idle {
                Some(idle) => {
                    let r = guard(|| {
                        if name == "cancel_idle" {
                            idle.cancel()
                        } else {
                            drop(idle)
                        }
                    });
                    match r {
                        Ok(()) => done!("ok"),
                        Err(m) => {
                            ret["msg"] = json!(m);
                            done!("panic")
                        }
                    }
                }
                None => done!("nohandle"),
            }
        }
        "into_inner" => {
            let held = w.borrow_mut().srcs.get_mut(&s.unwrap()).and_then(|x| x.held.take());
            match held {
                Some(h) => match h.into_inner() {
                    Ok(src) => {
                        w.borrow_mut().srcs.get_mut(&s.unwrap()).unwrap().pending = Some(src);
                        done!("ok")
                    }
                    Err(m) => {
                        ret["msg"] = json!(m);
                        done!("panic")
                    }
                },
                None => done!("nohandle"),
            }
        }
        "drop_held" => {
            let held = w.borrow_mut().srcs.get_mut(&s.unwrap()).and_then(|x| x.held.take());
            let r = if held.is_some() { "ok" } else { "nohandle" };
            drop(held);
            done!(r)
        }
        "unwrap" => {
            // Generic::unwrap() on the children of a composite that is not inserted, then the rest of it is dropped
            let p = w.borrow_mut().srcs.get_mut(&s.unwrap()).and_then(|x| x.pending.take());
            match p {
                Some(mut p) => {
                    let ok = guard(|| p.unwrap_children());
                    drop(p);
                    match ok {
                        Ok(true) => done!("ok"),
                        Ok(false) => done!("unsupported"),
                        Err(m) => {
                            ret["msg"] = json!(m);
                            done!("panic")
                        }
                    }
                }
                None => done!("nohandle"),
            }
        }
        "drop_pending" => {
            let p = w.borrow_mut().srcs.get_mut(&s.unwrap()).and_then(|x| x.pending.take());
            let r = if p.is_some() { "ok" } else { "nohandle" };
            drop(p);
            done!(r)
        }
        "fault" => {
            let call = op["call"].as_str().unwrap_or("register");
            w.borrow().faults.arm_next(s.unwrap(), call);
            done!("ok")
        }
        "dispatch" => {
            let Some(lp) = lp else { done!("nested") };
            let Some(el) = lp.as_mut() else { done!("noloop") };
            let timeout = match op.get("timeout") {
                Some(Value::Number(n)) => Some(Duration::from_micros(n.as_u64().unwrap_or(0))),
                _ => Some(Duration::ZERO),
            };
            let us0 = w.borrow().now_us();
            let r = guard(|| el.dispatch(timeout, &mut ()));
            let (rs, msg) = res_str(&r);
            if !msg.is_empty() {
                ret["msg"] = json!(msg);
            }
            ret["us0"] = json!(us0);
            ret["us"] = json!(w.borrow().now_us());
            done!(rs)
        }
        "wakeup" => {
            // LoopSignal::wakeup(): the next wait returns at once with nothing to report
            let sig = w.borrow().signal.clone();
            match sig {
                Some(sg) => {
                    sg.wakeup();
                    done!("ok")
                }
                None => done!("nohandle"),
            }
        }
        "drop_loop" => {
            let Some(lp) = lp else { done!("nested") };
            drop(handle);
            let el = lp.take();
            let r = guard(|| drop(el));
            match r {
                Ok(()) => done!("ok"),
                Err(m) => {
                    ret["msg"] = json!(m);
                    done!("panic")
                }
            }
        }
        _ => done!("unknown"),
    }
}

/// Install the observer that logs the loop's own view of a dispatch.
pub fn install_observer(w: &W) {
    let w = w.clone();
    calloop::verif::set_observer(Some(Box::new(move |o| {
        use calloop::verif::Obs;
        let us = w.try_borrow().map(|wb| wb.now_us()).unwrap_or(-1);
        match o {
            Obs::WaitBegin { timeout_us } => ev(
                "wait",
                json!({"timeout": timeout_us.map(|t| t.min(2_000_000_000) as i64).unwrap_or(-1), "us": us}),
            ),
            Obs::Batch { keys, n_real } => {
                let ks: Vec<Value> = keys.iter().map(|k| key3(*k)).collect();
                ev("batch", json!({"keys": ks, "n_real": n_real, "us": us}))
            }
            Obs::Synthetic { keys } => {
                let ks: Vec<Value> = keys.iter().map(|k| key3(*k)).collect();
                ev("synth", json!({"keys": ks}))
            }
            Obs::Lookup { key, found } => {
                ev("lookup", json!({"key": key3(key), "found": found as u8}))
            }
            Obs::Apply { key, action } => ev(
                "apply",
                json!({"key": key3(key), "act": post_action_str(action)}),
            ),
        }
    })));
}

/// The declaration of a source as logged in `reset`: every field present, no nulls.
fn normal_decl(spec: &Value, fds: &[i32]) -> Value {
    let kind = spec["kind"].as_str().unwrap_or("ping");
    let children: Vec<Value> = if spec.get("dupof").is_some() {
        vec![json!({"interest": spec["interest"].as_str().unwrap_or("r"),
                    "mode": spec["mode"].as_str().unwrap_or("level"),
                    "transient": 0, "fd": "sock"})]
    } else if kind == "comp" {
        spec["children"]
            .as_array()
            .cloned()
            .unwrap_or_else(|| vec![json!({})])
            .iter()
            .map(|c| {
                json!({"interest": c["interest"].as_str().unwrap_or("r"),
                       "mode": c["mode"].as_str().unwrap_or("level"),
                       "transient": c["transient"].as_u64().unwrap_or(0),
                       "fd": c["fd"].as_str().unwrap_or("sock")})
            })
            .collect()
    } else {
        vec![]
    };
    json!({
        "s": spec["s"],
        "kind": if spec.get("dupof").is_some() { "comp" } else { kind },
        "life": spec["life"].as_u64().unwrap_or(0),
        "held": spec["held"].as_u64().unwrap_or(0),
        "dl": spec["dl"].as_i64().unwrap_or(-1_000_000),
        "hasdl": spec["dl"].is_i64() as u8,
        "cap": spec["cap"].as_i64().unwrap_or(-1),
        "children": children,
        "fds": fds,
        "synth": spec["synth"].as_array().cloned().unwrap_or_default(),
        "ondrop": spec["ondrop"].as_u64().unwrap_or(0),
    })
}

/// Run one scenario: `{"id":..., "tick_us":..., "sources":[...], "faults":[...], "progs":{...}, "steps":[...]}`.
pub fn run_scenario(scn: &Value) {
    let tick = Duration::from_micros(scn["tick_us"].as_u64().unwrap_or(20_000));
    let mut lp: Option<EventLoop<'static, ()>> = Some(EventLoop::try_new().unwrap());
    let epfd = lp.as_ref().unwrap().as_raw_fd();
    let faults = Rc::new(Faults::default());
    if let Some(fs) = scn["faults"].as_array() {
        for f in fs {
            faults.arm(
                f["s"].as_u64().unwrap() as u32,
                f["call"].as_str().unwrap(),
                f["idx"].as_u64().unwrap_or(0) as usize,
            );
        }
    }
    // per-dispatch batch limit of channel / executor (1024 unless the scenario lowers it)
    calloop::verif::set_batch_limit(scn["limit"].as_u64().unwrap_or(1024) as usize);
    let base = Instant::now();
    crate::trace::set_base(base);
    let mut progs = BTreeMap::new();
    if let Some(p) = scn["progs"].as_object() {
        for (k, v) in p {
            progs.insert(k.clone(), v.as_array().cloned().unwrap_or_default());
        }
    }
    let w: W = Rc::new(RefCell::new(World {
        weak: {
            let wk = lp.as_ref().unwrap().handle().downgrade();
            Weak(Rc::new(move || wk.upgrade()))
        },
        epfd,
        signal: Some(lp.as_ref().unwrap().get_signal()),
        tokens: vec![],
        srcs: BTreeMap::new(),
        idles: BTreeMap::new(),
        progs,
        cbcount: BTreeMap::new(),
        futs: BTreeMap::new(),
        faults: faults.clone(),
        base,
        tick,
        stack: vec![],
        overrun: Cell::new(false),
    }));
    let mut decl = Vec::new();
    if let Some(srcs) = scn["sources"].as_array() {
        for spec in srcs {
            let s = spec["s"].as_u64().unwrap() as u32;
            let src = if let Some(d) = spec.get("dupof") {
                let of = d[0].as_u64().unwrap() as u32;
                let c = d[1].as_u64().unwrap_or(0) as usize;
                let wb = w.borrow();
                build_dup_source(spec, wb.srcs.get(&of).unwrap(), c, &faults)
            } else {
                build_source(spec, &faults, base, tick, &w)
            };
            decl.push(normal_decl(spec, &src.fds));
            w.borrow_mut().srcs.insert(s, src);
        }
    }
    ev(
        "reset",
        json!({"id": scn["id"], "srcs": decl, "tick_us": tick.as_micros() as u64, "epfd": epfd,
               "limit": scn["limit"].as_u64().unwrap_or(1024)}),
    );
    install_observer(&w);
    snapshot(&w);
    if let Some(steps) = scn["steps"].as_array() {
        for op in steps {
            exec_op(&w, Some(&mut lp), op, 0);
            snapshot(&w);
        }
    }
    calloop::verif::set_observer(None);
    // tear down: loop first (if still there), then whatever the driver still holds
    ev("teardown", json!({}));
    let r = guard(|| drop(lp.take()));
    if let Err(m) = r {
        ev("teardown_panic", json!({"msg": m}));
    }
    let mut wb = w.borrow_mut();
    let srcs = std::mem::take(&mut wb.srcs);
    let idles = std::mem::take(&mut wb.idles);
    let futs = std::mem::take(&mut wb.futs);
    drop(wb);
    drop(idles);
    drop(srcs);
    drop(futs);
    ev("end", json!({"id": scn["id"]}));
}
