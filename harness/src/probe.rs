//! Instrumented event sources: `Probe<S, LIFE>` wraps any real source and logs every call the
//! loop makes on it; `Composite` is a well-behaved user-level composite of `Generic` children.

use crate::trace::{ev, key3, post_action_str};
use calloop::generic::Generic;
use calloop::transient::TransientSource;
use calloop::{
    EventIterator, EventSource, Interest, Mode, Poll, PostAction, Readiness, Token, TokenFactory,
};
use serde_json::{json, Value};
use std::cell::RefCell;
use std::collections::BTreeMap;
use std::os::unix::io::{AsFd, AsRawFd, BorrowedFd, RawFd};
use std::os::unix::net::UnixStream;
use std::rc::Rc;

/// Fault plan: (source id, call name) -> call indices (0-based, per source and call) that fail.
#[derive(Default, Debug)]
pub struct Faults {
    plan: RefCell<BTreeMap<(u32, String), Vec<usize>>>,
    count: RefCell<BTreeMap<(u32, String), usize>>,
}

impl Faults {
    pub fn arm(&self, s: u32, call: &str, idx: usize) {
        self.plan
            .borrow_mut()
            .entry((s, call.to_string()))
            .or_default()
            .push(idx);
    }
    /// Count one call; true if this call must fail.
    pub fn hit(&self, s: u32, call: &str) -> bool {
        let key = (s, call.to_string());
        let mut c = self.count.borrow_mut();
        let n = c.entry(key.clone()).or_insert(0);
        let idx = *n;
        *n += 1;
        self.plan
            .borrow()
            .get(&key)
            .map(|v| v.contains(&idx))
            .unwrap_or(false)
    }
    /// Arm a fault for the *next* call of that kind.
    pub fn arm_next(&self, s: u32, call: &str) {
        let key = (s, call.to_string());
        let idx = *self.count.borrow().get(&key).unwrap_or(&0);
        self.arm(s, call, idx);
    }
}

fn injected() -> std::io::Error {
    std::io::Error::new(std::io::ErrorKind::Other, "injected fault")
}

#[derive(Debug)]
pub struct ProbeError(pub String);
impl std::fmt::Display for ProbeError {
    fn fmt(&self, f: &mut std::fmt::Formatter<'_>) -> std::fmt::Result {
        f.write_str(&self.0)
    }
}
impl std::error::Error for ProbeError {}

/// Access to the timer inside a probe (only `Probe<Timer>` answers).
pub trait DeadlineAccess {
    fn set_dl(&mut self, _dl: std::time::Instant) -> bool {
        false
    }
    fn cur_dl(&self) -> Option<Option<std::time::Instant>> {
        None
    }
}

pub struct Probe<S, const LIFE: bool> {
    pub id: u32,
    pub inner: S,
    pub faults: Rc<Faults>,
    synth_tok: Option<Token>,
    /// before_sleep call indices that return a synthetic event
    pub synth_at: Vec<usize>,
    bs_calls: usize,
    pub live: Rc<std::cell::Cell<bool>>,
    /// user code that runs inside this source's Drop (re-enters the loop through a handle)
    pub on_drop: Option<Box<dyn FnOnce()>>,
}

impl<S, const LIFE: bool> Probe<S, LIFE> {
    pub fn new(id: u32, inner: S, faults: Rc<Faults>, synth_at: Vec<usize>) -> Self {
        Probe {
            id,
            inner,
            faults,
            synth_tok: None,
            synth_at,
            bs_calls: 0,
            live: Rc::new(std::cell::Cell::new(true)),
            on_drop: None,
        }
    }
}

impl<S, const LIFE: bool> Drop for Probe<S, LIFE> {
    fn drop(&mut self) {
        ev("drop_src", json!({"s": self.id}));
        if let Some(f) = self.on_drop.take() {
            f();
        }
    }
}

impl<S: EventSource, const LIFE: bool> EventSource for Probe<S, LIFE> {
    type Event = S::Event;
    type Metadata = S::Metadata;
    type Ret = S::Ret;
    type Error = ProbeError;

    fn process_events<F>(
        &mut self,
        readiness: Readiness,
        token: Token,
        callback: F,
    ) -> Result<PostAction, Self::Error>
    where
        F: FnMut(Self::Event, &mut Self::Metadata) -> Self::Ret,
    {
        ev(
            "pe",
            json!({"s": self.id, "key": key3(token.verif_raw()),
                   "rd": readiness.readable as u8, "wr": readiness.writable as u8}),
        );
        if self.faults.hit(self.id, "process") {
            ev("peret", json!({"s": self.id, "act": "err", "us": crate::trace::us()}));
            return Err(ProbeError("injected process_events fault".into()));
        }
        if self.synth_tok == Some(token) {
            ev("synth_pe", json!({"s": self.id}));
            ev("peret", json!({"s": self.id, "act": "continue", "us": crate::trace::us()}));
            return Ok(PostAction::Continue);
        }
        let r = self.inner.process_events(readiness, token, callback);
        match r {
            Ok(a) => {
                ev("peret", json!({"s": self.id, "act": post_action_str(a), "us": crate::trace::us()}));
                Ok(a)
            }
            Err(e) => {
                ev("peret", json!({"s": self.id, "act": "err", "us": crate::trace::us()}));
                let b: Box<dyn std::error::Error + Sync + Send> = e.into();
                Err(ProbeError(b.to_string()))
            }
        }
    }

    fn register(&mut self, poll: &mut Poll, tf: &mut TokenFactory) -> calloop::Result<()> {
        if self.faults.hit(self.id, "register") {
            ev("reg", json!({"s": self.id, "r": "err", "inj": 1}));
            return Err(injected().into());
        }
        let r = self.inner.register(poll, tf);
        if r.is_ok() && LIFE {
            self.synth_tok = Some(tf.token());
        }
        ev(
            "reg",
            json!({"s": self.id, "r": if r.is_ok() {"ok"} else {"err"}, "inj": 0}),
        );
        r
    }

    fn reregister(&mut self, poll: &mut Poll, tf: &mut TokenFactory) -> calloop::Result<()> {
        if self.faults.hit(self.id, "reregister") {
            ev("rereg", json!({"s": self.id, "r": "err", "inj": 1}));
            return Err(injected().into());
        }
        let r = self.inner.reregister(poll, tf);
        if r.is_ok() && LIFE {
            self.synth_tok = Some(tf.token());
        }
        ev(
            "rereg",
            json!({"s": self.id, "r": if r.is_ok() {"ok"} else {"err"}, "inj": 0}),
        );
        r
    }

    fn unregister(&mut self, poll: &mut Poll) -> calloop::Result<()> {
        if self.faults.hit(self.id, "unregister") {
            // a realistic unregistration failure (ENOENT / EBADF) means the fd is already gone
            // from the poller: let the wrapped source clean up, then report the error
            let _ = self.inner.unregister(poll);
            self.synth_tok = None;
            ev("unreg", json!({"s": self.id, "r": "err", "inj": 1}));
            return Err(injected().into());
        }
        let r = self.inner.unregister(poll);
        if r.is_ok() {
            self.synth_tok = None;
        }
        ev(
            "unreg",
            json!({"s": self.id, "r": if r.is_ok() {"ok"} else {"err"}, "inj": 0}),
        );
        r
    }

    const NEEDS_EXTRA_LIFECYCLE_EVENTS: bool = LIFE;

    fn before_sleep(&mut self) -> calloop::Result<Option<(Readiness, Token)>> {
        let k = self.bs_calls;
        self.bs_calls += 1;
        if self.faults.hit(self.id, "before_sleep") {
            ev("bs", json!({"s": self.id, "r": "err", "synth": 0}));
            return Err(injected().into());
        }
        let synth = self.synth_at.contains(&k) && self.synth_tok.is_some();
        ev("bs", json!({"s": self.id, "r": "ok", "synth": synth as u8}));
        if synth {
            Ok(Some((
                Readiness {
                    readable: true,
                    writable: false,
                    error: false,
                },
                self.synth_tok.unwrap(),
            )))
        } else {
            Ok(None)
        }
    }

    fn before_handle_events(&mut self, events: EventIterator<'_>) {
        let keys: Vec<Value> = events.map(|(_, t)| key3(t.verif_raw())).collect();
        ev("bhe", json!({"s": self.id, "keys": keys}));
    }
}

impl<const LIFE: bool> DeadlineAccess for Probe<calloop::timer::Timer, LIFE> {
    fn set_dl(&mut self, dl: std::time::Instant) -> bool {
        self.inner.set_deadline(dl);
        true
    }
    fn cur_dl(&self) -> Option<Option<std::time::Instant>> {
        Some(self.inner.current_deadline())
    }
}
impl<const LIFE: bool> DeadlineAccess for Probe<calloop::ping::PingSource, LIFE> {}
impl<T, const LIFE: bool> DeadlineAccess for Probe<calloop::channel::Channel<T>, LIFE> {}
impl<const LIFE: bool> DeadlineAccess for Probe<Composite, LIFE> {}
impl<T, const LIFE: bool> DeadlineAccess for Probe<calloop::futures::Executor<T>, LIFE> {}
impl<S: futures::Stream + Unpin, const LIFE: bool> DeadlineAccess for Probe<calloop::stream::StreamSource<S>, LIFE> {}

/// A future driven by the scenario: `complete` makes it ready, `wake` wakes the waker it stored at its last poll.
#[derive(Default)]
pub struct FutState {
    pub ready: Option<i64>,
    pub waker: Option<std::task::Waker>,
    pub polls: u32,
}

pub struct ManualFut {
    pub s: u32,
    pub f: i64,
    pub st: Rc<RefCell<FutState>>,
    /// runs the scripted operations of the k-th poll (scheduling / completing / waking from inside a future)
    pub on_poll: Box<dyn Fn(i64, u32)>,
}

impl std::future::Future for ManualFut {
    type Output = i64;
    fn poll(self: std::pin::Pin<&mut Self>, cx: &mut std::task::Context<'_>) -> std::task::Poll<i64> {
        let k = {
            let mut st = self.st.borrow_mut();
            st.polls += 1;
            st.polls - 1
        };
        ev("poll", json!({"s": self.s, "f": self.f, "k": k}));
        (self.on_poll)(self.f, k);
        let mut st = self.st.borrow_mut();
        if let Some(v) = st.ready {
            st.waker = None;
            drop(st);
            ev("pollret", json!({"s": self.s, "f": self.f, "r": "ready", "v": v}));
            std::task::Poll::Ready(v)
        } else {
            st.waker = Some(cx.waker().clone());
            drop(st);
            ev("pollret", json!({"s": self.s, "f": self.f, "r": "pending", "v": 0}));
            std::task::Poll::Pending
        }
    }
}

impl Drop for ManualFut {
    fn drop(&mut self) {
        ev("fdrop", json!({"s": self.s, "f": self.f}));
    }
}

/// A stream fed by the driver: items are pushed between (or during) dispatches.
#[derive(Default)]
pub struct StreamState {
    pub queue: std::collections::VecDeque<i64>,
    pub ended: bool,
    pub waker: Option<std::task::Waker>,
}

pub struct ManualStream(pub Rc<RefCell<StreamState>>);

impl futures::Stream for ManualStream {
    type Item = i64;
    fn poll_next(self: std::pin::Pin<&mut Self>, cx: &mut std::task::Context<'_>) -> std::task::Poll<Option<i64>> {
        let mut st = self.0.borrow_mut();
        if let Some(v) = st.queue.pop_front() {
            std::task::Poll::Ready(Some(v))
        } else if st.ended {
            std::task::Poll::Ready(None)
        } else {
            st.waker = Some(cx.waker().clone());
            std::task::Poll::Pending
        }
    }
}

/// File descriptor flavours a `Composite` child can sit on.
#[derive(Debug, Clone)]
pub enum Fd {
    Sock(Rc<UnixStream>),
    File(Rc<std::fs::File>),
    /// a raw number that may or may not be open
    Raw(RawFd),
}

impl AsFd for Fd {
    fn as_fd(&self) -> BorrowedFd<'_> {
        match self {
            Fd::Sock(s) => s.as_fd(),
            Fd::File(f) => f.as_fd(),
            Fd::Raw(r) => unsafe { BorrowedFd::borrow_raw(*r) },
        }
    }
}

impl Fd {
    pub fn raw(&self) -> RawFd {
        self.as_fd().as_raw_fd()
    }
}

pub enum Child {
    Plain(Generic<Fd>),
    Transient(TransientSource<Generic<Fd>>),
}

/// A user-level composite source: n `Generic` children, one sub-token each.  On a failed
/// registration it rolls back the children registered so far (a well-behaved composite).
pub struct Composite {
    pub id: u32,
    pub children: Vec<Child>,
    pub faults: Rc<Faults>,
    /// false: a failing registration step returns at once (`?`-style user code), leaving the children registered so
    /// far in the poller
    pub rollback: bool,
}

impl Composite {
    fn unregister_upto(&mut self, poll: &mut Poll, n: usize) {
        for ch in self.children.iter_mut().take(n) {
            let _ = match ch {
                Child::Plain(g) => g.unregister(poll),
                Child::Transient(t) => t.unregister(poll),
            };
        }
    }
}

impl EventSource for Composite {
    type Event = (usize, Readiness);
    type Metadata = ();
    type Ret = std::io::Result<PostAction>;
    type Error = std::io::Error;

    fn process_events<F>(
        &mut self,
        readiness: Readiness,
        token: Token,
        mut callback: F,
    ) -> Result<PostAction, Self::Error>
    where
        F: FnMut(Self::Event, &mut Self::Metadata) -> Self::Ret,
    {
        let mut act: Option<PostAction> = None;
        for (i, ch) in self.children.iter_mut().enumerate() {
            let a = match ch {
                Child::Plain(g) => {
                    g.process_events(readiness, token, |r, _| callback((i, r), &mut ()))?
                }
                Child::Transient(t) => {
                    t.process_events(readiness, token, |r, _| callback((i, r), &mut ()))?
                }
            };
            act = Some(match act {
                None => a,
                Some(x) => x | a,
            });
        }
        Ok(act.unwrap_or(PostAction::Continue))
    }

    fn register(&mut self, poll: &mut Poll, tf: &mut TokenFactory) -> calloop::Result<()> {
        for i in 0..self.children.len() {
            let r = if self.faults.hit(self.id, &format!("child_register{}", i)) {
                Err(injected().into())
            } else {
                match &mut self.children[i] {
                    Child::Plain(g) => g.register(poll, tf),
                    Child::Transient(t) => t.register(poll, tf),
                }
            };
            if let Err(e) = r {
                if self.rollback {
                    self.unregister_upto(poll, i);
                }
                return Err(e);
            }
        }
        Ok(())
    }

    fn reregister(&mut self, poll: &mut Poll, tf: &mut TokenFactory) -> calloop::Result<()> {
        for i in 0..self.children.len() {
            if self.faults.hit(self.id, &format!("child_reregister{}", i)) {
                return Err(injected().into());
            }
            match &mut self.children[i] {
                Child::Plain(g) => g.reregister(poll, tf)?,
                Child::Transient(t) => t.reregister(poll, tf)?,
            }
        }
        Ok(())
    }

    fn unregister(&mut self, poll: &mut Poll) -> calloop::Result<()> {
        let mut first_err = None;
        for ch in self.children.iter_mut() {
            let r = match ch {
                Child::Plain(g) => g.unregister(poll),
                Child::Transient(t) => t.unregister(poll),
            };
            if let Err(e) = r {
                first_err.get_or_insert(e);
            }
        }
        match first_err {
            None => Ok(()),
            Some(e) => Err(e),
        }
    }
}

pub fn parse_interest(s: &str) -> Interest {
    match s {
        "r" => Interest::READ,
        "w" => Interest::WRITE,
        "rw" => Interest::BOTH,
        _ => Interest::EMPTY,
    }
}

pub fn parse_mode(s: &str) -> Mode {
    match s {
        "edge" => Mode::Edge,
        "oneshot" => Mode::OneShot,
        _ => Mode::Level,
    }
}
