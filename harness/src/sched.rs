//! Step scheduler: real OS threads that run only when the controller grants them a step.
//!
//! Every enrolled thread parks at each `calloop::verif::yield_point(label)` (compiled into the crate
//! with `--cfg calloop_verif`) and at the explicit `Sched::park` calls of the drivers.  The controller
//! grants one thread at a time; the thread runs to its next yield point, finishes, or blocks in a real
//! blocking call (detected by a timeout; it keeps its grant and is picked up again when it parks).

use std::collections::BTreeMap;
use std::sync::{Arc, Condvar, Mutex};
use std::time::{Duration, Instant};

pub type Tid = u32;

#[derive(Debug, Clone, PartialEq, Eq)]
pub enum Status {
    /// not yet at its first yield point / running a granted step
    Running,
    /// parked at a yield point with this label
    Parked(&'static str),
    /// was granted a step and has not come back within the detection timeout
    Blocked,
    Finished,
}

#[derive(Debug, Clone, PartialEq, Eq)]
pub enum StepResult {
    Parked(&'static str),
    Blocked,
    Finished,
}

struct State {
    status: BTreeMap<Tid, Status>,
    granted: Option<Tid>,
}

pub struct Sched {
    st: Mutex<State>,
    cv: Condvar,
    /// how long the controller waits before it declares a granted thread blocked
    pub block_detect: Duration,
}

impl Sched {
    pub fn new(block_detect: Duration) -> Arc<Sched> {
        Arc::new(Sched {
            st: Mutex::new(State {
                status: BTreeMap::new(),
                granted: None,
            }),
            cv: Condvar::new(),
            block_detect,
        })
    }

    /// Called by the controller before spawning thread `tid`.
    pub fn add(&self, tid: Tid) {
        self.st.lock().unwrap().status.insert(tid, Status::Running);
    }

    /// Called on the thread itself: install the yield hook so that library yield points park it.
    pub fn enroll(self: &Arc<Self>, tid: Tid) {
        let me = self.clone();
        calloop::verif::set_yield_hook(Some(Box::new(move |label| me.park(tid, label))));
    }

    pub fn unenroll() {
        calloop::verif::set_yield_hook(None);
    }

    /// Park the calling thread until the controller grants it.
    pub fn park(&self, tid: Tid, label: &'static str) {
        crate::trace::ev("y", serde_json::json!({"t": tid, "l": label}));
        let mut st = self.st.lock().unwrap();
        st.status.insert(tid, Status::Parked(label));
        self.cv.notify_all();
        while st.granted != Some(tid) {
            st = self.cv.wait(st).unwrap();
        }
        st.granted = None;
        st.status.insert(tid, Status::Running);
        self.cv.notify_all();
    }

    /// Called on the thread when its script is over.
    pub fn finish(&self, tid: Tid) {
        calloop::verif::set_yield_hook(None);
        let mut st = self.st.lock().unwrap();
        st.status.insert(tid, Status::Finished);
        self.cv.notify_all();
    }

    pub fn status(&self, tid: Tid) -> Status {
        self.st.lock().unwrap().status.get(&tid).cloned().unwrap_or(Status::Finished)
    }

    /// Wait until `tid` is parked or finished (used for the initial run-up to the first yield point).
    pub fn wait_settled(&self, tid: Tid, max: Duration) -> Status {
        let deadline = Instant::now() + max;
        let mut st = self.st.lock().unwrap();
        loop {
            match st.status.get(&tid) {
                Some(Status::Parked(_)) | Some(Status::Finished) | None => {
                    return st.status.get(&tid).cloned().unwrap_or(Status::Finished)
                }
                _ => {}
            }
            let now = Instant::now();
            if now >= deadline {
                return st.status.get(&tid).cloned().unwrap();
            }
            st = self.cv.wait_timeout(st, deadline - now).unwrap().0;
        }
    }

    /// Grant one step to `tid` and wait for the outcome.  If the thread is currently blocked in a real
    /// blocking call, no grant is needed: wait (up to `max_blocked`) for it to come back.
    pub fn step(&self, tid: Tid, max_blocked: Duration) -> StepResult {
        let mut st = self.st.lock().unwrap();
        let was_blocked = matches!(st.status.get(&tid), Some(Status::Blocked));
        match st.status.get(&tid) {
            Some(Status::Finished) | None => return StepResult::Finished,
            Some(Status::Parked(_)) => {
                st.granted = Some(tid);
                st.status.insert(tid, Status::Running);
                self.cv.notify_all();
            }
            _ => {}
        }
        let deadline = Instant::now() + if was_blocked { max_blocked } else { self.block_detect };
        loop {
            // the thread must have consumed the grant before a Parked status counts as "after the step"
            if st.granted != Some(tid) {
                match st.status.get(&tid) {
                    Some(Status::Parked(l)) => return StepResult::Parked(l),
                    Some(Status::Finished) | None => return StepResult::Finished,
                    _ => {}
                }
            }
            let now = Instant::now();
            if now >= deadline {
                st.status.insert(tid, Status::Blocked);
                return StepResult::Blocked;
            }
            st = self.cv.wait_timeout(st, deadline - now).unwrap().0;
        }
    }

    /// Threads that can be granted a step right now.
    pub fn runnable(&self) -> Vec<Tid> {
        let st = self.st.lock().unwrap();
        st.status
            .iter()
            .filter(|(_, s)| matches!(s, Status::Parked(_)))
            .map(|(t, _)| *t)
            .collect()
    }

    pub fn all_finished(&self) -> bool {
        let st = self.st.lock().unwrap();
        st.status.values().all(|s| matches!(s, Status::Finished))
    }

    pub fn unfinished(&self) -> Vec<Tid> {
        let st = self.st.lock().unwrap();
        st.status
            .iter()
            .filter(|(_, s)| !matches!(s, Status::Finished))
            .map(|(t, _)| *t)
            .collect()
    }
}
