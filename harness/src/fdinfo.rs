//! The kernel's own view of an epoll instance, from /proc/self/fdinfo/<epfd>.

use serde_json::{json, Value};
use std::os::unix::io::RawFd;

#[derive(Debug, Clone, PartialEq, Eq, PartialOrd, Ord)]
pub struct Entry {
    pub fd: i32,
    pub readable: bool,
    pub writable: bool,
    /// "level" | "edge" | "oneshot"
    pub mode: &'static str,
    pub key: u64,
}

const EPOLLIN: u32 = 0x1;
const EPOLLOUT: u32 = 0x4;
const EPOLLONESHOT: u32 = 1 << 30;
const EPOLLET: u32 = 1 << 31;

/// All registrations of the epoll instance except the poller's own notifier / timerfd
/// (which carry the reserved key), sorted by fd.
pub fn read(epfd: RawFd) -> Vec<Entry> {
    let txt = match std::fs::read_to_string(format!("/proc/self/fdinfo/{}", epfd)) {
        Ok(t) => t,
        Err(_) => return Vec::new(),
    };
    let mut out = Vec::new();
    for line in txt.lines() {
        if !line.starts_with("tfd:") {
            continue;
        }
        let toks: Vec<&str> = line.split_whitespace().collect();
        // tfd: <n> events: <hex> data: <hex> ...
        let mut fd = -1;
        let mut events = 0u32;
        let mut data = 0u64;
        let mut i = 0;
        while i + 1 < toks.len() {
            match toks[i] {
                "tfd:" => fd = toks[i + 1].parse().unwrap_or(-1),
                "events:" => events = u32::from_str_radix(toks[i + 1], 16).unwrap_or(0),
                "data:" => data = u64::from_str_radix(toks[i + 1], 16).unwrap_or(0),
                _ => {}
            }
            i += 2;
        }
        if data == u64::MAX {
            continue;
        }
        let mode = if events & EPOLLONESHOT != 0 {
            "oneshot"
        } else if events & EPOLLET != 0 {
            "edge"
        } else {
            "level"
        };
        out.push(Entry {
            fd,
            readable: events & EPOLLIN != 0,
            writable: events & EPOLLOUT != 0,
            mode,
            key: data,
        });
    }
    out.sort();
    out
}

/// JSON form: [fd, r, w, mode, id, version, sub]
pub fn to_json(entries: &[Entry]) -> Value {
    Value::Array(
        entries
            .iter()
            .map(|e| {
                let (id, ver, sub) = calloop::verif::unpack(e.key as usize);
                json!([e.fd, e.readable as u8, e.writable as u8, e.mode, id, ver, sub])
            })
            .collect(),
    )
}

/// The set of open fds of this process (used to learn which fd a constructor opened).
pub fn open_fds() -> Vec<i32> {
    let mut v: Vec<i32> = std::fs::read_dir("/proc/self/fd")
        .map(|rd| {
            rd.filter_map(|e| e.ok())
                .filter_map(|e| e.file_name().to_string_lossy().parse().ok())
                .collect()
        })
        .unwrap_or_default();
    // the directory handle used for the listing is itself in the listing: keep only fds that
    // are still open now
    v.retain(|fd| unsafe { libc::fcntl(*fd, libc::F_GETFD) } != -1);
    v.sort();
    v
}
