//! Conformance harness for calloop: drives the real crate (built from /repo with
//! `--cfg calloop_verif`) and records NDJSON traces that TLC validates against the specs.
pub mod core;
pub mod fdinfo;
pub mod probe;
pub mod sched;
pub mod trace;
