//! usage: drive_asyncio <scenarios.ndjson> <trace-out.ndjson>
//!
//! C17 driver: executes scenarios on the REAL `calloop::io::Async` adapter (`LoopHandle::adapt_io`)
//! over a `UnixStream::pair()`, with a real calloop `Executor` inserted in a real `EventLoop`.
//!
//! Scale: one model byte = one BLOCK of `N` real bytes.  Both ends get the minimal `SO_SNDBUF`;
//! `N = SO_SNDBUF/2 - 64` is the largest chunk the kernel puts into one skb of an AF_UNIX stream
//! socket, so every block is exactly one skb, partial writes end on block boundaries and the
//! capacity of a direction is a whole number of blocks.  The capacity (`cap`, blocks accepted until
//! EAGAIN) and the EPOLLOUT low-water mark (`lw`, the largest number of queued blocks for which
//! poll() still reports POLLOUT) are MEASURED on a scratch pair at start and logged with every
//! scenario; a partial write that does not end on a block boundary makes the driver exit(3).
//!
//! Scenario (one JSON line):
//!   {"id": "..", "seed": 7, "join": 0,
//!    "nb0": [0, 1, 0],                       O_NONBLOCK of end 1, end 2, the regular file beforehand
//!    "tasks": {"R": {"ad": 2, "ops": [["read", 2], ["readable", 0]]}, "W": {"ad": 1, "ops": [["write", 3]]}},
//!    "streams": [[0,1,1], [1,0]],            symbols written INTO the receive queue of end 1 / end 2
//!    "steps": [{"op":"adapt","e":1}, {"op":"spawn","t":"W"}, {"op":"peer","k":"w","n":2},
//!              {"op":"dispatch"}, {"op":"drop","e":1}, {"op":"into_inner","e":1}]}
//! A drop / into_inner step with "if_idle": 1 is skipped while a task is using the adapter; a peer close with
//! "if_drained": 1 is skipped while data sent to the peer is unread (generated scenarios stay inside the protocol).
//! {"op":"adapt2","e":1} calls adapt_io on a borrow of the SAME fd while its adapter is alive (EEXIST; with "if_live": 1
//! the step is skipped when there is no live adapter).
//! {"op":"abandon","t":"A"} wakes the parked task A through the executor's own waker and makes it DROP the future of its
//! pending operation at its next poll (as a timeout / select! / cancellation does); the waker that operation stored in the
//! adapter stays there ("if_parked": 1 = skip the step when the task is not parked).
//! `e` = 3 adapts a regular file (the registration fails with EPERM).  `spawn` of "J" (join = 1)
//! schedules ONE task that polls the branches R then W.  A task operation is one of read(n) / write(n)
//! (one successful poll_read / poll_write with a buffer of n blocks completes it) / readable / writable.
//! The peer acts on the end that is not adapted, non-blocking, with single read()/write() calls.
//!
//! Trace events: reset, adapt, adapt2, spawn, abandon, abandoned, peer, disp, batch, io, exec_begin, poll, tdone, exec_end, dispd,
//! drop, end.  Every event that ends a step carries the observation `ep` (per end: the epoll entry of its
//! fd in the loop's epoll instance [present, r, w, oneshot, armed]), `xep` (other entries except the
//! executor's), `nb` (fcntl(F_GETFL) & O_NONBLOCK of end 1, end 2, file; -1 = no such fd), `occ`
//! (`verif_stats().occupied`), `ts` (task states).  Panics are data.
use std::cell::{Cell, RefCell};
use std::collections::BTreeMap;
use std::future::Future;
use std::io::{BufRead, BufReader, Read, Write};
use std::os::unix::io::{AsRawFd, BorrowedFd, FromRawFd, RawFd};
use std::os::unix::net::UnixStream;
use std::panic::{catch_unwind, AssertUnwindSafe};
use std::pin::Pin;
use std::rc::Rc;
use std::sync::Arc;
use std::task::{Context, Poll, Wake, Waker};
use std::time::Duration;

use calloop::io::Async;
use calloop::{EventLoop, LoopHandle};
use calloop_verif_harness::fdinfo;
use calloop_verif_harness::trace::{ev, flush_to};
use futures::io::{AsyncRead, AsyncWrite};
use serde_json::{json, Value};

// ------------------------------------------------------------------------------------ kernel facts
#[derive(Clone, Copy, Debug)]
struct Scale {
    sndbuf: usize,
    n: usize,
    cap: usize,
    lw: i64,
}

fn set_min_sndbuf(s: &UnixStream) -> usize {
    let fd = s.as_raw_fd();
    let zero: libc::c_int = 0;
    unsafe {
        libc::setsockopt(
            fd,
            libc::SOL_SOCKET,
            libc::SO_SNDBUF,
            &zero as *const _ as *const libc::c_void,
            std::mem::size_of::<libc::c_int>() as libc::socklen_t,
        );
        libc::setsockopt(
            fd,
            libc::SOL_SOCKET,
            libc::SO_RCVBUF,
            &zero as *const _ as *const libc::c_void,
            std::mem::size_of::<libc::c_int>() as libc::socklen_t,
        );
        let mut v: libc::c_int = 0;
        let mut l = std::mem::size_of::<libc::c_int>() as libc::socklen_t;
        libc::getsockopt(fd, libc::SOL_SOCKET, libc::SO_SNDBUF, &mut v as *mut _ as *mut libc::c_void, &mut l);
        v as usize
    }
}

fn pollout(fd: RawFd) -> bool {
    let mut p = libc::pollfd { fd, events: libc::POLLOUT, revents: 0 };
    unsafe { libc::poll(&mut p, 1, 0) };
    p.revents & libc::POLLOUT != 0
}

fn make_pair() -> (UnixStream, UnixStream, usize) {
    let (a, b) = UnixStream::pair().expect("socketpair");
    let s1 = set_min_sndbuf(&a);
    let s2 = set_min_sndbuf(&b);
    (a, b, s1.min(s2))
}

/// Measure, on a scratch pair, how the kernel accounts blocks of `n` bytes.
fn measure() -> Scale {
    let (mut a, mut b, sndbuf) = make_pair();
    a.set_nonblocking(true).unwrap();
    b.set_nonblocking(true).unwrap();
    let n = sndbuf / 2 - 64;
    let block = vec![7u8; n];
    // capacity with one block per write
    let mut cap = 0;
    loop {
        match a.write(&block) {
            Ok(k) if k == n => cap += 1,
            Ok(k) => {
                eprintln!("drive_asyncio: a write of one block ({}) was cut at {} bytes", n, k);
                std::process::exit(3);
            }
            Err(e) if e.kind() == std::io::ErrorKind::WouldBlock => break,
            Err(e) => {
                eprintln!("drive_asyncio: measuring: {}", e);
                std::process::exit(3);
            }
        }
        if cap > 64 {
            eprintln!("drive_asyncio: the socket buffer does not fill up");
            std::process::exit(3);
        }
    }
    // low-water mark of POLLOUT: read block by block
    let mut lw: i64 = -1;
    let mut queued = cap as i64;
    let mut buf = vec![0u8; n];
    if pollout(a.as_raw_fd()) {
        lw = queued;
    }
    while queued > 0 {
        let k = b.read(&mut buf).unwrap_or(0);
        if k != n {
            eprintln!("drive_asyncio: a read of one block returned {} bytes", k);
            std::process::exit(3);
        }
        queued -= 1;
        if lw < 0 && pollout(a.as_raw_fd()) {
            lw = queued;
        }
    }
    // a large write on an empty queue is cut on a block boundary at the capacity
    let big = vec![9u8; n * (cap + 2)];
    match a.write(&big) {
        Ok(k) if k == n * cap => {}
        other => {
            eprintln!("drive_asyncio: write of {} blocks on an empty queue -> {:?}, expected {} bytes", cap + 2, other, n * cap);
            std::process::exit(3);
        }
    }
    // a large read returns everything that is queued
    let mut bigbuf = vec![0u8; n * (cap + 2)];
    match b.read(&mut bigbuf) {
        Ok(k) if k == n * cap => {}
        other => {
            eprintln!("drive_asyncio: read of {} blocks on a full queue -> {:?}", cap + 2, other);
            std::process::exit(3);
        }
    }
    Scale { sndbuf, n, cap, lw }
}

fn getfl_nb(fd: RawFd) -> i64 {
    if fd < 0 {
        return -1;
    }
    let fl = unsafe { libc::fcntl(fd, libc::F_GETFL) };
    if fl < 0 {
        -1
    } else {
        (fl & libc::O_NONBLOCK != 0) as i64
    }
}

fn set_nb(fd: RawFd, on: bool) {
    unsafe {
        let fl = libc::fcntl(fd, libc::F_GETFL);
        let nfl = if on { fl | libc::O_NONBLOCK } else { fl & !libc::O_NONBLOCK };
        libc::fcntl(fd, libc::F_SETFL, nfl);
    }
}

fn dup(fd: RawFd) -> RawFd {
    unsafe { libc::fcntl(fd, libc::F_DUPFD_CLOEXEC, 100) }
}

/// raw `events` mask of the epoll entry of `fd` (None = not in the set)
fn ep_raw(epfd: RawFd, fd: RawFd) -> Option<u32> {
    let txt = std::fs::read_to_string(format!("/proc/self/fdinfo/{}", epfd)).ok()?;
    for line in txt.lines() {
        if !line.starts_with("tfd:") {
            continue;
        }
        let toks: Vec<&str> = line.split_whitespace().collect();
        let mut tfd = -1;
        let mut events = 0u32;
        let mut i = 0;
        while i + 1 < toks.len() {
            match toks[i] {
                "tfd:" => tfd = toks[i + 1].parse().unwrap_or(-1),
                "events:" => events = u32::from_str_radix(toks[i + 1], 16).unwrap_or(0),
                _ => {}
            }
            i += 2;
        }
        if tfd == fd {
            return Some(events);
        }
    }
    None
}

// ------------------------------------------------------------------------------------------ blocks
fn fnv(h: &mut u32, data: &[u8]) {
    for b in data {
        *h ^= *b as u32;
        *h = h.wrapping_mul(16777619);
    }
}

fn gen_block(seed: u64, q: usize, idx: usize, sym: u8, n: usize) -> Vec<u8> {
    let mut x = seed
        .wrapping_mul(0x9E37_79B9_7F4A_7C15)
        .wrapping_add(((q as u64) << 40) ^ ((idx as u64) << 8) ^ sym as u64)
        | 1;
    let mut v = Vec::with_capacity(n);
    v.push(sym);
    while v.len() < n {
        x ^= x >> 12;
        x ^= x << 25;
        x ^= x >> 27;
        let w = x.wrapping_mul(0x2545_F491_4F6C_DD1D);
        v.extend_from_slice(&w.to_le_bytes());
    }
    v.truncate(n);
    v
}

/// The data plane of one scenario: what is written into / read from the receive queue of each end.
struct Data {
    seed: u64,
    n: usize,
    streams: [Vec<u8>; 2],
    sent: [Vec<i64>; 2],
    rcvd: [Vec<i64>; 2],
    hsent: [u32; 2],
    hrcvd: [u32; 2],
    bsent: [usize; 2],
    brcvd: [usize; 2],
}

impl Data {
    fn sym_at(&self, q: usize, idx: usize) -> u8 {
        self.streams[q].get(idx).copied().unwrap_or((idx % 2) as u8)
    }
    /// the next `nblocks` blocks destined to queue `q` (0-based), not yet committed
    fn offer(&self, q: usize, nblocks: usize) -> Vec<u8> {
        let mut v = Vec::with_capacity(nblocks * self.n);
        let base = self.sent[q].len();
        for i in 0..nblocks {
            v.extend_from_slice(&gen_block(self.seed, q, base + i, self.sym_at(q, base + i), self.n));
        }
        v
    }
    /// `bytes` of the offer were accepted by the kernel; returns the symbols of the whole blocks
    fn commit_write(&mut self, q: usize, offered: &[u8], bytes: usize) -> (Vec<i64>, bool) {
        fnv(&mut self.hsent[q], &offered[..bytes]);
        self.bsent[q] += bytes;
        let aligned = bytes % self.n == 0;
        let mut syms = Vec::new();
        for i in 0..bytes / self.n {
            let s = offered[i * self.n] as i64;
            self.sent[q].push(s);
            syms.push(s);
        }
        (syms, aligned)
    }
    /// `data` was read from queue `q`; returns the symbols (-1 = a block that is not the expected one)
    fn commit_read(&mut self, q: usize, data: &[u8]) -> (Vec<i64>, bool) {
        fnv(&mut self.hrcvd[q], data);
        self.brcvd[q] += data.len();
        let aligned = data.len() % self.n == 0;
        let mut syms = Vec::new();
        for i in 0..data.len() / self.n {
            let blk = &data[i * self.n..(i + 1) * self.n];
            let idx = self.rcvd[q].len();
            let s = blk[0];
            let ok = s <= 1 && gen_block(self.seed, q, idx, s, self.n) == blk;
            let v = if ok { s as i64 } else { -1 };
            self.rcvd[q].push(v);
            syms.push(v);
        }
        (syms, aligned)
    }
}

// --------------------------------------------------------------------------------------- the world
type Ad = Async<'static, UnixStream>;

struct World {
    scale: Scale,
    epfd: Cell<RawFd>,
    /// key handed to the poller -> 0 (executor) | e (adapter of end e)
    keys: RefCell<BTreeMap<usize, i64>>,
    /// wakes seen since the last io event began
    wakes: RefCell<Vec<String>>,
    cur_io: Cell<i64>,
    /// number of events of the last batch
    last_batch: Cell<i64>,
    muted: Cell<bool>,
    data: RefCell<Data>,
    /// the adapters (index = end - 1)
    ads: [Rc<RefCell<Option<Ad>>>; 2],
    /// the fd number that was handed to adapt_io for each end (kept after drop, to see a stale entry)
    rawfd: [Cell<RawFd>; 3],
    /// dup of every fd, for fcntl(F_GETFL) while the fd itself is owned by the adapter / after it was closed
    obsfd: [Cell<RawFd>; 3],
    occ: RefCell<Option<Box<dyn Fn() -> i64>>>,
    ts: RefCell<BTreeMap<String, &'static str>>,
    /// tasks told to abandon (drop the future of) their pending operation at their next poll
    abandon: RefCell<BTreeMap<String, bool>>,
    /// the executor's own waker of each task (saved at every poll): used to wake a task from outside the adapter
    ext_wakers: RefCell<BTreeMap<String, Waker>>,
}

thread_local! {
    /// this scenario reads / writes through the vectored entry points of AsyncRead / AsyncWrite
    static VECTORED: std::cell::Cell<bool> = const { std::cell::Cell::new(false) };
    static W: RefCell<Option<Rc<World>>> = const { RefCell::new(None) };
}

fn world() -> Rc<World> {
    W.with(|w| w.borrow().as_ref().expect("world").clone())
}

fn log(name: &str, v: Value) {
    let muted = W.with(|w| w.borrow().as_ref().map(|w| w.muted.get()).unwrap_or(false));
    if !muted {
        ev(name, v);
    }
}

impl World {
    fn ep_entry(&self, e: usize) -> Value {
        let fd = self.rawfd[e].get();
        if fd < 0 {
            return json!([0, 0, 0, 0, 0]);
        }
        // the framework's reader (fd, r, w, mode) and the raw mask (EPOLLERR|EPOLLHUP = still armed)
        let entries = fdinfo::read(self.epfd.get());
        match entries.iter().find(|x| x.fd == fd) {
            None => json!([0, 0, 0, 0, 0]),
            Some(x) => {
                let raw = ep_raw(self.epfd.get(), fd).unwrap_or(0);
                json!([1, x.readable as u8, x.writable as u8, (x.mode == "oneshot") as u8, (raw & 0x18 != 0) as u8])
            }
        }
    }

    fn observe(&self, m: &mut serde_json::Map<String, Value>) {
        let known: Vec<RawFd> = (0..3).map(|i| self.rawfd[i].get()).filter(|f| *f >= 0).collect();
        let entries = fdinfo::read(self.epfd.get());
        let keys = self.keys.borrow();
        let xep = entries
            .iter()
            .filter(|x| !known.contains(&x.fd) && keys.get(&(x.key as usize)) != Some(&0))
            .count();
        m.insert("ep".into(), json!([self.ep_entry(0), self.ep_entry(1), self.ep_entry(2)]));
        m.insert("xep".into(), json!(xep));
        m.insert(
            "nb".into(),
            json!([getfl_nb(self.obsfd[0].get()), getfl_nb(self.obsfd[1].get()), getfl_nb(self.obsfd[2].get())]),
        );
        let occ = self.occ.borrow().as_ref().map(|f| f()).unwrap_or(-1);
        m.insert("occ".into(), json!(occ));
        let ts: Vec<Value> = self.ts.borrow().iter().map(|(k, v)| json!([k, v])).collect();
        m.insert("ts".into(), Value::Array(ts));
    }

    fn set_ts(&self, t: &str, s: &'static str) {
        self.ts.borrow_mut().insert(t.to_string(), s);
    }
}

fn obs_event(name: &str, mut fields: Value) {
    let w = world();
    if let Value::Object(m) = &mut fields {
        w.observe(m);
    }
    log(name, fields);
}

// ------------------------------------------------------------------------------------------ wakers
struct LogWaker {
    label: String,
    tasks: Vec<String>,
    inner: Waker,
}

impl Wake for LogWaker {
    fn wake(self: Arc<Self>) {
        self.wake_by_ref();
    }
    fn wake_by_ref(self: &Arc<Self>) {
        let seen = W.with(|w| {
            if let Ok(g) = w.try_borrow() {
                if let Some(w) = g.as_ref() {
                    w.wakes.borrow_mut().push(self.label.clone());
                    for t in &self.tasks {
                        let mut ts = w.ts.borrow_mut();
                        if ts.get(t.as_str()) == Some(&"pending") {
                            ts.insert(t.clone(), "woken");
                        }
                    }
                    return w.cur_io.get() != 0;
                }
            }
            true
        });
        if !seen {
            // a wake outside the processing of an io event
            log("wake_stray", json!({"w": self.label}));
        }
        self.inner.wake_by_ref();
    }
}

// ------------------------------------------------------------------------------------------- tasks
#[derive(Clone, Debug)]
enum Op {
    Read(usize),
    Write(usize),
    Readable,
    Writable,
}

struct TaskFut {
    name: String,
    wlabel: String,
    wtasks: Vec<String>,
    ad: usize, // end (1-based)
    ops: Vec<Op>,
    pc: usize,
    done: bool,
}

impl TaskFut {
    fn poll_once(&mut self, cx: &mut Context<'_>) -> Poll<()> {
        let w = world();
        if self.done {
            return Poll::Ready(());
        }
        w.ext_wakers.borrow_mut().insert(self.name.clone(), cx.waker().clone());
        loop {
            if w.abandon.borrow_mut().remove(&self.name).is_some() && self.pc < self.ops.len() {
                // woken from outside (a timeout, select!, cancellation): the future of the pending operation is dropped;
                // whatever it stored in the adapter stays there
                log("abandoned", json!({"t": self.name, "pc": self.pc}));
                self.pc += 1;
                continue;
            }
            if self.pc >= self.ops.len() {
                self.done = true;
                w.set_ts(&self.name, "done");
                log("tdone", json!({"t": self.name}));
                return Poll::Ready(());
            }
            let op = self.ops[self.pc].clone();
            let lw: Waker = Arc::new(LogWaker {
                label: self.wlabel.clone(),
                tasks: self.wtasks.clone(),
                inner: cx.waker().clone(),
            })
            .into();
            let mut cx2 = Context::from_waker(&lw);
            let cell = w.ads[self.ad - 1].clone();
            let mut guard = cell.borrow_mut();
            let ad = match guard.as_mut() {
                Some(a) => a,
                None => {
                    log("poll", json!({"t": self.name, "a": self.ad, "op": "none", "n": 0, "r": "noadapter", "k": 0, "syms": []}));
                    self.done = true;
                    w.set_ts(&self.name, "done");
                    return Poll::Ready(());
                }
            };
            let n = w.scale.n;
            let (opname, nreq) = match op {
                Op::Read(k) => ("read", k),
                Op::Write(k) => ("write", k),
                Op::Readable => ("readable", 0),
                Op::Writable => ("writable", 0),
            };
            // queue read from / written into (0-based)
            let qr = self.ad - 1;
            let qw = 2 - self.ad;
            let mut fields = serde_json::Map::new();
            fields.insert("t".into(), json!(self.name));
            fields.insert("a".into(), json!(self.ad));
            fields.insert("op".into(), json!(opname));
            fields.insert("n".into(), json!(nreq));
            let pending;
            match op {
                Op::Read(k) => {
                    let mut buf = vec![0u8; k * n];
                    let r = catch_unwind(AssertUnwindSafe(|| {
                        if VECTORED.with(|v| v.get()) {
                            Pin::new(&mut *ad).poll_read_vectored(&mut cx2, &mut [std::io::IoSliceMut::new(&mut buf)])
                        } else {
                            Pin::new(&mut *ad).poll_read(&mut cx2, &mut buf)
                        }
                    }));
                    match r {
                        Ok(Poll::Ready(Ok(got))) => {
                            let (syms, aligned) = w.data.borrow_mut().commit_read(qr, &buf[..got]);
                            fields.insert("r".into(), json!(if aligned { "ready" } else { "misaligned" }));
                            fields.insert("k".into(), json!(got / n));
                            fields.insert("syms".into(), json!(syms));
                            pending = false;
                        }
                        Ok(Poll::Ready(Err(e))) => {
                            fields.insert("r".into(), json!("err"));
                            fields.insert("k".into(), json!(e.raw_os_error().unwrap_or(-1)));
                            fields.insert("syms".into(), json!([]));
                            pending = false;
                        }
                        Ok(Poll::Pending) => {
                            fields.insert("r".into(), json!("pending"));
                            fields.insert("k".into(), json!(0));
                            fields.insert("syms".into(), json!([]));
                            pending = true;
                        }
                        Err(_) => {
                            fields.insert("r".into(), json!("panic"));
                            fields.insert("k".into(), json!(0));
                            fields.insert("syms".into(), json!([]));
                            pending = false;
                        }
                    }
                }
                Op::Write(k) => {
                    let offered = w.data.borrow().offer(qw, k);
                    let r = catch_unwind(AssertUnwindSafe(|| {
                        if VECTORED.with(|v| v.get()) {
                            Pin::new(&mut *ad).poll_write_vectored(&mut cx2, &[std::io::IoSlice::new(&offered)])
                        } else {
                            Pin::new(&mut *ad).poll_write(&mut cx2, &offered)
                        }
                    }));
                    match r {
                        Ok(Poll::Ready(Ok(put))) => {
                            let (syms, aligned) = w.data.borrow_mut().commit_write(qw, &offered, put);
                            fields.insert("r".into(), json!(if aligned { "ready" } else { "misaligned" }));
                            fields.insert("k".into(), json!(put / n));
                            fields.insert("syms".into(), json!(syms));
                            pending = false;
                        }
                        Ok(Poll::Ready(Err(e))) => {
                            fields.insert("r".into(), json!("err"));
                            fields.insert("k".into(), json!(e.raw_os_error().unwrap_or(-1)));
                            fields.insert("syms".into(), json!([]));
                            pending = false;
                        }
                        Ok(Poll::Pending) => {
                            fields.insert("r".into(), json!("pending"));
                            fields.insert("k".into(), json!(0));
                            fields.insert("syms".into(), json!([]));
                            pending = true;
                        }
                        Err(_) => {
                            fields.insert("r".into(), json!("panic"));
                            fields.insert("k".into(), json!(0));
                            fields.insert("syms".into(), json!([]));
                            pending = false;
                        }
                    }
                }
                Op::Readable | Op::Writable => {
                    let r = catch_unwind(AssertUnwindSafe(|| match op {
                        Op::Readable => {
                            let mut f = ad.readable();
                            Pin::new(&mut f).poll(&mut cx2)
                        }
                        _ => {
                            let mut f = ad.writable();
                            Pin::new(&mut f).poll(&mut cx2)
                        }
                    }));
                    fields.insert("syms".into(), json!([]));
                    match r {
                        Ok(Poll::Ready(())) => {
                            fields.insert("r".into(), json!("ready"));
                            fields.insert("k".into(), json!(1));
                            pending = false;
                        }
                        Ok(Poll::Pending) => {
                            fields.insert("r".into(), json!("pending"));
                            fields.insert("k".into(), json!(0));
                            pending = true;
                        }
                        Err(_) => {
                            fields.insert("r".into(), json!("panic"));
                            fields.insert("k".into(), json!(0));
                            pending = false;
                        }
                    }
                }
            }
            drop(guard);
            // the kernel's view of the adapter right after the poll
            fields.insert("ep".into(), w.ep_entry(self.ad - 1));
            log("poll", Value::Object(fields));
            if pending {
                w.set_ts(&self.name, "pending");
                return Poll::Pending;
            }
            self.pc += 1;
        }
    }
}

impl Future for TaskFut {
    type Output = ();
    fn poll(self: Pin<&mut Self>, cx: &mut Context<'_>) -> Poll<()> {
        self.get_mut().poll_once(cx)
    }
}

/// ONE task that drives several branches, polled in order at every poll (a hand-written join)
struct JoinFut {
    parts: Vec<TaskFut>,
}

impl Future for JoinFut {
    type Output = ();
    fn poll(self: Pin<&mut Self>, cx: &mut Context<'_>) -> Poll<()> {
        let this = self.get_mut();
        let mut all = true;
        for p in this.parts.iter_mut() {
            if !p.done && p.poll_once(cx).is_pending() {
                all = false;
            }
        }
        if all {
            Poll::Ready(())
        } else {
            Poll::Pending
        }
    }
}

fn parse_ops(v: &Value) -> Vec<Op> {
    let mut out = Vec::new();
    if let Some(a) = v.as_array() {
        for o in a {
            let k = o.get(0).and_then(|x| x.as_str()).unwrap_or("");
            let n = o.get(1).and_then(|x| x.as_u64()).unwrap_or(0) as usize;
            match k {
                "read" => out.push(Op::Read(n.max(1))),
                "write" => out.push(Op::Write(n.max(1))),
                "readable" => out.push(Op::Readable),
                "writable" => out.push(Op::Writable),
                other => {
                    eprintln!("drive_asyncio: unknown task op {}", other);
                    std::process::exit(2);
                }
            }
        }
    }
    out
}

// ---------------------------------------------------------------------------------------- scenario
fn res_str<T, E>(r: &std::thread::Result<Result<T, E>>) -> &'static str {
    match r {
        Ok(Ok(_)) => "ok",
        Ok(Err(_)) => "err",
        Err(_) => "panic",
    }
}

fn id_seed(scn: &Value) -> u64 {
    if let Some(s) = scn.get("seed").and_then(|s| s.as_u64()) {
        return s;
    }
    let mut h = 2166136261u32;
    fnv(&mut h, scn["id"].as_str().unwrap_or("x").as_bytes());
    h as u64
}

fn run_scenario(scn: &Value, scale: Scale, tmpdir: &str) {
    let id = scn.get("id").cloned().unwrap_or(json!("x"));
    // watchdog: a scenario takes milliseconds; a blocked loop thread is killed by SIGALRM (the engine reports the scenario)
    unsafe { libc::alarm(30) };
    let join = scn.get("join").and_then(|j| j.as_i64()).unwrap_or(0) == 1;
    VECTORED.with(|v| v.set(scn.get("vectored").and_then(|j| j.as_i64()).unwrap_or(0) == 1));
    let nb0: Vec<bool> = (0..3)
        .map(|i| scn["nb0"].get(i).and_then(|x| x.as_i64()).unwrap_or(0) == 1)
        .collect();
    let mut streams: [Vec<u8>; 2] = [Vec::new(), Vec::new()];
    for q in 0..2 {
        if let Some(a) = scn["streams"].get(q).and_then(|x| x.as_array()) {
            streams[q] = a.iter().map(|x| (x.as_u64().unwrap_or(0) & 1) as u8).collect();
        }
    }

    let mut el: EventLoop<'static, ()> = EventLoop::try_new().expect("event loop");
    let handle: LoopHandle<'static, ()> = el.handle();
    let (a, b, _) = make_pair();
    let world = Rc::new(World {
        scale,
        epfd: Cell::new(el.as_raw_fd()),
        keys: RefCell::new(BTreeMap::new()),
        wakes: RefCell::new(Vec::new()),
        cur_io: Cell::new(0),
        last_batch: Cell::new(-1),
        muted: Cell::new(false),
        data: RefCell::new(Data {
            seed: id_seed(scn),
            n: scale.n,
            streams,
            sent: [Vec::new(), Vec::new()],
            rcvd: [Vec::new(), Vec::new()],
            hsent: [2166136261; 2],
            hrcvd: [2166136261; 2],
            bsent: [0; 2],
            brcvd: [0; 2],
        }),
        ads: [Rc::new(RefCell::new(None)), Rc::new(RefCell::new(None))],
        rawfd: [Cell::new(-1), Cell::new(-1), Cell::new(-1)],
        obsfd: [Cell::new(-1), Cell::new(-1), Cell::new(-1)],
        occ: RefCell::new(None),
        ts: RefCell::new(BTreeMap::new()),
        abandon: RefCell::new(BTreeMap::new()),
        ext_wakers: RefCell::new(BTreeMap::new()),
    });
    W.with(|w| *w.borrow_mut() = Some(world.clone()));
    {
        let h2 = handle.clone();
        *world.occ.borrow_mut() = Some(Box::new(move || h2.verif_stats().occupied as i64));
    }

    // the executor
    let (exec, sched) = calloop::futures::executor::<()>().expect("executor");
    let exec_token = handle.insert_source(exec, |(), _, _| {}).expect("insert executor");
    for x in fdinfo::read(el.as_raw_fd()) {
        world.keys.borrow_mut().insert(x.key as usize, 0);
    }
    let occ0 = handle.verif_stats().occupied as i64;

    // the two ends: blocking mode beforehand as the scenario says
    let mut ends: [Option<UnixStream>; 2] = [Some(a), Some(b)];
    let mut adapted_ever = [false; 2];
    for e in 0..2 {
        set_nb(ends[e].as_ref().unwrap().as_raw_fd(), nb0[e]);
    }

    let mut tasknames: Vec<String> = scn["tasks"].as_object().map(|m| m.keys().cloned().collect()).unwrap_or_default();
    tasknames.sort(); // "R" < "S" < "W": the joined task polls R before W
    for t in &tasknames {
        world.set_ts(t, "new");
    }

    log(
        "reset",
        json!({"id": id, "join": join as u8, "sndbuf": scale.sndbuf, "blk": scale.n, "cap": scale.cap, "lw": scale.lw,
               "nb0": [nb0[0] as u8, nb0[1] as u8, nb0[2] as u8], "occ0": occ0,
               "tasks": tasknames.iter().map(|t| json!([t, scn["tasks"][t]["ad"]])).collect::<Vec<_>>(),
               "adapted": scn["steps"].as_array().map(|s| {
                   let mut v: Vec<i64> = s.iter().filter(|x| x["op"] == "adapt").filter_map(|x| x["e"].as_i64()).filter(|e| *e <= 2).collect();
                   v.sort(); v.dedup(); v }).unwrap_or_default()}),
    );

    // observer: the batch and the processing of each event
    {
        let w2 = world.clone();
        calloop::verif::set_observer(Some(Box::new(move |o| match o {
            calloop::verif::Obs::Batch { keys, .. } => {
                let m = w2.keys.borrow();
                let evs: Vec<i64> = keys.iter().map(|k| m.get(k).copied().unwrap_or(-1)).collect();
                w2.last_batch.set(evs.len() as i64);
                log("batch", json!({"evs": evs}));
            }
            calloop::verif::Obs::Lookup { key, found } => {
                let lbl = w2.keys.borrow().get(&key).copied().unwrap_or(-1);
                if lbl == 0 {
                    log("exec_begin", json!({}));
                } else if !found {
                    log("io", json!({"a": lbl, "found": 0, "woke": [], "ep": json!([0, 0, 0, 0, 0])}));
                } else {
                    w2.wakes.borrow_mut().clear();
                    w2.cur_io.set(lbl);
                }
            }
            calloop::verif::Obs::Apply { key, .. } => {
                let lbl = w2.keys.borrow().get(&key).copied().unwrap_or(-1);
                if lbl == 0 {
                    log("exec_end", json!({}));
                } else {
                    let woke: Vec<String> = w2.wakes.borrow_mut().drain(..).collect();
                    w2.cur_io.set(0);
                    let ep = if (1..=2).contains(&lbl) { w2.ep_entry((lbl - 1) as usize) } else { json!([0, 0, 0, 0, 0]) };
                    log("io", json!({"a": lbl, "found": 1, "woke": woke, "ep": ep}));
                }
            }
            _ => {}
        })));
    }

    let empty = Vec::new();
    let steps = scn["steps"].as_array().unwrap_or(&empty);
    for (i, st) in steps.iter().enumerate() {
        let op = st["op"].as_str().unwrap_or("?");
        match op {
            "adapt" => {
                let e = st["e"].as_u64().unwrap_or(1) as usize;
                if e == 3 {
                    // a regular file: epoll refuses it
                    let path = format!("{}/asyncio_file_{}", tmpdir, std::process::id());
                    let f = std::fs::File::create(&path).expect("scratch file");
                    set_nb(f.as_raw_fd(), nb0[2]);
                    let o = dup(f.as_raw_fd());
                    world.obsfd[2].set(o);
                    world.rawfd[2].set(f.as_raw_fd());
                    let before = getfl_nb(o);
                    let r = catch_unwind(AssertUnwindSafe(|| handle.adapt_io(f)));
                    let rs = res_str(&r);
                    let kept = matches!(r, Ok(Ok(_)));
                    obs_event("adapt", json!({"i": i, "f": 3, "r": rs, "nbb": before}));
                    drop(r);
                    if kept {
                        obs_event("drop", json!({"i": i, "f": 3, "how": "drop", "r": "ok"}));
                    }
                    unsafe { libc::close(o) };
                    world.obsfd[2].set(-1);
                    world.rawfd[2].set(-1);
                    let _ = std::fs::remove_file(&path);
                    continue;
                }
                let s = match ends[e - 1].take() {
                    Some(s) => s,
                    None => {
                        // re-adapt after a drop: the socket is still open through the observation fd
                        let o = world.obsfd[e - 1].get();
                        if o < 0 || world.ads[e - 1].borrow().is_some() {
                            obs_event("adapt", json!({"i": i, "f": e, "r": "misuse", "nbb": -1}));
                            continue;
                        }
                        unsafe { UnixStream::from_raw_fd(dup(o)) }
                    }
                };
                if world.obsfd[e - 1].get() < 0 {
                    world.obsfd[e - 1].set(dup(s.as_raw_fd()));
                }
                adapted_ever[e - 1] = true;
                let fd = s.as_raw_fd();
                world.rawfd[e - 1].set(fd);
                let before = getfl_nb(world.obsfd[e - 1].get());
                let r = catch_unwind(AssertUnwindSafe(|| handle.adapt_io(s)));
                let rs = res_str(&r);
                if let Ok(Ok(a)) = r {
                    // learn the key of this adapter from the kernel's table
                    if let Some(x) = fdinfo::read(el.as_raw_fd()).iter().find(|x| x.fd == fd) {
                        world.keys.borrow_mut().insert(x.key as usize, e as i64);
                    }
                    *world.ads[e - 1].borrow_mut() = Some(a);
                }
                obs_event("adapt", json!({"i": i, "f": e, "r": rs, "nbb": before}));
                // harness guard: an adapter that left its fd blocking (logged above, flagged by the trace specification)
                // would block the loop thread for ever in the next read(); continue with the fd forced non-blocking
                if rs == "ok" && getfl_nb(world.obsfd[e - 1].get()) == 0 {
                    set_nb(world.obsfd[e - 1].get(), true);
                    log("forced_nonblock", json!({"i": i, "f": e}));
                }
            }
            "adapt2" => {
                // adapt_io of the SAME fd (a borrow of it) while its adapter is alive: EPOLL_CTL_ADD fails with EEXIST
                // and must leave the live adapter alone
                let e = st["e"].as_u64().unwrap_or(1) as usize;
                let alive = (1..=2).contains(&e) && world.ads[e - 1].borrow().is_some();
                if !alive {
                    if st["if_live"].as_i64() == Some(1) {
                        continue;
                    }
                    obs_event("adapt2", json!({"i": i, "f": e, "r": "misuse", "errno": 0}));
                    continue;
                }
                let fd = world.rawfd[e - 1].get();
                let b: BorrowedFd<'static> = unsafe { BorrowedFd::borrow_raw(fd) };
                let r = catch_unwind(AssertUnwindSafe(|| handle.adapt_io(b)));
                let (rs, errno) = match r {
                    Ok(Ok(a)) => {
                        // must not happen; dropping it would delete the fd from the poller: keep it out of the way
                        std::mem::forget(a);
                        ("ok", 0)
                    }
                    Ok(Err(calloop::Error::IoError(err))) => ("err", err.raw_os_error().unwrap_or(-1)),
                    Ok(Err(_)) => ("err", -2),
                    Err(_) => ("panic", 0),
                };
                obs_event("adapt2", json!({"i": i, "f": e, "r": rs, "errno": errno}));
            }
            "drop" | "into_inner" => {
                let e = st["e"].as_u64().unwrap_or(1) as usize;
                if st["if_idle"].as_i64() == Some(1) {
                    // generated scenarios: only when no task is using the adapter (the borrow discipline of &mut)
                    let busy = tasknames.iter().any(|t| {
                        scn["tasks"][t]["ad"].as_u64() == Some(e as u64)
                            && !matches!(world.ts.borrow().get(t.as_str()), Some(&"new") | Some(&"done"))
                    });
                    if busy {
                        continue;
                    }
                }
                let a = if (1..=2).contains(&e) { world.ads[e - 1].borrow_mut().take() } else { None };
                match a {
                    None => obs_event("drop", json!({"i": i, "f": e, "how": op, "r": "misuse"})),
                    Some(a) => {
                        let r = catch_unwind(AssertUnwindSafe(|| -> Result<Option<UnixStream>, ()> {
                            if op == "drop" {
                                drop(a);
                                Ok(None)
                            } else {
                                Ok(Some(a.into_inner()))
                            }
                        }));
                        let rs = res_str(&r);
                        let closed = !matches!(r, Ok(Ok(Some(_))));
                        if let Ok(Ok(Some(s))) = r {
                            ends[e - 1] = Some(s);
                        }
                        obs_event("drop", json!({"i": i, "f": e, "how": op, "r": rs}));
                        if closed {
                            // the fd number is free again and may be reused by another end: an entry left behind
                            // under this number would from now on be counted as foreign (`xep`)
                            world.rawfd[e - 1].set(-1);
                        }
                    }
                }
            }
            "spawn" => {
                let t = st["t"].as_str().unwrap_or("?").to_string();
                let mk = |name: &str, wlabel: &str, wtasks: Vec<String>| TaskFut {
                    name: name.to_string(),
                    wlabel: wlabel.to_string(),
                    wtasks,
                    ad: scn["tasks"][name]["ad"].as_u64().unwrap_or(1) as usize,
                    ops: parse_ops(&scn["tasks"][name]["ops"]),
                    pc: 0,
                    done: false,
                };
                let r = if t == "J" {
                    let parts: Vec<TaskFut> = tasknames.iter().map(|n| mk(n, "J", tasknames.clone())).collect();
                    for n in &tasknames {
                        world.set_ts(n, "runnable");
                    }
                    catch_unwind(AssertUnwindSafe(|| sched.schedule(JoinFut { parts })))
                } else {
                    world.set_ts(&t, "runnable");
                    let f = mk(&t, &t, vec![t.clone()]);
                    catch_unwind(AssertUnwindSafe(|| sched.schedule(f)))
                };
                obs_event("spawn", json!({"i": i, "t": t, "r": res_str(&r)}));
            }
            "abandon" => {
                let t = st["t"].as_str().unwrap_or("?").to_string();
                let parked = !join && world.ts.borrow().get(t.as_str()) == Some(&"pending");
                let wk = world.ext_wakers.borrow().get(&t).cloned();
                match (parked, wk) {
                    (true, Some(wk)) => {
                        world.abandon.borrow_mut().insert(t.clone(), true);
                        world.set_ts(&t, "woken");
                        wk.wake();
                        obs_event("abandon", json!({"i": i, "t": t, "r": "ok"}));
                    }
                    _ => {
                        if st["if_parked"].as_i64() == Some(1) {
                            continue;
                        }
                        obs_event("abandon", json!({"i": i, "t": t, "r": "misuse"}));
                    }
                }
            }
            "peer" => {
                let k = st["k"].as_str().unwrap_or("?");
                let n = st["n"].as_u64().unwrap_or(1) as usize;
                // the peer owns the end that was never adapted
                let p = match (0..2).find(|e| !adapted_ever[*e] && ends[*e].is_some()) {
                    Some(p) => p,
                    None => {
                        obs_event("peer", json!({"i": i, "k": k, "n": n, "r": "misuse", "done": 0, "syms": [], "p": 0}));
                        continue;
                    }
                };
                let s = ends[p].as_mut().unwrap();
                s.set_nonblocking(true).unwrap();
                let mut f = json!({"i": i, "k": k, "n": n, "p": p + 1});
                match k {
                    "w" => {
                        let q = 1 - p;
                        let offered = world.data.borrow().offer(q, n);
                        match s.write(&offered) {
                            Ok(put) => {
                                let (syms, aligned) = world.data.borrow_mut().commit_write(q, &offered, put);
                                f["r"] = json!(if aligned { "ok" } else { "misaligned" });
                                f["done"] = json!(put / scale.n);
                                f["syms"] = json!(syms);
                            }
                            Err(e) if e.kind() == std::io::ErrorKind::WouldBlock => {
                                f["r"] = json!("ok");
                                f["done"] = json!(0);
                                f["syms"] = json!([]);
                            }
                            Err(e) => {
                                f["r"] = json!("err");
                                f["done"] = json!(e.raw_os_error().unwrap_or(-1));
                                f["syms"] = json!([]);
                            }
                        }
                    }
                    "r" => {
                        let mut buf = vec![0u8; n * scale.n];
                        match s.read(&mut buf) {
                            Ok(got) => {
                                let (syms, aligned) = world.data.borrow_mut().commit_read(p, &buf[..got]);
                                f["r"] = json!(if aligned { "ok" } else { "misaligned" });
                                f["done"] = json!(got / scale.n);
                                f["syms"] = json!(syms);
                            }
                            Err(e) if e.kind() == std::io::ErrorKind::WouldBlock => {
                                f["r"] = json!("ok");
                                f["done"] = json!(0);
                                f["syms"] = json!([]);
                            }
                            Err(e) => {
                                f["r"] = json!("err");
                                f["done"] = json!(e.raw_os_error().unwrap_or(-1));
                                f["syms"] = json!([]);
                            }
                        }
                    }
                    "close" => {
                        if st["if_drained"].as_i64() == Some(1) {
                            // generated scenarios: close only when the peer has read everything that was sent to it
                            // (closing with unread data resets the connection: ECONNRESET is outside the model)
                            let d = world.data.borrow();
                            if d.sent[p].len() != d.rcvd[p].len() {
                                continue;
                            }
                        }
                        ends[p] = None;
                        adapted_ever[p] = true; // no peer any more
                        f["r"] = json!("ok");
                        f["done"] = json!(0);
                        f["syms"] = json!([]);
                    }
                    other => {
                        eprintln!("drive_asyncio: unknown peer op {}", other);
                        std::process::exit(2);
                    }
                }
                obs_event("peer", f);
            }
            "dispatch" => {
                log("disp", json!({"i": i, "auto": 0}));
                let r = catch_unwind(AssertUnwindSafe(|| el.dispatch(Some(Duration::ZERO), &mut ())));
                world.cur_io.set(0);
                obs_event("dispd", json!({"i": i, "auto": 0, "r": res_str(&r)}));
            }
            other => {
                eprintln!("drive_asyncio: unknown step {}", other);
                std::process::exit(2);
            }
        }
    }

    // settle: dispatch until a dispatch has nothing to do, so that the final state is quiescent
    let mut extra = 0;
    loop {
        world.last_batch.set(-1);
        log("disp", json!({"i": steps.len() + extra, "auto": 1}));
        let r = catch_unwind(AssertUnwindSafe(|| el.dispatch(Some(Duration::ZERO), &mut ())));
        world.cur_io.set(0);
        obs_event("dispd", json!({"i": steps.len() + extra, "auto": 1, "r": res_str(&r)}));
        extra += 1;
        if world.last_batch.get() <= 0 || extra >= 60 {
            break;
        }
    }

    // final observation
    {
        let d = world.data.borrow();
        let mut m = serde_json::Map::new();
        m.insert("id".into(), id.clone());
        m.insert("sent".into(), json!([d.sent[0], d.sent[1]]));
        m.insert("rcvd".into(), json!([d.rcvd[0], d.rcvd[1]]));
        m.insert("bsent".into(), json!([d.bsent[0] / d.n, d.bsent[1] / d.n]));
        m.insert("brcvd".into(), json!([d.brcvd[0] / d.n, d.brcvd[1] / d.n]));
        m.insert("hsent".into(), json!([d.hsent[0] & 0x7fff_ffff, d.hsent[1] & 0x7fff_ffff]));
        m.insert("hrcvd".into(), json!([d.hrcvd[0] & 0x7fff_ffff, d.hrcvd[1] & 0x7fff_ffff]));
        drop(d);
        world.observe(&mut m);
        log("end", Value::Object(m));
    }

    // teardown (not part of the scenario, not logged)
    world.muted.set(true);
    calloop::verif::set_observer(None);
    let _ = catch_unwind(AssertUnwindSafe(|| {
        handle.remove(exec_token);
    }));
    let _ = catch_unwind(AssertUnwindSafe(|| {
        for e in 0..2 {
            let a = world.ads[e].borrow_mut().take();
            drop(a);
        }
    }));
    drop(sched);
    drop(ends);
    for i in 0..3 {
        let o = world.obsfd[i].get();
        if o >= 0 {
            unsafe { libc::close(o) };
        }
    }
    *world.occ.borrow_mut() = None;
    W.with(|w| *w.borrow_mut() = None);
    let _ = catch_unwind(AssertUnwindSafe(move || drop(el)));
    unsafe { libc::alarm(0) };
}

fn main() {
    let args: Vec<String> = std::env::args().collect();
    if args.len() < 3 {
        eprintln!("usage: drive_asyncio <scenarios.ndjson> <trace.ndjson>");
        std::process::exit(2);
    }
    std::panic::set_hook(Box::new(|_| {}));
    let scale = measure();
    let tmpdir = std::path::Path::new(&args[2])
        .parent()
        .map(|p| p.to_string_lossy().to_string())
        .filter(|p| !p.is_empty())
        .unwrap_or_else(|| ".".to_string());
    let f = std::fs::File::open(&args[1]).expect("scenario file");
    let mut out = std::io::BufWriter::new(std::fs::File::create(&args[2]).expect("trace file"));
    let mut n = 0;
    for line in BufReader::new(f).lines() {
        let line = line.unwrap();
        if line.trim().is_empty() {
            continue;
        }
        let scn: Value = match serde_json::from_str(&line) {
            Ok(v) => v,
            Err(e) => {
                eprintln!("bad scenario line: {}", e);
                std::process::exit(2);
            }
        };
        eprintln!("drive_asyncio: running {}", scn["id"]);
        run_scenario(&scn, scale, &tmpdir);
        flush_to(&mut out).unwrap();
        n += 1;
    }
    eprintln!(
        "drive_asyncio: {} scenarios; SO_SNDBUF {} block {} capacity {} blocks, POLLOUT low-water {}",
        n, scale.sndbuf, scale.n, scale.cap, scale.lw
    );
}
