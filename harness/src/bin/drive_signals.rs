//! usage: drive_signals <scenarios.ndjson> <trace-out.ndjson>
//!
//! C19 driver: executes scenarios on the real `calloop::signals::Signals`, registered in a real
//! `EventLoop` through a `Dispatcher` (so that add/remove/set can be called through
//! `as_source_mut()`), in a process that never has more than ONE thread: the signal mask that
//! `Signals` manipulates is the mask of the thread, and `raise`/`kill(getpid())` must reach this
//! thread.  Nothing in this file (nor in `calloop_verif_harness::trace`) spawns a thread; the
//! number of threads is read from /proc/self/status and logged with every scenario.
//!
//! Scenario: `{"id": "...", "ops": [{"op":"new","S":[10]}, {"op":"raise","sig":10,"k":"t"},
//! {"op":"set","S":[10,12]}, {"op":"dispatch"}, {"op":"drop"}]}`; `k` = "t" (libc::raise,
//! thread-directed) or "p" (kill(getpid()), process-directed).
//!
//! After every operation one event is logged with what the *kernel* says:
//!   blk   thread's blocked set (pthread_sigmask query)                       restricted to U
//!   pend  sigpending()                                                       restricted to U
//!   pt/pp per-thread / process-wide pending queues (SigPnd / ShdPnd of /proc/self/status)
//!   nfd   number of open signalfds, fdm = mask of the signalfd (/proc/self/fdinfo/<fd>)
//!   cbs   callbacks run during the operation: [signo, si_code, pid == getpid(), uid == getuid()]
//!   hd    [sig, count] of the counting handlers (the "normal disposition" of the universe)
use std::cell::RefCell;
use std::io::{BufRead, BufReader};
use std::panic::{catch_unwind, AssertUnwindSafe};
use std::rc::Rc;
use std::sync::atomic::{AtomicUsize, Ordering};
use std::time::Duration;

use calloop::signals::{Signal, Signals};
use calloop::{Dispatcher, EventLoop, RegistrationToken};
use calloop_verif_harness::trace;
use serde_json::{json, Value};

/// The universe of C19: SIGUSR1, SIGUSR2, SIGURG, SIGWINCH.
const UNIVERSE: [(libc::c_int, Signal); 4] = [
    (libc::SIGUSR1, Signal::SIGUSR1),
    (libc::SIGUSR2, Signal::SIGUSR2),
    (libc::SIGURG, Signal::SIGURG),
    (libc::SIGWINCH, Signal::SIGWINCH),
];

const NSIG: usize = 65;
#[allow(clippy::declare_interior_mutable_const)]
const ZERO: AtomicUsize = AtomicUsize::new(0);
static HANDLER_RUNS: [AtomicUsize; NSIG] = [ZERO; NSIG];

/// Async-signal-safe: one atomic increment.
extern "C" fn counting_handler(sig: libc::c_int) {
    if (sig as usize) < NSIG {
        HANDLER_RUNS[sig as usize].fetch_add(1, Ordering::SeqCst);
    }
}

fn install_handlers() {
    for (signo, _) in UNIVERSE {
        unsafe {
            let mut sa: libc::sigaction = std::mem::zeroed();
            sa.sa_sigaction = counting_handler as extern "C" fn(libc::c_int) as usize;
            libc::sigemptyset(&mut sa.sa_mask);
            sa.sa_flags = libc::SA_RESTART;
            if libc::sigaction(signo, &sa, std::ptr::null_mut()) != 0 {
                eprintln!("drive_signals: sigaction({}) failed", signo);
                std::process::exit(2);
            }
        }
    }
}

fn universe_sigset() -> libc::sigset_t {
    unsafe {
        let mut set: libc::sigset_t = std::mem::zeroed();
        libc::sigemptyset(&mut set);
        for (signo, _) in UNIVERSE {
            libc::sigaddset(&mut set, signo);
        }
        set
    }
}

fn members(set: &libc::sigset_t) -> Vec<i32> {
    let mut v: Vec<i32> = UNIVERSE
        .iter()
        .filter(|(signo, _)| unsafe { libc::sigismember(set, *signo) } == 1)
        .map(|(signo, _)| *signo)
        .collect();
    v.sort();
    v
}

fn bits(mask: u64) -> Vec<i32> {
    let mut v: Vec<i32> = UNIVERSE
        .iter()
        .filter(|(signo, _)| mask & (1u64 << (*signo - 1)) != 0)
        .map(|(signo, _)| *signo)
        .collect();
    v.sort();
    v
}

/// Blocked set of the calling thread, restricted to the universe.
fn blocked() -> Vec<i32> {
    unsafe {
        let mut cur: libc::sigset_t = std::mem::zeroed();
        libc::sigemptyset(&mut cur);
        libc::pthread_sigmask(libc::SIG_SETMASK, std::ptr::null(), &mut cur);
        members(&cur)
    }
}

/// sigpending(), restricted to the universe.
fn pending() -> Vec<i32> {
    unsafe {
        let mut cur: libc::sigset_t = std::mem::zeroed();
        libc::sigemptyset(&mut cur);
        libc::sigpending(&mut cur);
        members(&cur)
    }
}

struct ProcStatus {
    threads: i64,
    sigpnd: u64,
    shdpnd: u64,
    sigblk: u64,
}

fn proc_status() -> ProcStatus {
    let txt = std::fs::read_to_string("/proc/self/status").unwrap_or_default();
    let mut st = ProcStatus { threads: -1, sigpnd: 0, shdpnd: 0, sigblk: 0 };
    for line in txt.lines() {
        let mut it = line.split_whitespace();
        match (it.next(), it.next()) {
            (Some("Threads:"), Some(v)) => st.threads = v.parse().unwrap_or(-1),
            (Some("SigPnd:"), Some(v)) => st.sigpnd = u64::from_str_radix(v, 16).unwrap_or(0),
            (Some("ShdPnd:"), Some(v)) => st.shdpnd = u64::from_str_radix(v, 16).unwrap_or(0),
            (Some("SigBlk:"), Some(v)) => st.sigblk = u64::from_str_radix(v, 16).unwrap_or(0),
            _ => {}
        }
    }
    st
}

/// (number of open signalfds, mask of the first one restricted to the universe)
fn signalfd_masks() -> (usize, Vec<i32>) {
    let mut n = 0;
    let mut mask: Vec<i32> = Vec::new();
    let mut fds: Vec<i32> = match std::fs::read_dir("/proc/self/fd") {
        Ok(rd) => rd
            .filter_map(|e| e.ok())
            .filter_map(|e| e.file_name().to_string_lossy().parse().ok())
            .collect(),
        Err(_) => Vec::new(),
    };
    fds.sort();
    for fd in fds {
        let link = match std::fs::read_link(format!("/proc/self/fd/{}", fd)) {
            Ok(l) => l,
            Err(_) => continue,
        };
        if !link.to_string_lossy().contains("[signalfd]") {
            continue;
        }
        let info = std::fs::read_to_string(format!("/proc/self/fdinfo/{}", fd)).unwrap_or_default();
        for line in info.lines() {
            if let Some(rest) = line.strip_prefix("sigmask:") {
                let m = u64::from_str_radix(rest.trim(), 16).unwrap_or(0);
                if n == 0 {
                    mask = bits(m);
                }
                n += 1;
            }
        }
    }
    (n, mask)
}

fn handler_counts() -> Value {
    let mut u: Vec<i32> = UNIVERSE.iter().map(|(s, _)| *s).collect();
    u.sort();
    Value::Array(
        u.iter()
            .map(|s| json!([s, HANDLER_RUNS[*s as usize].load(Ordering::SeqCst)]))
            .collect(),
    )
}

fn to_signals(v: &Value) -> Vec<Signal> {
    let mut out = Vec::new();
    if let Some(a) = v.as_array() {
        for x in a {
            let n = x.as_i64().unwrap_or(-1) as libc::c_int;
            match UNIVERSE.iter().find(|(s, _)| *s == n) {
                Some((_, sig)) => out.push(*sig),
                None => {
                    eprintln!("drive_signals: signal {} is not in the universe", n);
                    std::process::exit(2);
                }
            }
        }
    }
    out
}

type CbLog = Rc<RefCell<Vec<(i32, i32, bool, bool)>>>;

struct Live {
    disp: Dispatcher<'static, Signals, ()>,
    token: RegistrationToken,
}

fn res_str<T, E>(r: std::thread::Result<Result<T, E>>) -> &'static str {
    match r {
        Ok(Ok(_)) => "ok",
        Ok(Err(_)) => "err",
        Err(_) => "panic",
    }
}

/// Everything the kernel knows, after one operation.
fn observe(mut fields: serde_json::Map<String, Value>, cbs: &CbLog, alive: bool) {
    let ps = proc_status();
    let (nfd, fdm) = signalfd_masks();
    let cb: Vec<Value> = cbs
        .borrow_mut()
        .drain(..)
        .map(|(signo, code, pid_ok, uid_ok)| json!([signo, code, pid_ok as u8, uid_ok as u8]))
        .collect();
    fields.insert("blk".into(), json!(blocked()));
    fields.insert("blkp".into(), json!(bits(ps.sigblk)));
    fields.insert("pend".into(), json!(pending()));
    fields.insert("pt".into(), json!(bits(ps.sigpnd)));
    fields.insert("pp".into(), json!(bits(ps.shdpnd)));
    fields.insert("nfd".into(), json!(nfd));
    fields.insert("fdm".into(), json!(fdm));
    fields.insert("cbs".into(), Value::Array(cb));
    fields.insert("hd".into(), handler_counts());
    fields.insert("alive".into(), json!(alive as u8));
    fields.insert("thr".into(), json!(ps.threads));
    trace::ev("op", Value::Object(fields));
}

/// Bring the process back to the clean state every scenario starts from: no universe signal
/// blocked, nothing pending, counters at zero.  Returns what was left over (all empty = clean).
fn clean_start() -> Value {
    let left_blk = blocked();
    let left_pend = pending();
    let (left_nfd, _) = signalfd_masks();
    let total = || -> usize { UNIVERSE.iter().map(|(s, _)| HANDLER_RUNS[*s as usize].load(Ordering::SeqCst)).sum() };
    let before = total();
    unsafe {
        let set = universe_sigset();
        // leftovers that were pending are delivered to the counting handlers here
        libc::pthread_sigmask(libc::SIG_UNBLOCK, &set, std::ptr::null_mut());
    }
    // handler runs caused by draining the leftovers (not the runs of the previous scenario)
    let left_hd = total() - before;
    for (signo, _) in UNIVERSE {
        HANDLER_RUNS[signo as usize].store(0, Ordering::SeqCst);
    }
    json!({"blk": left_blk, "pend": left_pend, "nfd": left_nfd, "hd": left_hd,
           "still_blk": blocked(), "still_pend": pending()})
}

fn run_scenario(scn: &Value) {
    let id = scn.get("id").cloned().unwrap_or(json!("x"));
    let left = clean_start();
    let mut u: Vec<i32> = UNIVERSE.iter().map(|(s, _)| *s).collect();
    u.sort();
    trace::ev(
        "reset",
        json!({"id": id, "U": u, "left": left, "thr": proc_status().threads,
               "pid": unsafe { libc::getpid() }}),
    );

    let mut el: EventLoop<'static, ()> = match EventLoop::try_new() {
        Ok(el) => el,
        Err(e) => {
            eprintln!("drive_signals: EventLoop::try_new failed: {}", e);
            std::process::exit(2);
        }
    };
    let handle = el.handle();
    let cbs: CbLog = Rc::new(RefCell::new(Vec::new()));
    let mut live: Option<Live> = None;
    let mypid = unsafe { libc::getpid() } as u32;
    let myuid = unsafe { libc::getuid() } as u32;

    let empty: Vec<Value> = Vec::new();
    let mut ops: Vec<Value> = scn.get("ops").and_then(|o| o.as_array()).unwrap_or(&empty).clone();
    // teardown: a source that is still alive at the end is dropped, as one more (logged) operation
    ops.push(json!({"op": "drop", "auto": 1}));

    for op in ops.iter() {
        let name = op.get("op").and_then(|o| o.as_str()).unwrap_or("?").to_string();
        let auto = op.get("auto").and_then(|a| a.as_i64()).unwrap_or(0);
        let mut f = serde_json::Map::new();
        f.insert("op".into(), json!(name));
        if auto == 1 {
            if live.is_none() {
                continue;
            }
            f.insert("auto".into(), json!(1));
        }
        let r: &'static str = match name.as_str() {
            "new" => {
                let sigs = to_signals(&op["S"]);
                f.insert("S".into(), op["S"].clone());
                if live.is_some() {
                    "misuse"
                } else {
                    let cbs2 = cbs.clone();
                    let r = catch_unwind(AssertUnwindSafe(|| -> Result<Live, String> {
                        let src = Signals::new(&sigs).map_err(|e| e.to_string())?;
                        let disp = Dispatcher::new(src, move |ev: calloop::signals::Event, _: &mut (), _: &mut ()| {
                            cbs2.borrow_mut().push((
                                ev.signal() as i32,
                                ev.code(),
                                ev.pid() == mypid,
                                ev.uid() == myuid,
                            ));
                        });
                        let token = handle.register_dispatcher(disp.clone()).map_err(|e| e.to_string())?;
                        Ok(Live { disp, token })
                    }));
                    match r {
                        Ok(Ok(l)) => {
                            live = Some(l);
                            "ok"
                        }
                        Ok(Err(_)) => "err",
                        Err(_) => "panic",
                    }
                }
            }
            "add" | "remove" | "set" => {
                let sigs = to_signals(&op["S"]);
                f.insert("S".into(), op["S"].clone());
                match live.as_ref() {
                    None => "misuse",
                    Some(l) => res_str(catch_unwind(AssertUnwindSafe(|| {
                        let mut src = l.disp.as_source_mut();
                        match name.as_str() {
                            "add" => src.add_signals(&sigs),
                            "remove" => src.remove_signals(&sigs),
                            _ => src.set_signals(&sigs),
                        }
                    }))),
                }
            }
            "drop" => match live.take() {
                None => "misuse",
                Some(l) => res_str(catch_unwind(AssertUnwindSafe(|| -> Result<(), ()> {
                    handle.remove(l.token);
                    // panics if the loop still holds the dispatcher
                    let src: Signals = l.disp.into_source_inner();
                    drop(src);
                    Ok(())
                }))),
            },
            "raise" => {
                let sig = op["sig"].as_i64().unwrap_or(-1) as libc::c_int;
                let k = op.get("k").and_then(|k| k.as_str()).unwrap_or("t").to_string();
                f.insert("sig".into(), json!(sig));
                f.insert("k".into(), json!(k));
                if !UNIVERSE.iter().any(|(s, _)| *s == sig) {
                    eprintln!("drive_signals: raise of {} which is not in the universe", sig);
                    std::process::exit(2);
                }
                let rc = unsafe {
                    if k == "p" {
                        libc::kill(libc::getpid(), sig)
                    } else {
                        libc::raise(sig)
                    }
                };
                if rc == 0 {
                    "ok"
                } else {
                    "err"
                }
            }
            "dispatch" => res_str(catch_unwind(AssertUnwindSafe(|| {
                el.dispatch(Some(Duration::ZERO), &mut ())
            }))),
            other => {
                eprintln!("drive_signals: unknown op {}", other);
                std::process::exit(2);
            }
        };
        f.insert("r".into(), json!(r));
        observe(f, &cbs, live.is_some());
    }
    drop(live);
    drop(el);
}

fn main() {
    let args: Vec<String> = std::env::args().collect();
    if args.len() < 3 {
        eprintln!("usage: drive_signals <scenarios.ndjson> <trace.ndjson>");
        std::process::exit(2);
    }
    std::panic::set_hook(Box::new(|_| {}));
    install_handlers();
    let f = std::fs::File::open(&args[1]).expect("scenario file");
    let mut out = std::io::BufWriter::new(std::fs::File::create(&args[2]).expect("trace file"));
    let mut n = 0;
    for line in BufReader::new(f).lines() {
        let line = line.unwrap();
        if line.trim().is_empty() {
            continue;
        }
        let scn: Value = match serde_json::from_str(&line) {
            Ok(v) => v,
            Err(e) => {
                eprintln!("bad scenario line: {}", e);
                std::process::exit(2);
            }
        };
        run_scenario(&scn);
        trace::flush_to(&mut out).unwrap();
        n += 1;
    }
    let thr = proc_status().threads;
    eprintln!("drive_signals: {} scenarios, {} thread(s)", n, thr);
    if thr != 1 {
        std::process::exit(3);
    }
}
