//! usage: drive_core <scenarios.ndjson> <trace-out.ndjson>
use std::io::{BufRead, BufReader};

fn main() {
    let args: Vec<String> = std::env::args().collect();
    if args.len() < 3 {
        eprintln!("usage: drive_core <scenarios.ndjson> <trace.ndjson>");
        std::process::exit(2);
    }
    std::panic::set_hook(Box::new(|_| {}));
    let f = std::fs::File::open(&args[1]).expect("scenario file");
    let mut out = std::io::BufWriter::new(std::fs::File::create(&args[2]).expect("trace file"));
    let mut n = 0;
    for line in BufReader::new(f).lines() {
        let line = line.unwrap();
        if line.trim().is_empty() {
            continue;
        }
        let scn: serde_json::Value = match serde_json::from_str(&line) {
            Ok(v) => v,
            Err(e) => {
                eprintln!("bad scenario line: {}", e);
                std::process::exit(2);
            }
        };
        calloop_verif_harness::core::run_scenario(&scn);
        calloop_verif_harness::trace::flush_to(&mut out).unwrap();
        n += 1;
    }
    eprintln!("drive_core: {} scenarios", n);
}
