//! usage: drive_timeout <scenarios.ndjson> <trace-out.ndjson> [max-wall-ms]
//!
//! (with max-wall-ms, no new scenario is started after that much wall-clock time: the trace then
//! holds a prefix of the scenario list -- the quick tier bounds its duration on a loaded machine)
//!
//! C12 driver ("dispatch() waits exactly as long as it should").  Every scenario is one
//! configuration enumerated by TLC from spec/Timeout.tla (timeout x armed timers x idle sources x
//! external wake-up x EINTR).  The driver builds a REAL `EventLoop` with the real sources and
//! timers, MEASURES `dispatch(timeout)` with `std::time::Instant`, and logs raw numbers.  This file
//! applies no tolerance and takes no decision: the expected wait, the timers that must fire and
//! the tolerances live in spec/Timeout.tla / spec/TimeoutTrace.tla.  What happens here is ordinary
//! wall-clock measurement.
//!
//! Scenario line:
//!   {"id": "...", "to_us": 30000 | -1 (None), "timers": [{"n": "mid", "d_us": 100000, "far": 0}, ...],
//!    "src": ["ping_live", "ping_closed", "chan_closed", "exec_idle", "gen_idle", "gen_disabled", "life_synth", "life_slow"], "bs_us": 50000,
//!    "wake": "none" | "signal" | "ping", "wk_us": 60000, "intr": 0 | 1, "ik_us": 5000,
//!    "s2_us": 30000, "guard_us": 1500000}
//!
//! Per scenario:
//!   0. a control wait, `poll(NULL, 0, 1 ms)`, is timed (ctl_over_us = how late this thread woke up: the scheduling
//!      latency of the machine at this moment, independent of calloop);
//!   1. sources are inserted; one warm-up `dispatch(0)` settles them (the executor polls its pending
//!      future once); THEN the handles of `ping_closed` / the senders of `chan_closed` are dropped;
//!   2. t0 = Instant::now(); timers are armed with deadline t0 + d (a `far` timer is
//!      `Timer::from_duration(Duration::MAX)`); all times in the trace are microseconds since t0;
//!   3. a helper thread performs the external actions at their times unless cancelled first:
//!      `LoopSignal::wakeup()` / `Ping::ping()` at wk_us, `pthread_kill(loop thread, SIGUSR1)` (no-op
//!      handler, no SA_RESTART -> EINTR) at ik_us, and a guard `wakeup()` at guard_us so that a
//!      dispatch that would block forever becomes a measurement instead of a hang;
//!   4. `dispatch(timeout)` is measured: start_us (taken just before the call), end_us, the timers
//!      whose callback ran (name, deadline passed to the callback, time of the callback), the source
//!      callbacks, `verif_stats().occupied` and the timer heap length before / after, and the
//!      timeout `dispatch_events` handed to `Poll::poll` (observer hook `Obs::WaitBegin`);
//!   5. the helper is cancelled and joined; if it performed a wake-up, an unmeasured `dispatch(0)`
//!      ("drain") absorbs a notification that may have arrived after the first dispatch returned;
//!   6. a second `dispatch(s2)` is measured the same way (it must block again).
//!
//! Trace: {"e":"reset","id",<the scenario echoed>,"occ0","warm_cbs","far_unarmed","ctl_over_us"} then
//!        {"e":"d","k":1|2,"r":"ok|err|panic","start_us","end_us","wait_us","waits","fired":[{"n","dl_us","at_us"}],
//!         "cbs":[..],"occ_b","occ_a","heap_b","heap_a","acts":[{"a","b_us","a_us"}],"intr_hits",
//!         "drained":0|1,"drain_fired":[..],"drain_cbs":[..]}
use std::any::Any;
use std::cell::{Cell, RefCell};
use std::io::{BufRead, BufReader};
use std::os::fd::{FromRawFd, OwnedFd};
use std::panic::{catch_unwind, AssertUnwindSafe};
use std::rc::Rc;
use std::sync::atomic::{AtomicUsize, Ordering};
use std::sync::mpsc;
use std::time::{Duration, Instant};

use calloop::generic::Generic;
use calloop::ping::{make_ping, Ping};
use calloop::timer::{TimeoutAction, Timer};
use calloop::{
    EventIterator, EventLoop, EventSource, Interest, LoopSignal, Mode, Poll, PostAction, Readiness,
    Token, TokenFactory,
};
use calloop_verif_harness::trace;
use serde_json::{json, Value};

// ------------------------------------------------------------------------------------------ helpers
fn us_since(t: Instant, t0: Instant) -> i64 {
    if t >= t0 {
        (t - t0).as_micros() as i64
    } else {
        -((t0 - t).as_micros() as i64)
    }
}

fn pipe() -> (OwnedFd, OwnedFd) {
    let mut fds = [0 as libc::c_int; 2];
    let r = unsafe { libc::pipe2(fds.as_mut_ptr(), libc::O_NONBLOCK | libc::O_CLOEXEC) };
    assert_eq!(r, 0, "pipe2");
    unsafe { (OwnedFd::from_raw_fd(fds[0]), OwnedFd::from_raw_fd(fds[1])) }
}

static INTR_HITS: AtomicUsize = AtomicUsize::new(0);

/// Async-signal-safe no-op (one atomic increment): its only purpose is to make epoll_wait return EINTR.
extern "C" fn intr_handler(_sig: libc::c_int) {
    INTR_HITS.fetch_add(1, Ordering::SeqCst);
}

fn install_intr_handler() {
    unsafe {
        let mut sa: libc::sigaction = std::mem::zeroed();
        sa.sa_sigaction = intr_handler as extern "C" fn(libc::c_int) as usize;
        libc::sigemptyset(&mut sa.sa_mask);
        sa.sa_flags = 0; // no SA_RESTART
        assert_eq!(libc::sigaction(libc::SIGUSR1, &sa, std::ptr::null_mut()), 0);
    }
}

/// What the callbacks record (the `Data` of the loop).
struct Shared {
    t0: Instant,
    fired: Vec<Value>,
    cbs: Vec<String>,
}

thread_local! {
    /// timeouts handed to Poll::poll by dispatch_events (Obs::WaitBegin), -1 = None
    static WAITS: RefCell<Vec<i64>> = const { RefCell::new(Vec::new()) };
}

// ------------------------------------------------------------- a source with lifecycle notifications
/// Idle fd + `before_sleep` that returns ONE synthetic event after being armed.
struct LifeSynth {
    fd: OwnedFd,
    tok: Option<Token>,
    armed: Rc<Cell<bool>>,
}

impl EventSource for LifeSynth {
    type Event = ();
    type Metadata = ();
    type Ret = ();
    type Error = std::io::Error;

    fn process_events<F>(&mut self, _: Readiness, _: Token, mut callback: F) -> Result<PostAction, Self::Error>
    where
        F: FnMut((), &mut ()),
    {
        callback((), &mut ());
        Ok(PostAction::Continue)
    }

    fn register(&mut self, poll: &mut Poll, tf: &mut TokenFactory) -> calloop::Result<()> {
        let t = tf.token();
        self.tok = Some(t);
        unsafe { poll.register(&self.fd, Interest::READ, Mode::Level, t) }
    }

    fn reregister(&mut self, poll: &mut Poll, tf: &mut TokenFactory) -> calloop::Result<()> {
        let t = tf.token();
        self.tok = Some(t);
        poll.reregister(&self.fd, Interest::READ, Mode::Level, t)
    }

    fn unregister(&mut self, poll: &mut Poll) -> calloop::Result<()> {
        self.tok = None;
        poll.unregister(&self.fd)
    }

    const NEEDS_EXTRA_LIFECYCLE_EVENTS: bool = true;

    fn before_sleep(&mut self) -> calloop::Result<Option<(Readiness, Token)>> {
        match (self.armed.replace(false), self.tok) {
            (true, Some(t)) => Ok(Some((
                Readiness {
                    readable: true,
                    writable: false,
                    error: false,
                },
                t,
            ))),
            _ => Ok(None),
        }
    }

    fn before_handle_events(&mut self, _: EventIterator<'_>) {}
}

/// Idle fd + a `before_sleep` that takes `dur` (user code running between the start of the dispatch and the wait)
/// while armed, and returns None.  The end of the last slow before_sleep is kept in BS_END.
struct LifeSlow {
    fd: OwnedFd,
    armed: Rc<Cell<bool>>,
    dur: Duration,
}

thread_local! {
    static BS_END: Cell<Option<Instant>> = const { Cell::new(None) };
}

impl EventSource for LifeSlow {
    type Event = ();
    type Metadata = ();
    type Ret = ();
    type Error = std::io::Error;

    fn process_events<F>(&mut self, _: Readiness, _: Token, mut callback: F) -> Result<PostAction, Self::Error>
    where
        F: FnMut((), &mut ()),
    {
        callback((), &mut ());
        Ok(PostAction::Continue)
    }

    fn register(&mut self, poll: &mut Poll, tf: &mut TokenFactory) -> calloop::Result<()> {
        unsafe { poll.register(&self.fd, Interest::READ, Mode::Level, tf.token()) }
    }

    fn reregister(&mut self, poll: &mut Poll, tf: &mut TokenFactory) -> calloop::Result<()> {
        poll.reregister(&self.fd, Interest::READ, Mode::Level, tf.token())
    }

    fn unregister(&mut self, poll: &mut Poll) -> calloop::Result<()> {
        poll.unregister(&self.fd)
    }

    const NEEDS_EXTRA_LIFECYCLE_EVENTS: bool = true;

    fn before_sleep(&mut self) -> calloop::Result<Option<(Readiness, Token)>> {
        if self.armed.get() {
            let until = Instant::now() + self.dur;
            while Instant::now() < until {
                std::thread::sleep(until.saturating_duration_since(Instant::now()));
            }
            BS_END.with(|b| b.set(Some(Instant::now())));
        }
        Ok(None)
    }

    fn before_handle_events(&mut self, _: EventIterator<'_>) {}
}

// ------------------------------------------------------------------------------------ helper thread
enum Act {
    Signal(LoopSignal),
    Ping(Ping),
    Intr(libc::pthread_t),
}

/// Several timers inside ONE event source that forwards every event to all of them (the usual shape of a
/// composite source: each sub-source recognises its own token and ignores the others').
struct TimerBundle {
    timers: Vec<(String, Timer)>,
}

impl EventSource for TimerBundle {
    type Event = (String, Instant);
    type Metadata = ();
    type Ret = ();
    type Error = std::io::Error;

    fn process_events<F>(&mut self, readiness: Readiness, token: Token, mut callback: F) -> Result<PostAction, Self::Error>
    where
        F: FnMut((String, Instant), &mut ()),
    {
        for (name, t) in self.timers.iter_mut() {
            t.process_events(readiness, token, |dl, &mut ()| {
                callback((name.clone(), dl), &mut ());
                TimeoutAction::Drop
            })?;
        }
        Ok(PostAction::Continue)
    }
    fn register(&mut self, poll: &mut Poll, tf: &mut TokenFactory) -> calloop::Result<()> {
        for (_, t) in self.timers.iter_mut() {
            t.register(poll, tf)?;
        }
        Ok(())
    }
    fn reregister(&mut self, poll: &mut Poll, tf: &mut TokenFactory) -> calloop::Result<()> {
        for (_, t) in self.timers.iter_mut() {
            t.reregister(poll, tf)?;
        }
        Ok(())
    }
    fn unregister(&mut self, poll: &mut Poll) -> calloop::Result<()> {
        for (_, t) in self.timers.iter_mut() {
            t.unregister(poll)?;
        }
        Ok(())
    }
}

struct Planned {
    at_us: u64,
    name: &'static str,
    act: Act,
}

/// Performs the planned actions at t0 + at_us, in order, until cancelled; returns what it did:
/// (name, time just before the action, time just after), microseconds since t0.
fn helper(go: mpsc::Receiver<Instant>, cancel: mpsc::Receiver<()>, mut plan: Vec<Planned>) -> Vec<(&'static str, i64, i64)> {
    let mut done = Vec::new();
    let t0 = match go.recv() {
        Ok(t) => t,
        Err(_) => return done,
    };
    plan.sort_by_key(|p| p.at_us);
    for p in plan {
        let due = t0 + Duration::from_micros(p.at_us);
        loop {
            let now = Instant::now();
            if now >= due {
                break;
            }
            match cancel.recv_timeout(due - now) {
                Err(mpsc::RecvTimeoutError::Timeout) => continue,
                _ => return done, // cancelled (or the driver is gone)
            }
        }
        // a cancellation that is already queued wins over an action that became due meanwhile
        if !matches!(cancel.try_recv(), Err(mpsc::TryRecvError::Empty)) {
            return done;
        }
        let b = us_since(Instant::now(), t0);
        match &p.act {
            Act::Signal(s) => s.wakeup(),
            Act::Ping(pg) => pg.ping(),
            Act::Intr(t) => unsafe {
                libc::pthread_kill(*t, libc::SIGUSR1);
            },
        }
        let a = us_since(Instant::now(), t0);
        done.push((p.name, b, a));
    }
    done
}

// ----------------------------------------------------------------------------------------- scenario
fn names(v: &Value) -> Vec<String> {
    v.as_array()
        .map(|a| a.iter().filter_map(|x| x.as_str().map(String::from)).collect())
        .unwrap_or_default()
}

struct Measured {
    r: &'static str,
    start_us: i64,
    end_us: i64,
    waits: Vec<i64>,
    fired: Vec<Value>,
    cbs: Vec<String>,
}

fn measure(el: &mut EventLoop<'static, Shared>, sh: &mut Shared, timeout: Option<Duration>, before: impl FnOnce()) -> Measured {
    sh.fired.clear();
    sh.cbs.clear();
    WAITS.with(|w| w.borrow_mut().clear());
    let t0 = sh.t0;
    before();
    let start = Instant::now();
    let r = catch_unwind(AssertUnwindSafe(|| el.dispatch(timeout, sh)));
    let end = Instant::now();
    Measured {
        r: match r {
            Ok(Ok(())) => "ok",
            Ok(Err(_)) => "err",
            Err(_) => "panic",
        },
        start_us: us_since(start, t0),
        end_us: us_since(end, t0),
        waits: WAITS.with(|w| w.borrow().clone()),
        fired: std::mem::take(&mut sh.fired),
        cbs: std::mem::take(&mut sh.cbs),
    }
}

fn run_scenario(scn: &Value) {
    let id = scn["id"].as_str().unwrap_or("?").to_string();
    let to_us = scn["to_us"].as_i64().unwrap_or(-1);
    let timeout = if to_us < 0 { None } else { Some(Duration::from_micros(to_us as u64)) };
    let src = names(&scn["src"]);
    let has = |n: &str| src.iter().any(|s| s == n);
    let wake = scn["wake"].as_str().unwrap_or("none").to_string();
    let wk_us = scn["wk_us"].as_u64().unwrap_or(60_000);
    let intr = scn["intr"].as_i64().unwrap_or(0) != 0;
    let ik_us = scn["ik_us"].as_u64().unwrap_or(5_000);
    let s2_us = scn["s2_us"].as_u64().unwrap_or(30_000);
    let guard_us = scn["guard_us"].as_u64().unwrap_or(1_500_000);
    let timers: Vec<(String, i64, bool)> = scn["timers"]
        .as_array()
        .map(|a| {
            a.iter()
                .map(|t| {
                    (
                        t["n"].as_str().unwrap_or("?").to_string(),
                        t["d_us"].as_i64().unwrap_or(0),
                        t["far"].as_i64().unwrap_or(0) != 0,
                    )
                })
                .collect()
        })
        .unwrap_or_default();

    // control wait (independent of calloop): how late does THIS thread wake up from a 1 ms poll(2) right now?
    // The engine uses the distribution of this number to decide whether the machine is quiet enough for its
    // sharper (20 ms) upper bound; it plays no role in any other clause.
    let c0 = Instant::now();
    unsafe {
        libc::poll(std::ptr::null_mut(), 0, 1);
    }
    let ctl_over_us = c0.elapsed().as_micros() as i64 - 1000;

    let mut el: EventLoop<'static, Shared> = EventLoop::try_new().expect("EventLoop::try_new");
    let handle = el.handle();
    let mut sh = Shared {
        t0: Instant::now(),
        fired: Vec::new(),
        cbs: Vec::new(),
    };
    // things that must stay alive for the whole scenario (handles, write ends, the scheduler)
    let mut keep: Vec<Box<dyn Any>> = Vec::new();
    // peers that go away after the warm-up
    let mut going: Vec<Box<dyn Any>> = Vec::new();
    let mut wake_ping: Option<Ping> = None;
    let armed = Rc::new(Cell::new(false));

    // ---- 1. the idle sources
    if has("ping_live") {
        let (p, s) = make_ping().expect("make_ping");
        handle
            .insert_source(s, |(), &mut (), d: &mut Shared| d.cbs.push("ping".into()))
            .expect("insert ping_live");
        wake_ping = Some(p.clone());
        keep.push(Box::new(p));
    }
    if has("ping_closed") {
        let (p, s) = make_ping().expect("make_ping");
        handle
            .insert_source(s, |(), &mut (), d: &mut Shared| d.cbs.push("ping_closed".into()))
            .expect("insert ping_closed");
        going.push(Box::new(p));
    }
    if has("chan_closed") {
        let (tx, rx) = calloop::channel::channel::<u32>();
        handle
            .insert_source(rx, |ev, &mut (), d: &mut Shared| match ev {
                calloop::channel::Event::Msg(_) => d.cbs.push("msg".into()),
                calloop::channel::Event::Closed => d.cbs.push("closed".into()),
            })
            .expect("insert chan_closed");
        going.push(Box::new(tx));
    }
    if has("exec_idle") {
        let (exec, sched) = calloop::futures::executor::<u32>().expect("executor");
        handle
            .insert_source(exec, |_v, &mut (), d: &mut Shared| d.cbs.push("exec".into()))
            .expect("insert exec_idle");
        sched.schedule(futures::future::pending::<u32>()).expect("schedule");
        keep.push(Box::new(sched));
    }
    if has("gen_idle") {
        let (r, w) = pipe();
        handle
            .insert_source(Generic::new(r, Interest::READ, Mode::Level), |_, _, d: &mut Shared| {
                d.cbs.push("gen_idle".into());
                Ok(PostAction::Continue)
            })
            .expect("insert gen_idle");
        keep.push(Box::new(w));
    }
    if has("gen_disabled") {
        let (r, w) = pipe();
        let n = unsafe { libc::write(std::os::fd::AsRawFd::as_raw_fd(&w), b"x".as_ptr() as *const libc::c_void, 1) };
        assert_eq!(n, 1);
        let tok = handle
            .insert_source(Generic::new(r, Interest::READ, Mode::Level), |_, _, d: &mut Shared| {
                d.cbs.push("gen_disabled".into());
                Ok(PostAction::Continue)
            })
            .expect("insert gen_disabled");
        handle.disable(&tok).expect("disable");
        keep.push(Box::new(w));
    }
    if has("life_synth") {
        let (r, w) = pipe();
        handle
            .insert_source(
                LifeSynth {
                    fd: r,
                    tok: None,
                    armed: armed.clone(),
                },
                |(), &mut (), d: &mut Shared| d.cbs.push("synth".into()),
            )
            .expect("insert life_synth");
        keep.push(Box::new(w));
    }

    let slow_armed = Rc::new(Cell::new(false));
    if has("life_slow") {
        let (r, w) = pipe();
        handle
            .insert_source(
                LifeSlow {
                    fd: r,
                    armed: slow_armed.clone(),
                    dur: Duration::from_micros(scn["bs_us"].as_u64().unwrap_or(50_000)),
                },
                |(), &mut (), d: &mut Shared| d.cbs.push("slow".into()),
            )
            .expect("insert life_slow");
        keep.push(Box::new(w));
    }
    BS_END.with(|b| b.set(None));

    // warm-up: settles the sources (the executor polls its pending future once); nothing may be delivered
    let warm = measure(&mut el, &mut sh, Some(Duration::ZERO), || {});
    let warm_cbs = warm.cbs.len() + warm.fired.len();
    // now the peers go away: close marker / Closed become pending
    drop(going);

    // ---- 3. helper thread (spawned before t0; it waits for `go`)
    let mut plan = Vec::new();
    match wake.as_str() {
        "signal" => plan.push(Planned {
            at_us: wk_us,
            name: "signal",
            act: Act::Signal(el.get_signal()),
        }),
        "ping" => plan.push(Planned {
            at_us: wk_us,
            name: "ping",
            act: Act::Ping(wake_ping.clone().expect("wake=ping needs ping_live")),
        }),
        _ => {}
    }
    if intr {
        plan.push(Planned {
            at_us: ik_us,
            name: "intr",
            act: Act::Intr(unsafe { libc::pthread_self() }),
        });
    }
    plan.push(Planned {
        at_us: guard_us,
        name: "guard",
        act: Act::Signal(el.get_signal()),
    });
    let (go_tx, go_rx) = mpsc::channel::<Instant>();
    let (cancel_tx, cancel_rx) = mpsc::channel::<()>();
    let th = std::thread::spawn(move || helper(go_rx, cancel_rx, plan));
    INTR_HITS.store(0, Ordering::SeqCst);
    let occ0 = handle.verif_stats().occupied;

    // ---- 2. t0 and the timers
    let t0 = Instant::now();
    sh.t0 = t0;
    let _ = go_tx.send(t0);
    let mut far_unarmed = 0;
    let bundle = scn["bundle"].as_i64().unwrap_or(0) != 0;
    let mut bundled: Vec<(String, Timer)> = Vec::new();
    for (name, d_us, far) in &timers {
        let timer = if *far {
            let t = Timer::from_duration(Duration::MAX);
            if t.current_deadline().is_none() {
                far_unarmed += 1;
            }
            t
        } else if *d_us >= 0 {
            Timer::from_deadline(t0 + Duration::from_micros(*d_us as u64))
        } else {
            Timer::from_deadline(t0.checked_sub(Duration::from_micros((-*d_us) as u64)).expect("t0 - d"))
        };
        let name = name.clone();
        if bundle {
            bundled.push((name, timer));
            continue;
        }
        handle
            .insert_source(timer, move |deadline: Instant, &mut (), d: &mut Shared| {
                let now = Instant::now();
                d.fired.push(json!({"n": name, "dl_us": us_since(deadline, d.t0), "at_us": us_since(now, d.t0)}));
                TimeoutAction::Drop
            })
            .expect("insert timer");
    }
    if bundle {
        handle
            .insert_source(TimerBundle { timers: bundled }, move |(name, deadline): (String, Instant), &mut (), d: &mut Shared| {
                let now = Instant::now();
                d.fired.push(json!({"n": name, "dl_us": us_since(deadline, d.t0), "at_us": us_since(now, d.t0)}));
            })
            .expect("insert timer bundle");
    }

    let mut echo = scn.clone();
    if let Value::Object(m) = &mut echo {
        m.insert("id".into(), json!(id));
        m.insert("occ0".into(), json!(occ0));
        m.insert("ctl_over_us".into(), json!(ctl_over_us));
        m.insert("warm_cbs".into(), json!(warm_cbs));
        m.insert("far_unarmed".into(), json!(far_unarmed));
        m.insert("s2_us".into(), json!(s2_us));
        m.insert("guard_us".into(), json!(guard_us));
        m.insert("wk_us".into(), json!(wk_us));
        m.insert("ik_us".into(), json!(ik_us));
        m.insert("intr".into(), json!(intr as u8));
        m.insert("wake".into(), json!(wake));
        m.insert("to_us".into(), json!(if to_us < 0 { -1 } else { to_us }));
        m.remove("e");
    }
    trace::ev("reset", echo);

    // ---- 4. the measured dispatch
    let st_b = handle.verif_stats();
    let m1 = measure(&mut el, &mut sh, timeout, || {
        armed.set(has("life_synth"));
        slow_armed.set(has("life_slow"));
    });
    slow_armed.set(false);
    let bs_end_us = BS_END.with(|b| b.get()).map(|t| us_since(t, t0)).unwrap_or(0);
    let st_a = handle.verif_stats();

    // ---- 5. cancel the helper; absorb a late notification
    let _ = cancel_tx.send(());
    let acts = th.join().unwrap_or_default();
    let woke = acts.iter().any(|a| a.0 != "intr");
    let (drained, drain_fired, drain_cbs) = if woke && m1.r == "ok" {
        let d = measure(&mut el, &mut sh, Some(Duration::ZERO), || {});
        (1, d.fired, d.cbs)
    } else {
        (0, Vec::new(), Vec::new())
    };
    trace::ev(
        "d",
        json!({
            "k": 1, "r": m1.r, "start_us": m1.start_us, "end_us": m1.end_us,
            "wait_us": m1.waits.first().copied().unwrap_or(-2), "waits": m1.waits.len(),
            "fired": m1.fired, "cbs": m1.cbs,
            "occ_b": st_b.occupied, "occ_a": st_a.occupied, "heap_b": st_b.timer_heap_len, "heap_a": st_a.timer_heap_len,
            "acts": acts.iter().map(|a| json!({"a": a.0, "b_us": a.1, "a_us": a.2})).collect::<Vec<_>>(),
            "intr_hits": INTR_HITS.load(Ordering::SeqCst),
            "drained": drained, "drain_fired": drain_fired, "drain_cbs": drain_cbs,
            "bs_end_us": bs_end_us,
        }),
    );

    // ---- 6. the second dispatch: must block again
    if m1.r == "ok" {
        let st_b = handle.verif_stats();
        let m2 = measure(&mut el, &mut sh, Some(Duration::from_micros(s2_us)), || {});
        let st_a = handle.verif_stats();
        trace::ev(
            "d",
            json!({
                "k": 2, "r": m2.r, "start_us": m2.start_us, "end_us": m2.end_us,
                "wait_us": m2.waits.first().copied().unwrap_or(-2), "waits": m2.waits.len(),
                "fired": m2.fired, "cbs": m2.cbs,
                "occ_b": st_b.occupied, "occ_a": st_a.occupied, "heap_b": st_b.timer_heap_len, "heap_a": st_a.timer_heap_len,
                "acts": [], "intr_hits": 0, "drained": 0, "drain_fired": [], "drain_cbs": [],
            }),
        );
    }
    drop(el);
    drop(keep);
}

fn main() {
    let args: Vec<String> = std::env::args().collect();
    if args.len() < 3 {
        eprintln!("usage: drive_timeout <scenarios.ndjson> <trace.ndjson>");
        std::process::exit(2);
    }
    std::panic::set_hook(Box::new(|_| {}));
    install_intr_handler();
    calloop::verif::set_observer(Some(Box::new(|obs| {
        if let calloop::verif::Obs::WaitBegin { timeout_us } = obs {
            WAITS.with(|w| w.borrow_mut().push(timeout_us.map(|t| t.min(2_000_000_000) as i64).unwrap_or(-1)));
        }
    })));
    let max_wall = args.get(3).and_then(|s| s.parse::<u64>().ok()).map(Duration::from_millis);
    let began = Instant::now();
    let f = std::fs::File::open(&args[1]).expect("scenario file");
    let mut out = std::io::BufWriter::new(std::fs::File::create(&args[2]).expect("trace file"));
    let mut n = 0;
    for line in BufReader::new(f).lines() {
        let line = line.unwrap();
        if line.trim().is_empty() {
            continue;
        }
        let scn: Value = match serde_json::from_str(&line) {
            Ok(v) => v,
            Err(e) => {
                eprintln!("bad scenario line: {}", e);
                std::process::exit(2);
            }
        };
        if max_wall.map(|m| began.elapsed() >= m).unwrap_or(false) {
            break;
        }
        run_scenario(&scn);
        trace::flush_to(&mut out).unwrap();
        n += 1;
    }
    eprintln!("drive_timeout: {} scenarios", n);
}
