//! drive_tping <scenarios.ndjson> <trace.ndjson>
//! A user-level composite source [PingSource, Timer] whose process_events forwards every event to both sub-sources
//! (spec/TimerPing.tla).  Scenario: {"id", "resched_ms", "rounds", "script": ["ping" | "dispatch0" | "dispatch"...]}.
//! Logs one `tp` event per dispatch and a `tpend` summary; spec/TimerPingTrace.tla judges them.
use calloop::ping::{make_ping, PingSource};
use calloop::timer::{TimeoutAction, Timer};
use calloop::{EventLoop, EventSource, Poll, PostAction, Readiness, Token, TokenFactory};
use calloop_verif_harness::trace::{self, ev};
use serde_json::{json, Value};
use std::io::{BufRead, BufReader};
use std::time::{Duration, Instant};

enum Ev {
    Ping,
    Timer,
}

struct TimerPing {
    ping: PingSource,
    timer: Timer,
    left: u32,
    resched: Duration,
}

impl EventSource for TimerPing {
    type Event = Ev;
    type Metadata = ();
    type Ret = ();
    type Error = Box<dyn std::error::Error + Sync + Send>;

    fn process_events<F>(&mut self, readiness: Readiness, token: Token, mut callback: F) -> Result<PostAction, Self::Error>
    where
        F: FnMut(Ev, &mut ()),
    {
        self.ping.process_events(readiness, token, |(), &mut ()| callback(Ev::Ping, &mut ()))?;
        let left = &mut self.left;
        let resched = self.resched;
        self.timer.process_events(readiness, token, |_, &mut ()| {
            callback(Ev::Timer, &mut ());
            if *left > 1 {
                *left -= 1;
                TimeoutAction::ToDuration(resched)
            } else {
                *left = 0;
                TimeoutAction::Drop
            }
        })?;
        Ok(PostAction::Continue)
    }
    fn register(&mut self, poll: &mut Poll, tf: &mut TokenFactory) -> calloop::Result<()> {
        self.ping.register(poll, tf)?;
        self.timer.register(poll, tf)
    }
    fn reregister(&mut self, poll: &mut Poll, tf: &mut TokenFactory) -> calloop::Result<()> {
        self.ping.reregister(poll, tf)?;
        self.timer.reregister(poll, tf)
    }
    fn unregister(&mut self, poll: &mut Poll) -> calloop::Result<()> {
        self.ping.unregister(poll)?;
        self.timer.unregister(poll)
    }
}

#[derive(Default)]
struct Counts {
    ping_cbs: u32,
    timer_cbs: u32,
}

fn run_scenario(scn: &Value) {
    let resched = Duration::from_millis(scn["resched_ms"].as_u64().unwrap_or(6));
    let rounds = scn["rounds"].as_u64().unwrap_or(3) as u32;
    let mut el: EventLoop<'static, Counts> = EventLoop::try_new().unwrap();
    let (ping, source) = make_ping().unwrap();
    let t0 = Instant::now();
    trace::set_base(t0);
    ev("reset", json!({"id": scn["id"], "rounds": rounds, "resched_us": resched.as_micros() as u64}));
    let src = TimerPing { ping: source, timer: Timer::from_deadline(t0), left: rounds, resched };
    el.handle()
        .insert_source(src, |e, &mut (), c: &mut Counts| match e {
            Ev::Ping => c.ping_cbs += 1,
            Ev::Timer => c.timer_cbs += 1,
        })
        .unwrap();
    let mut c = Counts::default();
    let mut pings = 0;
    let mut errs = 0;
    let mut k = 0;
    for op in scn["script"].as_array().cloned().unwrap_or_default() {
        match op.as_str().unwrap_or("") {
            "ping" => {
                ping.ping();
                pings += 1;
            }
            name => {
                let to = if name == "dispatch0" { Duration::ZERO } else { resched + Duration::from_millis(25) };
                let (p0, t0c) = (c.ping_cbs, c.timer_cbs);
                let s = Instant::now();
                let r = el.dispatch(Some(to), &mut c);
                if r.is_err() {
                    errs += 1;
                }
                ev("tp", json!({"k": k, "r": if r.is_ok() { "ok" } else { "err" }, "timeout_us": to.as_micros() as u64,
                                "elapsed_us": s.elapsed().as_micros() as u64,
                                "ping_cbs": c.ping_cbs - p0, "timer_cbs": c.timer_cbs - t0c}));
                k += 1;
            }
        }
    }
    // let the remaining armings expire (scripted dispatches that found a ping returned before the timer was due)
    for _ in 0..(10 + 3 * rounds) {
        if c.timer_cbs >= rounds {
            break;
        }
        let (p0, t0c) = (c.ping_cbs, c.timer_cbs);
        let to = resched + Duration::from_millis(25);
        let s = Instant::now();
        let r = el.dispatch(Some(to), &mut c);
        if r.is_err() {
            errs += 1;
        }
        ev("tp", json!({"k": k, "r": if r.is_ok() { "ok" } else { "err" }, "timeout_us": to.as_micros() as u64,
                        "elapsed_us": s.elapsed().as_micros() as u64,
                        "ping_cbs": c.ping_cbs - p0, "timer_cbs": c.timer_cbs - t0c}));
        k += 1;
    }
    let _ = el.dispatch(Some(Duration::ZERO), &mut c);
    ev("tpend", json!({"pings": pings, "ping_cbs": c.ping_cbs, "timer_cbs": c.timer_cbs, "errs": errs, "rounds": rounds}));
}

fn main() {
    let args: Vec<String> = std::env::args().collect();
    if args.len() < 3 {
        eprintln!("usage: drive_tping <scenarios.ndjson> <trace.ndjson>");
        std::process::exit(2);
    }
    let f = std::fs::File::open(&args[1]).expect("scenario file");
    let mut out = std::io::BufWriter::new(std::fs::File::create(&args[2]).expect("trace file"));
    let mut n = 0;
    for line in BufReader::new(f).lines() {
        let line = line.unwrap();
        if line.trim().is_empty() {
            continue;
        }
        let scn: Value = serde_json::from_str(&line).expect("scenario");
        run_scenario(&scn);
        trace::flush_to(&mut out).unwrap();
        n += 1;
    }
    eprintln!("drive_tping: {} scenarios", n);
}
