//! drive_hammer <scenarios.ndjson> <trace.ndjson>
//! Free-running race between a sender thread and the loop thread, many short rounds (no step scheduler: the windows
//! aimed at are a few hundred nanoseconds wide and lie between library steps that have no yield point in between).
//! Round: the sender sends two messages a few hundred ns..µs apart while the loop spins on dispatch(ZERO); once the
//! sender reports both sends complete, ONE more dispatch(ZERO) must have delivered everything (the ping of a send is
//! written before send() returns).  Scenario: {"id", "rounds", "bound": -1 | n, "kind": "chan" | "ping" | "exec"}.
//! Logs one `hammer` event per scenario.
use calloop::channel::{channel, sync_channel, Event};
use calloop::EventLoop;
use calloop_verif_harness::trace::{self, ev};
use serde_json::{json, Value};
use std::io::{BufRead, BufReader};
use std::sync::atomic::{AtomicBool, AtomicU64, Ordering};
use std::sync::Arc;
use std::time::{Duration, Instant};

enum Tx {
    Unb(calloop::channel::Sender<u64>),
    Bnd(calloop::channel::SyncSender<u64>),
}

/// kind "ping": the other thread pings once or twice per round; after ping() has returned, one more dispatch(ZERO)
/// must have run the callback at least once since the round began.
fn run_ping(scn: &Value) {
    let rounds = scn["rounds"].as_u64().unwrap_or(20000);
    let mut el: EventLoop<'static, u64> = EventLoop::try_new().unwrap();
    let (ping, src) = calloop::ping::make_ping().unwrap();
    el.handle().insert_source(src, |(), &mut (), d: &mut u64| *d += 1).unwrap();
    let go = Arc::new(AtomicU64::new(0));
    let done = Arc::new(AtomicU64::new(0));
    let stop = Arc::new(AtomicBool::new(false));
    let (go2, done2, stop2) = (go.clone(), done.clone(), stop.clone());
    let th = std::thread::spawn(move || {
        let mut round = 0u64;
        let mut x = 0x9E3779B97F4A7C15u64;
        loop {
            while go2.load(Ordering::Acquire) <= round {
                if stop2.load(Ordering::Acquire) {
                    return;
                }
                std::hint::spin_loop();
            }
            if stop2.load(Ordering::Acquire) {
                return;
            }
            round += 1;
            for _ in 0..(1 + round % 2) {
                x ^= x << 13;
                x ^= x >> 7;
                x ^= x << 17;
                for _ in 0..(x % 400) {
                    std::hint::spin_loop();
                }
                ping.ping();
            }
            done2.store(round, Ordering::Release);
        }
    });
    let (mut cbs, mut stranded, mut errs, mut run, mut timed_out) = (0u64, -1i64, 0, 0u64, 0u8);
    let t0 = Instant::now();
    'rounds: for round in 1..=rounds {
        let before = cbs;
        go.store(round, Ordering::Release);
        while done.load(Ordering::Acquire) < round {
            if el.dispatch(Some(Duration::ZERO), &mut cbs).is_err() {
                errs += 1;
            }
            if t0.elapsed() > Duration::from_secs(60) {
                timed_out = 1;
                break 'rounds;
            }
        }
        if el.dispatch(Some(Duration::ZERO), &mut cbs).is_err() {
            errs += 1;
        }
        run = round;
        if cbs == before {
            stranded = round as i64;
            break;
        }
    }
    stop.store(true, Ordering::Release);
    let _ = th.join();
    ev("hammer", json!({"id": scn["id"], "kind": "ping", "rounds": run, "stranded_round": stranded, "received": cbs, "errs": errs,
                        "in_order": 1, "closed": 1, "bound": -1, "timed_out": timed_out}));
}

/// kind "exec": one long-lived future on an executor; the other thread bumps a counter and wakes the future's waker;
/// after wake() has returned, one more dispatch(ZERO) must have polled the future (it then has seen the counter).
fn run_exec(scn: &Value) {
    use std::sync::Mutex;
    use std::task::{Poll, Waker};
    let rounds = scn["rounds"].as_u64().unwrap_or(20000);
    // upper bound of the random pause before each wake (spin-loop iterations): short pauses land while the loop is still
    // being woken, long ones while it is finishing its run of the executor
    let spin = scn["spin"].as_u64().unwrap_or(400).max(1);
    let mut el: EventLoop<'static, u64> = EventLoop::try_new().unwrap();
    let (exec, sched) = calloop::futures::executor::<u64>().unwrap();
    el.handle().insert_source(exec, |r, &mut (), d: &mut u64| *d += r).unwrap();
    let counter = Arc::new(AtomicU64::new(0));
    let seen = Arc::new(AtomicU64::new(0));
    let finish = Arc::new(AtomicBool::new(false));
    let waker: Arc<Mutex<Option<Waker>>> = Arc::new(Mutex::new(None));
    {
        let (counter, seen, finish, waker) = (counter.clone(), seen.clone(), finish.clone(), waker.clone());
        sched
            .schedule(std::future::poll_fn(move |cx| {
                *waker.lock().unwrap() = Some(cx.waker().clone());
                seen.store(counter.load(Ordering::Acquire), Ordering::Release);
                if finish.load(Ordering::Acquire) {
                    Poll::Ready(1u64)
                } else {
                    Poll::Pending
                }
            }))
            .unwrap();
    }
    let mut results = 0u64;
    let mut errs = 0;
    while waker.lock().unwrap().is_none() {
        if el.dispatch(Some(Duration::ZERO), &mut results).is_err() {
            errs += 1;
        }
    }
    let go = Arc::new(AtomicU64::new(0));
    let done = Arc::new(AtomicU64::new(0));
    let stop = Arc::new(AtomicBool::new(false));
    let (go2, done2, stop2, counter2, waker2) = (go.clone(), done.clone(), stop.clone(), counter.clone(), waker.clone());
    let th = std::thread::spawn(move || {
        let mut round = 0u64;
        let mut x = 0x9E3779B97F4A7C15u64;
        loop {
            while go2.load(Ordering::Acquire) <= round {
                if stop2.load(Ordering::Acquire) {
                    return;
                }
                std::hint::spin_loop();
            }
            if stop2.load(Ordering::Acquire) {
                return;
            }
            round += 1;
            for k in 0..2u64 {
                x ^= x << 13;
                x ^= x >> 7;
                x ^= x << 17;
                for _ in 0..(x % spin) {
                    std::hint::spin_loop();
                }
                counter2.store(round * 2 + k, Ordering::Release);
                let w = waker2.lock().unwrap().clone();
                if let Some(w) = w {
                    if k == 0 {
                        w.wake_by_ref();
                    } else {
                        w.wake();
                    }
                }
            }
            done2.store(round, Ordering::Release);
        }
    });
    let (mut stranded, mut run, mut timed_out) = (-1i64, 0u64, 0u8);
    let t0 = Instant::now();
    'rounds: for round in 1..=rounds {
        go.store(round, Ordering::Release);
        while done.load(Ordering::Acquire) < round {
            if el.dispatch(Some(Duration::ZERO), &mut results).is_err() {
                errs += 1;
            }
            if t0.elapsed() > Duration::from_secs(60) {
                timed_out = 1;
                break 'rounds;
            }
        }
        if el.dispatch(Some(Duration::ZERO), &mut results).is_err() {
            errs += 1;
        }
        run = round;
        if seen.load(Ordering::Acquire) != round * 2 + 1 {
            stranded = round as i64;
            break;
        }
    }
    stop.store(true, Ordering::Release);
    let _ = th.join();
    // let the future finish: its result must be delivered exactly once
    finish.store(true, Ordering::Release);
    if let Some(w) = waker.lock().unwrap().take() {
        w.wake();
    }
    for _ in 0..4 {
        let _ = el.dispatch(Some(Duration::ZERO), &mut results);
    }
    ev("hammer", json!({"id": scn["id"], "kind": "exec", "rounds": run, "stranded_round": stranded, "received": results, "errs": errs,
                        "in_order": 1, "closed": results, "bound": -1, "timed_out": timed_out}));
}

/// kind "wakeup": the other thread calls LoopSignal::wakeup() once per round at a random moment around the start of the
/// loop thread's dispatch(Some(5 s)); the dispatch in progress - or, if none is, the next one - must return promptly
/// (a lost wake-up shows as a dispatch that takes the full five seconds).
fn run_wakeup(scn: &Value) {
    let rounds = scn["rounds"].as_u64().unwrap_or(20000);
    let mut el: EventLoop<'static, u64> = EventLoop::try_new().unwrap();
    let signal = el.get_signal();
    let go = Arc::new(AtomicU64::new(0));
    let done = Arc::new(AtomicU64::new(0));
    let stop = Arc::new(AtomicBool::new(false));
    let (go2, done2, stop2) = (go.clone(), done.clone(), stop.clone());
    let th = std::thread::spawn(move || {
        let mut round = 0u64;
        let mut x = 0x9E3779B97F4A7C15u64;
        loop {
            while go2.load(Ordering::Acquire) <= round {
                if stop2.load(Ordering::Acquire) {
                    return;
                }
                std::hint::spin_loop();
            }
            if stop2.load(Ordering::Acquire) {
                return;
            }
            round += 1;
            x ^= x << 13;
            x ^= x >> 7;
            x ^= x << 17;
            for _ in 0..(x % 600) {
                std::hint::spin_loop();
            }
            signal.wakeup();
            done2.store(round, Ordering::Release);
        }
    });
    let (mut d, mut stranded, mut errs, mut run, mut timed_out, mut worst_us) = (0u64, -1i64, 0, 0u64, 0u8, 0u64);
    let t0 = Instant::now();
    for round in 1..=rounds {
        go.store(round, Ordering::Release);
        let b = Instant::now();
        if el.dispatch(Some(Duration::from_secs(5)), &mut d).is_err() {
            errs += 1;
        }
        let el_us = b.elapsed().as_micros() as u64;
        worst_us = worst_us.max(el_us);
        run = round;
        if el_us > 2_500_000 {
            stranded = round as i64;
            break;
        }
        // the wake-up of this round is issued before the next round starts
        while done.load(Ordering::Acquire) < round {
            std::hint::spin_loop();
        }
        if t0.elapsed() > Duration::from_secs(60) {
            timed_out = 1;
            break;
        }
    }
    stop.store(true, Ordering::Release);
    let _ = th.join();
    ev("hammer", json!({"id": scn["id"], "kind": "wakeup", "rounds": run, "stranded_round": stranded, "received": worst_us, "errs": errs,
                        "in_order": 1, "closed": 1, "bound": -1, "timed_out": timed_out}));
}

/// kinds "pingdrop" / "chandrop": every round makes a fresh ping (channel), hands one clone of its handle (sender) to each
/// of three persistent worker threads and keeps one; at the signal all four drop theirs at the same moment.  Once every
/// drop has returned, one dispatch(ZERO) - a second one is granted - must have removed the ping source (delivered the
/// channel's single Closed): the last handle to go writes the close marker, whoever that is.
fn run_drops(scn: &Value, chan: bool) {
    use std::sync::Mutex;
    const K: usize = 3;
    let rounds = scn["rounds"].as_u64().unwrap_or(5000);
    let mut el: EventLoop<'static, (u64, u64)> = EventLoop::try_new().unwrap();
    let handle = el.handle();
    let go = Arc::new(AtomicU64::new(0));
    let done = Arc::new(AtomicU64::new(0));
    let stop = Arc::new(AtomicBool::new(false));
    let slots: Vec<Arc<Mutex<Option<Box<dyn Send>>>>> = (0..K).map(|_| Arc::new(Mutex::new(None))).collect();
    let mut ths = Vec::new();
    for i in 0..K {
        let (go2, done2, stop2, slot) = (go.clone(), done.clone(), stop.clone(), slots[i].clone());
        ths.push(std::thread::spawn(move || {
            let mut round = 0u64;
            let mut x = 0x9E3779B97F4A7C15u64 ^ (i as u64 + 1);
            loop {
                while go2.load(Ordering::Acquire) <= round {
                    if stop2.load(Ordering::Acquire) {
                        return;
                    }
                    std::hint::spin_loop();
                }
                round += 1;
                let mine = slot.lock().unwrap().take();
                x ^= x << 13;
                x ^= x >> 7;
                x ^= x << 17;
                for _ in 0..(x % 40) {
                    std::hint::spin_loop();
                }
                drop(mine);
                done2.fetch_add(1, Ordering::AcqRel);
            }
        }));
    }
    let mut data = (0u64, 0u64);
    let (mut stranded, mut errs, mut run, mut timed_out) = (-1i64, 0, 0u64, 0u8);
    let t0 = Instant::now();
    'rounds: for round in 1..=rounds {
        let closed_before = data.1;
        let own: Box<dyn Send>;
        let token;
        if chan {
            let (tx, rx) = channel::<u64>();
            token = handle
                .insert_source(rx, |e, &mut (), d: &mut (u64, u64)| match e {
                    Event::Msg(_) => d.0 += 1,
                    Event::Closed => d.1 += 1,
                })
                .unwrap();
            // one message first: its ping is consumed, nothing is pending when the senders go
            let _ = tx.send(round);
            let _ = el.dispatch(Some(Duration::ZERO), &mut data);
            for s in &slots {
                *s.lock().unwrap() = Some(Box::new(tx.clone()));
            }
            own = Box::new(tx);
        } else {
            let (ping, src) = calloop::ping::make_ping().unwrap();
            token = handle.insert_source(src, |(), &mut (), d: &mut (u64, u64)| d.0 += 1).unwrap();
            ping.ping();
            let _ = el.dispatch(Some(Duration::ZERO), &mut data);
            for s in &slots {
                *s.lock().unwrap() = Some(Box::new(ping.clone()));
            }
            own = Box::new(ping);
        }
        go.store(round, Ordering::Release);
        for _ in 0..(round % 37) {
            std::hint::spin_loop();
        }
        drop(own);
        while done.load(Ordering::Acquire) < round * K as u64 {
            if t0.elapsed() > Duration::from_secs(30) {
                timed_out = 1;
                break 'rounds;
            }
            std::hint::spin_loop();
        }
        for _ in 0..2 {
            if el.dispatch(Some(Duration::ZERO), &mut data).is_err() {
                errs += 1;
            }
        }
        run = round;
        let over = if chan { data.1 == closed_before + 1 } else { handle.update(&token).is_err() };
        if !over {
            stranded = round as i64;
            break;
        }
    }
    stop.store(true, Ordering::Release);
    for th in ths {
        let _ = th.join();
    }
    ev("hammer", json!({"id": scn["id"], "kind": if chan { "chandrop" } else { "pingdrop" }, "rounds": run, "stranded_round": stranded,
                        "received": data.0, "errs": errs, "in_order": 1, "closed": data.1, "bound": -1, "timed_out": timed_out}));
}

fn run_scenario(scn: &Value) {
    match scn["kind"].as_str().unwrap_or("chan") {
        "pingdrop" => return run_drops(scn, false),
        "chandrop" => return run_drops(scn, true),
        "wakeup" => return run_wakeup(scn),
        "ping" => return run_ping(scn),
        "exec" => return run_exec(scn),
        _ => {}
    }
    let rounds = scn["rounds"].as_u64().unwrap_or(20000);
    let bound = scn["bound"].as_i64().unwrap_or(-1);
    let mut el: EventLoop<'static, (Vec<u64>, u32)> = EventLoop::try_new().unwrap();
    let (tx, rx) = if bound < 0 {
        let (t, r) = channel::<u64>();
        (Tx::Unb(t), r)
    } else {
        let (t, r) = sync_channel::<u64>(bound as usize);
        (Tx::Bnd(t), r)
    };
    el.handle()
        .insert_source(rx, |e, &mut (), d: &mut (Vec<u64>, u32)| match e {
            Event::Msg(m) => d.0.push(m),
            Event::Closed => d.1 += 1,
        })
        .unwrap();
    let go = Arc::new(AtomicU64::new(0));
    let done = Arc::new(AtomicU64::new(0));
    let stop = Arc::new(AtomicBool::new(false));
    let (go2, done2, stop2) = (go.clone(), done.clone(), stop.clone());
    let th = std::thread::spawn(move || {
        let mut round = 0u64;
        let mut x = 0x9E3779B97F4A7C15u64;
        loop {
            while go2.load(Ordering::Acquire) <= round {
                if stop2.load(Ordering::Acquire) {
                    return;
                }
                std::hint::spin_loop();
            }
            if stop2.load(Ordering::Acquire) {
                return;
            }
            round += 1;
            for k in 0..2u64 {
                let m = round * 2 + k;
                match &tx {
                    Tx::Unb(t) => {
                        let _ = t.send(m);
                    }
                    Tx::Bnd(t) => {
                        let _ = t.send(m);
                    }
                }
                // 0 .. ~4 µs of spinning between the two sends
                x ^= x << 13;
                x ^= x >> 7;
                x ^= x << 17;
                for _ in 0..(x % 400) {
                    std::hint::spin_loop();
                }
            }
            done2.store(round, Ordering::Release);
        }
    });
    let mut data: (Vec<u64>, u32) = (Vec::new(), 0);
    let mut stranded: i64 = -1;
    let mut errs = 0;
    let t0 = Instant::now();
    let mut run = 0u64;
    let mut timed_out = 0u8;
    'rounds: for round in 1..=rounds {
        go.store(round, Ordering::Release);
        while done.load(Ordering::Acquire) < round {
            if el.dispatch(Some(Duration::ZERO), &mut data).is_err() {
                errs += 1;
            }
            if t0.elapsed() > Duration::from_secs(60) {
                // machine too slow: stop without judging the round in progress
                timed_out = 1;
                break 'rounds;
            }
        }
        if el.dispatch(Some(Duration::ZERO), &mut data).is_err() {
            errs += 1;
        }
        run = round;
        if data.0.len() as u64 != 2 * round {
            stranded = round as i64;
            break;
        }
    }
    stop.store(true, Ordering::Release);
    let _ = th.join();
    // the sender (and with it the last handle) is gone: Closed exactly once, nothing else
    for _ in 0..4 {
        let _ = el.dispatch(Some(Duration::ZERO), &mut data);
    }
    let in_order = data.0.windows(2).all(|w| w[0] < w[1]);
    ev("hammer", json!({"id": scn["id"], "rounds": run, "stranded_round": stranded, "received": data.0.len(), "errs": errs,
                        "in_order": in_order as u8, "closed": data.1, "bound": bound, "kind": "chan", "timed_out": timed_out}));
}

fn main() {
    let args: Vec<String> = std::env::args().collect();
    if args.len() < 3 {
        eprintln!("usage: drive_hammer <scenarios.ndjson> <trace.ndjson>");
        std::process::exit(2);
    }
    let f = std::fs::File::open(&args[1]).expect("scenario file");
    let mut out = std::io::BufWriter::new(std::fs::File::create(&args[2]).expect("trace file"));
    let mut n = 0;
    for line in BufReader::new(f).lines() {
        let line = line.unwrap();
        if line.trim().is_empty() {
            continue;
        }
        let scn: Value = serde_json::from_str(&line).expect("scenario");
        run_scenario(&scn);
        trace::flush_to(&mut out).unwrap();
        n += 1;
    }
    eprintln!("drive_hammer: {} scenarios", n);
}
