//! usage: drive_sched <scenarios.ndjson> <trace-out.ndjson>
//!
//! Concurrent scenarios (C03 ping, C04 channel, C10 executor, C11 loop signal / block_on): worker threads
//! and the loop thread run under the step scheduler; the schedule of the scenario (a sequence of thread
//! ids, taken from a behaviour of the TLA+ protocol model or from a seeded generator) decides who runs
//! from one yield point to the next.

use calloop::channel::{channel, sync_channel, Event as ChanEvent, Sender, SyncSender};
use calloop::futures::{executor, Scheduler};
use calloop::ping::{make_ping, Ping};
use calloop::{EventLoop, LoopSignal, RegistrationToken};
use calloop_verif_harness::sched::{Sched, Status, StepResult, Tid};
use calloop_verif_harness::trace::{self, ev};
use serde_json::{json, Value};
use std::future::Future;
use std::io::{BufRead, BufReader};
use std::panic::{catch_unwind, AssertUnwindSafe};
use std::pin::Pin;
use std::sync::atomic::{AtomicBool, AtomicUsize, Ordering};
use std::sync::{mpsc, Arc, Mutex};
use std::task::{Context, Poll, Waker};
use std::time::{Duration, Instant};

/// What the loop thread hands to the controller for distribution to the workers.
enum Handles {
    Ping(Ping),
    Chan(Sender<i64>),
    Sync(SyncSender<i64>),
    Exec(Arc<Mutex<Vec<Option<Waker>>>>),
    Signal(LoopSignal, Arc<Mutex<Vec<Option<Waker>>>>),
}

enum WorkerHandle {
    Ping(Vec<Ping>),
    Chan(Vec<Sender<i64>>),
    Sync(Vec<SyncSender<i64>>),
    Exec(Arc<Mutex<Vec<Option<Waker>>>>),
    Signal(LoopSignal, Arc<Mutex<Vec<Option<Waker>>>>),
}

/// A future that completes after `need` wakes; it records its polls and its drop (thread ids included).
struct ManualFuture {
    id: usize,
    need: usize,
    wakers: Arc<Mutex<Vec<Option<Waker>>>>,
    loop_thread: std::thread::ThreadId,
}

impl Future for ManualFuture {
    type Output = i64;
    fn poll(self: Pin<&mut Self>, cx: &mut Context<'_>) -> Poll<i64> {
        let on_loop = std::thread::current().id() == self.loop_thread;
        let w = WOKEN[self.id % 8].load(Ordering::SeqCst);
        ev("poll", json!({"f": self.id, "woken": w, "on_loop": on_loop as u8}));
        if w >= self.need {
            Poll::Ready(self.id as i64)
        } else {
            {
                let mut ws = self.wakers.lock().unwrap();
                while ws.len() <= self.id {
                    ws.push(None);
                }
                ws[self.id] = Some(cx.waker().clone());
            }
            // a scheduling point inside the poll, after the readiness check and the waker registration:
            // a wake from another thread may land while the future is still being polled
            calloop::verif::yield_point("user.poll");
            Poll::Pending
        }
    }
}

impl Drop for ManualFuture {
    fn drop(&mut self) {
        let on_loop = std::thread::current().id() == self.loop_thread;
        ev("fdrop", json!({"f": self.id, "on_loop": on_loop as u8}));
    }
}

fn panic_msg(p: &Box<dyn std::any::Any + Send>) -> String {
    if let Some(s) = p.downcast_ref::<&str>() {
        s.to_string()
    } else if let Some(s) = p.downcast_ref::<String>() {
        s.clone()
    } else {
        "panic".to_string()
    }
}

fn worker_main(tid: Tid, sched: Arc<Sched>, script: Vec<Value>, mut h: WorkerHandle, back: mpsc::Sender<WorkerHandle>) {
    sched.enroll(tid);
    sched.park(tid, "start");
    let mut msg = (tid as i64) * 1000;
    for (n, op) in script.iter().enumerate() {
        let name = op.as_str().map(|s| s.to_string()).unwrap_or_else(|| op["op"].as_str().unwrap_or("").to_string());
        ev("call", json!({"t": tid, "op": name, "n": n, "f": op.get("f").cloned().unwrap_or(json!(0))}));
        let mut r = "ok".to_string();
        let mut m = 0i64;
        let res = catch_unwind(AssertUnwindSafe(|| match (&mut h, name.as_str()) {
            (WorkerHandle::Ping(v), "ping") => match v.first() {
                Some(p) => p.ping(),
                None => r = "nohandle".into(),
            },
            (WorkerHandle::Ping(v), "clone") => match v.first().cloned() {
                Some(p) => v.push(p),
                None => r = "nohandle".into(),
            },
            (WorkerHandle::Ping(v), "drop") => {
                if v.pop().is_none() {
                    r = "nohandle".into()
                }
            }
            (WorkerHandle::Chan(v), "send") => match v.first() {
                Some(tx) => {
                    msg += 1;
                    m = msg;
                    ev("sending", json!({"t": tid, "m": m}));
                    if tx.send(msg).is_err() {
                        r = "disconnected".into()
                    }
                }
                None => r = "nohandle".into(),
            },
            (WorkerHandle::Chan(v), "clone") => match v.first().cloned() {
                Some(p) => v.push(p),
                None => r = "nohandle".into(),
            },
            (WorkerHandle::Chan(v), "drop") => {
                if v.pop().is_none() {
                    r = "nohandle".into()
                }
            }
            (WorkerHandle::Sync(v), "send") | (WorkerHandle::Sync(v), "try_send") => match v.first() {
                Some(tx) => {
                    msg += 1;
                    m = msg;
                    ev("sending", json!({"t": tid, "m": m}));
                    if name == "send" {
                        if tx.send(msg).is_err() {
                            r = "disconnected".into()
                        }
                    } else {
                        match tx.try_send(msg) {
                            Ok(()) => {}
                            Err(mpsc::TrySendError::Full(_)) => r = "full".into(),
                            Err(mpsc::TrySendError::Disconnected(_)) => r = "disconnected".into(),
                        }
                    }
                }
                None => r = "nohandle".into(),
            },
            (WorkerHandle::Sync(v), "send_burst") => match v.first() {
                // n blocking sends in a row at full speed: the thread leaves the step scheduler for the burst, so
                // that a sender that really blocks on a full channel races with the loop as it does in production
                Some(tx) => {
                    Sched::unenroll();
                    let cnt = op["n"].as_u64().unwrap_or(4);
                    for i in 0..cnt {
                        msg += 1;
                        m = msg;
                        ev("sending", json!({"t": tid, "m": m}));
                        ev("call", json!({"t": tid, "op": "send", "n": 1000 + n * 100 + i as usize, "f": 0}));
                        let rr = if tx.send(msg).is_err() { "disconnected" } else { "ok" };
                        ev("ret", json!({"t": tid, "op": "send", "n": 1000 + n * 100 + i as usize, "r": rr, "m": m}));
                    }
                    m = 0;
                    sched.enroll(tid);
                }
                None => r = "nohandle".into(),
            },
            (WorkerHandle::Sync(v), "clone") => match v.first().cloned() {
                Some(p) => v.push(p),
                None => r = "nohandle".into(),
            },
            (WorkerHandle::Sync(v), "drop") => {
                if v.pop().is_none() {
                    r = "nohandle".into()
                }
            }
            (WorkerHandle::Exec(ws), "wake") | (WorkerHandle::Signal(_, ws), "wake") => {
                let f = op["f"].as_u64().unwrap_or(0) as usize;
                let w = ws.lock().unwrap().get(f).and_then(|w| w.clone());
                WOKEN[f % 8].fetch_add(1, Ordering::SeqCst);
                match w {
                    Some(w) => w.wake(),
                    None => r = "nowaker".into(),
                }
            }
            (WorkerHandle::Signal(s, _), "stop") => s.stop(),
            (WorkerHandle::Signal(s, _), "wakeup") => s.wakeup(),
            _ => r = "unknown".into(),
        }));
        if let Err(p) = res {
            r = "panic".into();
            ev("panicmsg", json!({"t": tid, "msg": panic_msg(&p)}));
        }
        ev("ret", json!({"t": tid, "op": name, "n": n, "r": r, "m": m}));
    }
    // keep the remaining handles alive until the controller tears the scenario down
    Sched::unenroll();
    let _ = back.send(h);
    sched.finish(tid);
}

struct LoopCtl {
    workers_done: AtomicBool,
}

fn loop_main(sched: Arc<Sched>, scn: Value, tx: mpsc::Sender<Handles>, ctl: Arc<LoopCtl>) {
    let tid: Tid = 0;
    let kind = scn["kind"].as_str().unwrap_or("ping").to_string();
    let mut el: EventLoop<'static, ()> = EventLoop::try_new().unwrap();
    let handle = el.handle();
    let limit = scn["limit"].as_u64().unwrap_or(1024) as usize;
    calloop::verif::set_batch_limit(limit);
    let mut tok: Option<RegistrationToken> = None;
    let wakers: Arc<Mutex<Vec<Option<Waker>>>> = Arc::new(Mutex::new(Vec::new()));
    let mut sched_handle: Option<Scheduler<i64>> = None;
    let loop_thread = std::thread::current().id();
    match kind.as_str() {
        "ping" => {
            let (p, src) = make_ping().unwrap();
            tok = Some(
                handle
                    .insert_source(src, |(), &mut (), _| {
                        ev("cb", json!({"p": 0}));
                        // a scheduling point inside the user callback: other threads may run while it executes
                        calloop::verif::yield_point("user.cb");
                    })
                    .unwrap(),
            );
            tx.send(Handles::Ping(p)).unwrap();
        }
        "chan" => {
            let cb = |e: ChanEvent<i64>, _: &mut (), _: &mut ()| {
                match e {
                    ChanEvent::Msg(m) => ev("cb", json!({"p": m})),
                    ChanEvent::Closed => ev("cb", json!({"p": -1})),
                }
                calloop::verif::yield_point("user.cb");
            };
            match scn.get("cap").and_then(|c| c.as_u64()) {
                None => {
                    let (s, c) = channel::<i64>();
                    tok = Some(handle.insert_source(c, cb).unwrap());
                    tx.send(Handles::Chan(s)).unwrap();
                }
                Some(n) => {
                    let (s, c) = sync_channel::<i64>(n as usize);
                    tok = Some(handle.insert_source(c, cb).unwrap());
                    tx.send(Handles::Sync(s)).unwrap();
                }
            }
        }
        "exec" => {
            let (ex, sc) = executor::<i64>().unwrap();
            tok = Some(
                handle
                    .insert_source(ex, |v, &mut (), _| {
                        ev("cb", json!({"p": v}));
                        calloop::verif::yield_point("user.cb");
                    })
                    .unwrap(),
            );
            sched_handle = Some(sc);
            tx.send(Handles::Exec(wakers.clone())).unwrap();
        }
        _ => {
            // "signal" / "blockon": LoopSignal for the workers
            tx.send(Handles::Signal(el.get_signal(), wakers.clone())).unwrap();
        }
    }
    // an armed timer far in the future: the wait of run()/block_on() is then bounded by its deadline instead of
    // being infinite (another code path of Poll::poll); it never fires within a scenario
    if let Some(ms) = scn["far_timer_ms"].as_u64() {
        let _ = handle.insert_source(
            calloop::timer::Timer::from_duration(Duration::from_millis(ms)),
            |_, &mut (), _| {
                ev("far_timer", json!({}));
                calloop::timer::TimeoutAction::Drop
            },
        );
    }
    sched.enroll(tid);
    sched.park(tid, "start");
    let script: Vec<Value> = scn["loop"].as_array().cloned().unwrap_or_default();
    let finals = scn["final_dispatches"].as_u64().unwrap_or(3);
    let mut k = 0usize;
    let sched2 = sched.clone();
    let run_op = |el: &mut EventLoop<'static, ()>, op: &Value, k: usize| {
        let name = op.as_str().map(|s| s.to_string()).unwrap_or_else(|| op["op"].as_str().unwrap_or("").to_string());
        ev("lcall", json!({"op": name, "k": k, "f": op.get("f").cloned().unwrap_or(json!(0)),
                           "need": op.get("need").cloned().unwrap_or(json!(0))}));
        let mut r = "ok".to_string();
        let mut extra = json!({});
        let res = catch_unwind(AssertUnwindSafe(|| match name.as_str() {
            "dispatch" => {
                if let Err(e) = el.dispatch(Duration::ZERO, &mut ()) {
                    r = format!("err:{}", e);
                }
            }
            "disable" => {
                if let Some(t) = tok {
                    if handle.disable(&t).is_err() {
                        r = "err".into()
                    }
                }
            }
            "enable" => {
                if let Some(t) = tok {
                    if handle.enable(&t).is_err() {
                        r = "err".into()
                    }
                }
            }
            "remove" => {
                if let Some(t) = tok {
                    handle.remove(t)
                }
            }
            "schedule" => {
                let f = op["f"].as_u64().unwrap_or(0) as usize;
                let need = op["need"].as_u64().unwrap_or(0) as usize;
                let fut = ManualFuture {
                    id: f,
                    need,
                    wakers: wakers.clone(),
                    loop_thread,
                };
                match sched_handle.as_ref().map(|s| s.schedule(fut)) {
                    Some(Ok(())) => {}
                    Some(Err(_)) => r = "destroyed".into(),
                    None => r = "noexec".into(),
                }
            }
            "run" => {
                // EventLoop::run with an infinite timeout; the per-iteration closure logs
                let mut iters = 0;
                let res = el.run(None, &mut (), |_| {
                    iters += 1;
                    ev("iter", json!({"n": iters}));
                });
                if res.is_err() {
                    r = "err".into();
                }
                extra = json!({"iters": iters});
            }
            "block_on" => {
                let need = op["need"].as_u64().unwrap_or(0) as usize;
                let fut = ManualFuture {
                    id: 0,
                    need,
                    wakers: wakers.clone(),
                    loop_thread,
                };
                match el.block_on(fut, &mut (), |_| ev("iter", json!({"n": 0}))) {
                    Ok(Some(v)) => extra = json!({"out": v}),
                    Ok(None) => extra = json!({"out": -1}),
                    Err(_) => r = "err".into(),
                }
            }
            "block_on_timeout" => {
                // block_on(TimeoutFuture): the future is woken by the timer source it inserted into this loop
                let ms = op["need"].as_u64().unwrap_or(10);
                let t0 = Instant::now();
                let fut = calloop::timer::TimeoutFuture::from_duration(&handle, Duration::from_millis(ms));
                match el.block_on(fut, &mut (), |_| ev("iter", json!({"n": 0}))) {
                    Ok(Some(())) => extra = json!({"out": 0, "elapsed_us": t0.elapsed().as_micros() as u64}),
                    Ok(None) => extra = json!({"out": -1, "elapsed_us": t0.elapsed().as_micros() as u64}),
                    Err(_) => r = "err".into(),
                }
            }
            "dispatch_burst" => {
                // dispatch at full speed (outside the step scheduler) for a while: see "send_burst"
                Sched::unenroll();
                let ms = op["need"].as_u64().unwrap_or(20);
                let t0 = Instant::now();
                let mut i = 0;
                while t0.elapsed() < Duration::from_millis(ms) {
                    ev("lcall", json!({"op": "dispatch", "k": 100000 + k * 1000 + i, "f": 0, "need": 0}));
                    let rr = match el.dispatch(Duration::from_micros(200), &mut ()) {
                        Ok(()) => "ok".to_string(),
                        Err(e) => format!("err:{}", e),
                    };
                    ev("lret", json!({"op": "dispatch", "k": 100000 + k * 1000 + i, "r": rr}));
                    i += 1;
                }
                sched2.enroll(0);
            }
            "idle_wait" => {
                // nothing is pending any more: a timed dispatch must block for its whole timeout
                let t0 = Instant::now();
                let to = Duration::from_millis(IDLE_MS.load(Ordering::SeqCst) as u64);
                if el.dispatch(to, &mut ()).is_err() {
                    r = "err".into();
                }
                extra = json!({"elapsed_us": t0.elapsed().as_micros() as u64, "timeout_us": to.as_micros() as u64});
            }
            "snap" => {
                let st = handle.verif_stats();
                extra = json!({"occupied": st.occupied});
            }
            _ => r = "unknown".into(),
        }));
        if let Err(p) = res {
            r = "panic".into();
            ev("panicmsg", json!({"t": 0, "msg": panic_msg(&p)}));
        }
        let mut e = json!({"op": name, "k": k, "r": r});
        if let Value::Object(m) = extra {
            for (kk, v) in m {
                e[kk] = v;
            }
        }
        ev("lret", e);
    };
    for op in script.iter() {
        run_op(&mut el, op, k);
        k += 1;
    }
    // barrier: keep dispatching (one dispatch per grant) until every worker is done
    loop {
        sched.park(tid, "barrier");
        if ctl.workers_done.load(Ordering::SeqCst) {
            break;
        }
        if kind != "signal" && kind != "blockon" {
            run_op(&mut el, &json!("dispatch"), k);
            k += 1;
        }
    }
    Sched::unenroll();
    if kind != "signal" && kind != "blockon" {
        for _ in 0..finals {
            run_op(&mut el, &json!("dispatch"), k);
            k += 1;
        }
        run_op(&mut el, &json!("idle_wait"), k);
        k += 1;
        run_op(&mut el, &json!("snap"), k);
    }
    ev("loop_done", json!({}));
    drop(sched_handle);
    let r = catch_unwind(AssertUnwindSafe(move || drop(el)));
    if r.is_err() {
        ev("teardown_panic", json!({}));
    }
    sched.finish(tid);
}

/// timeout of the final "nothing pending: the loop must block" dispatch
static IDLE_MS: AtomicUsize = AtomicUsize::new(40);

/// wake counters of the manual futures (shared by the loop thread and the waker threads)
static WOKEN: [AtomicUsize; 8] = [
    AtomicUsize::new(0), AtomicUsize::new(0), AtomicUsize::new(0), AtomicUsize::new(0),
    AtomicUsize::new(0), AtomicUsize::new(0), AtomicUsize::new(0), AtomicUsize::new(0),
];

fn run_scenario(scn: &Value) {
    let epoch = trace::new_epoch();
    let detect = Duration::from_millis(scn["block_detect_ms"].as_u64().unwrap_or(25));
    let sched = Sched::new(detect);
    IDLE_MS.store(scn["idle_ms"].as_u64().unwrap_or(40) as usize, Ordering::SeqCst);
    trace::set_base(Instant::now());
    // op names only (uniform types for the TLA+ side)
    let names = |v: &Value| -> Value {
        Value::Array(
            v.as_array()
                .map(|a| {
                    a.iter()
                        .map(|o| json!(o.as_str().map(|s| s.to_string()).unwrap_or_else(|| o["op"].as_str().unwrap_or("").to_string())))
                        .collect()
                })
                .unwrap_or_default(),
        )
    };
    let thr: serde_json::Map<String, Value> = scn["threads"]
        .as_object()
        .map(|m| m.iter().map(|(k, v)| (k.clone(), names(v))).collect())
        .unwrap_or_default();
    ev("reset", json!({"id": scn["id"], "kind": scn["kind"], "cap": scn.get("cap").cloned().unwrap_or(json!(-1)),
                       "limit": scn["limit"].as_u64().unwrap_or(1024), "threads": Value::Object(thr), "loop": names(&scn["loop"])}));
    let (tx, rx) = mpsc::channel();
    let ctl = Arc::new(LoopCtl {
        workers_done: AtomicBool::new(false),
    });
    sched.add(0);
    let lt = {
        let sched = sched.clone();
        let scn = scn.clone();
        let ctl = ctl.clone();
        std::thread::spawn(move || {
            trace::join_epoch(epoch);
            loop_main(sched, scn, tx, ctl)
        })
    };
    let handles = rx.recv().expect("loop thread setup");
    let threads: Vec<(Tid, Vec<Value>)> = scn["threads"]
        .as_object()
        .map(|m| {
            let mut v: Vec<(Tid, Vec<Value>)> = m
                .iter()
                .map(|(k, v)| (k.parse::<Tid>().unwrap(), v.as_array().cloned().unwrap_or_default()))
                .collect();
            v.sort_by_key(|x| x.0);
            v
        })
        .unwrap_or_default();
    let (back_tx, back_rx) = mpsc::channel();
    for w in WOKEN.iter() {
        w.store(0, Ordering::SeqCst);
    }
    let mut joins = Vec::new();
    let n = threads.len();
    let mut first = Some(handles);
    for (i, (tid, script)) in threads.iter().enumerate() {
        // every worker gets one handle: clones for all but the last, which takes the original
        // (so that no handle is dropped - which would ping - outside the scheduled steps)
        let h = if i + 1 == n {
            match first.take().unwrap() {
                Handles::Ping(p) => WorkerHandle::Ping(vec![p]),
                Handles::Chan(s) => WorkerHandle::Chan(vec![s]),
                Handles::Sync(s) => WorkerHandle::Sync(vec![s]),
                Handles::Exec(w) => WorkerHandle::Exec(w),
                Handles::Signal(s, w) => WorkerHandle::Signal(s, w),
            }
        } else {
            match first.as_ref().unwrap() {
                Handles::Ping(p) => WorkerHandle::Ping(vec![p.clone()]),
                Handles::Chan(s) => WorkerHandle::Chan(vec![s.clone()]),
                Handles::Sync(s) => WorkerHandle::Sync(vec![s.clone()]),
                Handles::Exec(w) => WorkerHandle::Exec(w.clone()),
                Handles::Signal(s, w) => WorkerHandle::Signal(s.clone(), w.clone()),
            }
        };
        sched.add(*tid);
        let sched2 = sched.clone();
        let script = script.clone();
        let back = back_tx.clone();
        let tid = *tid;
        joins.push(std::thread::spawn(move || {
            trace::join_epoch(epoch);
            worker_main(tid, sched2, script, h, back)
        }));
    }
    // scenarios without workers: keep the handle alive until teardown
    let keep = first;
    let long = Duration::from_millis(1500);
    sched.wait_settled(0, long);
    for (tid, _) in threads.iter() {
        sched.wait_settled(*tid, long);
    }
    let mut blocked: std::collections::BTreeSet<Tid> = Default::default();
    let patience = std::cell::Cell::new(Duration::from_millis(30));
    let do_step = |tid: Tid, sched: &Arc<Sched>, blocked: &mut std::collections::BTreeSet<Tid>| -> StepResult {
        let res = if blocked.contains(&tid) {
            // the wake-up half of a blocking step: no grant, just wait for the thread to come back
            match sched.wait_settled(tid, patience.get()) {
                Status::Parked(l) => StepResult::Parked(l),
                Status::Finished => StepResult::Finished,
                _ => StepResult::Blocked,
            }
        } else {
            sched.step(tid, patience.get())
        };
        match &res {
            StepResult::Blocked => {
                blocked.insert(tid);
            }
            _ => {
                blocked.remove(&tid);
            }
        }
        let (rs, l) = match &res {
            StepResult::Parked(l) => ("parked", *l),
            StepResult::Blocked => ("blocked", ""),
            StepResult::Finished => ("finished", ""),
        };
        ev("g", json!({"t": tid, "res": rs, "l": l}));
        res
    };
    if let Some(s) = scn["schedule"].as_array() {
        for t in s {
            let tid = t.as_u64().unwrap_or(0) as Tid;
            do_step(tid, &sched, &mut blocked);
        }
    }
    ev("drain", json!({}));
    patience.set(Duration::from_millis(120));
    // drain: run the workers to completion; the loop keeps dispatching (one dispatch per round)
    let worker_ids: Vec<Tid> = threads.iter().map(|t| t.0).collect();
    let mut rounds = 0;
    let mut stuck = false;
    loop {
        let unfinished: Vec<Tid> = worker_ids
            .iter()
            .cloned()
            .filter(|t| sched.status(*t) != Status::Finished)
            .collect();
        if unfinished.is_empty() {
            break;
        }
        rounds += 1;
        if rounds > 400 {
            stuck = true;
            break;
        }
        let mut progressed = false;
        for t in unfinished.iter() {
            for _ in 0..64 {
                match do_step(*t, &sched, &mut blocked) {
                    StepResult::Parked(_) => progressed = true,
                    StepResult::Finished => {
                        progressed = true;
                        break;
                    }
                    StepResult::Blocked => break,
                }
            }
        }
        // let the loop thread make progress (a full dispatch if it is at the barrier)
        let mut loop_steps = 0;
        loop {
            let r = do_step(0, &sched, &mut blocked);
            loop_steps += 1;
            match r {
                StepResult::Parked("barrier") | StepResult::Finished | StepResult::Blocked => break,
                _ => {}
            }
            if loop_steps > 200 {
                break;
            }
        }
        if !progressed && rounds > 12 {
            stuck = true;
            break;
        }
    }
    if stuck {
        let who: Vec<Tid> = worker_ids
            .iter()
            .cloned()
            .filter(|t| sched.status(*t) != Status::Finished)
            .collect();
        ev("stuck", json!({"threads": who}));
    }
    ctl.workers_done.store(true, Ordering::SeqCst);
    // run the loop thread to the end (final dispatches are not scheduled)
    let mut blocked_in_a_row = 0;
    for _ in 0..2000 {
        match do_step(0, &sched, &mut blocked) {
            StepResult::Finished => break,
            StepResult::Blocked => {
                blocked_in_a_row += 1;
                // nobody is left to wake the loop thread: it is stuck in its wait
                if stuck || blocked_in_a_row >= 4 {
                    break;
                }
            }
            _ => blocked_in_a_row = 0,
        }
    }
    let loop_ok = sched.wait_settled(0, Duration::from_millis(if blocked_in_a_row >= 4 { 50 } else { 3000 })) == Status::Finished;
    if !loop_ok {
        ev("loop_stuck", json!({}));
    }
    ev("end", json!({"id": scn["id"], "stuck": stuck as u8, "loop_ok": loop_ok as u8}));
    if stuck || !loop_ok {
        // threads that never come back cannot be joined: leak them (the process exits at the end)
        std::mem::forget(joins);
        std::mem::forget(lt);
    } else {
        for j in joins {
            let _ = j.join();
        }
        let _ = lt.join();
    }
    drop(back_rx);
    drop(keep);
}

fn main() {
    let args: Vec<String> = std::env::args().collect();
    if args.len() < 3 {
        eprintln!("usage: drive_sched <scenarios.ndjson> <trace.ndjson>");
        std::process::exit(2);
    }
    std::panic::set_hook(Box::new(|_| {}));
    let f = std::fs::File::open(&args[1]).expect("scenario file");
    let mut out = std::io::BufWriter::new(std::fs::File::create(&args[2]).expect("trace file"));
    let mut n = 0;
    for line in BufReader::new(f).lines() {
        let line = line.unwrap();
        if line.trim().is_empty() {
            continue;
        }
        let scn: Value = serde_json::from_str(&line).expect("scenario json");
        run_scenario(&scn);
        trace::flush_to(&mut out).unwrap();
        n += 1;
    }
    eprintln!("drive_sched: {} scenarios", n);
}
