//! usage: drive_token <scenarios.ndjson> <trace-out.ndjson>
//!
//! Property C20 (poller keys).  Evaluates the REAL `calloop::verif::{pack, unpack, next_version}` and the real
//! `calloop::TokenFactory` and logs what they returned.  A 64-bit key is logged as four 16-bit limbs
//! `[k>>48, (k>>32)&0xFFFF, (k>>16)&0xFFFF, k&0xFFFF]` and a slot id as two (`ih`, `il`), because TLC integers are
//! 32-bit.  TLC (spec/TokenTrace.tla, limb form of spec/Token.tla) is the oracle for every logged record.
//!
//! Scenario kinds (one JSON object per line, all with "id"):
//!   boundary {idk:[k..], fk:[k..]}            cross product of {0,1,2^k-1,2^k,max-1,max} of the three fields: every record logged
//!   sample   {seed, n, log}                   n seeded triples (+ n/4 raw keys for unpack); <= log records logged in full
//!   sweep    {idv, axis:"v"|"s", fixed:[..], full:0|1, log, seed}   all 2^16 values of one field; full=1: logged in chunks
//!   nextver  {ids:[..]}                       next_version for all 2^16 versions (chunks)
//!   factory  {idv, v, ns:[..], range:[lo,hi], full:[..]}   one fresh TokenFactory per n, asked for n tokens
//!
//! For the bulk that is not logged record by record, a `bulk` record carries the count and the number of mismatches
//! against `spec_pack_limbs` below -- the definition of PackLimbs transcribed from Token.tla.  That is SECONDARY
//! evidence (the driver is then its own oracle); every mismatching evaluation is additionally logged in full
//! (fam "mismatch", at most 200) so that TLC decides on it.
use calloop_verif_harness::trace::{self, Rng};
use serde_json::{json, Value};
use std::io::{BufRead, BufReader};
use std::panic::{catch_unwind, AssertUnwindSafe};

const CHUNK: usize = 256;

/// Limb decomposition of a 64-bit key (most significant first).  This and `id_limbs` are the only trusted
/// computations on the path from the real code to the record.
fn limbs(k: usize) -> [u32; 4] {
    let k = k as u64;
    [
        ((k >> 48) & 0xFFFF) as u32,
        ((k >> 32) & 0xFFFF) as u32,
        ((k >> 16) & 0xFFFF) as u32,
        (k & 0xFFFF) as u32,
    ]
}

fn id_limbs(id: u32) -> (u32, u32) {
    (id >> 16, id & 0xFFFF)
}

fn triple_limbs(t: (u32, u16, u16)) -> [u32; 4] {
    let (h, l) = id_limbs(t.0);
    [h, l, t.1 as u32, t.2 as u32]
}

/// SECONDARY ORACLE -- transcription of `PackLimbs(ih, il, v, s) == <<ih, il, v, s>>` from spec/Token.tla.
fn spec_pack_limbs(id: u32, v: u16, s: u16) -> [u32; 4] {
    let (h, l) = id_limbs(id);
    [h, l, v as u32, s as u32]
}

/// SECONDARY ORACLE -- transcription of `NextVersionLimb(v) == (v + 1) % Base`.
fn spec_next_version(v: u16) -> u32 {
    (v as u32 + 1) % 65536
}

struct Eval {
    k: [u32; 4],
    u: [u32; 4],
}

fn eval(id: u32, v: u16, s: u16) -> Eval {
    let key = calloop::verif::pack(id, v, s);
    let back = calloop::verif::unpack(key);
    Eval {
        k: limbs(key),
        u: triple_limbs(back),
    }
}

fn secondary_ok(id: u32, v: u16, s: u16, e: &Eval) -> bool {
    let want = spec_pack_limbs(id, v, s);
    let is_notify = e.k == [0xFFFF; 4];
    e.k == want && e.u == want && (!is_notify || id == u32::MAX)
}

fn log_pack(fam: &str, id: u32, v: u16, s: u16, e: &Eval) {
    let (ih, il) = id_limbs(id);
    trace::ev(
        "pack",
        json!({"fam": fam, "ih": ih, "il": il, "v": v, "s": s, "k": e.k, "u": e.u}),
    );
}

fn log_unpack(fam: &str, key: usize) -> bool {
    let t = calloop::verif::unpack(key);
    let k2 = calloop::verif::pack(t.0, t.1, t.2);
    let ok = triple_limbs(t) == limbs(key) && k2 == key;
    if fam != "quiet" {
        trace::ev(
            "unpack",
            json!({"fam": fam, "k": limbs(key), "u": triple_limbs(t), "k2": limbs(k2)}),
        );
    }
    ok
}

fn boundary_values(ks: &[u64], bits: u32) -> Vec<u64> {
    let max = (1u64 << bits) - 1;
    let mut out = vec![0, 1, max - 1, max];
    for &k in ks {
        if (k as u32) < bits {
            out.push((1u64 << k) - 1);
            out.push(1u64 << k);
        }
    }
    out.sort();
    out.dedup();
    out
}

fn u64s(v: &Value) -> Vec<u64> {
    v.as_array()
        .map(|a| a.iter().filter_map(|x| x.as_u64()).collect())
        .unwrap_or_default()
}

fn run_boundary(scn: &Value) {
    let ids = boundary_values(&u64s(&scn["idk"]), 32);
    let fs = boundary_values(&u64s(&scn["fk"]), 16);
    for &i in &ids {
        for &v in &fs {
            for &s in &fs {
                let e = eval(i as u32, v as u16, s as u16);
                log_pack("boundary", i as u32, v as u16, s as u16, &e);
            }
        }
    }
    // raw keys: every combination of limb boundary values
    let lv: [u64; 6] = [0, 1, 0x7FFF, 0x8000, 0xFFFE, 0xFFFF];
    for a in lv {
        for b in lv {
            for c in lv {
                for d in lv {
                    log_unpack("boundary", ((a << 48) | (b << 32) | (c << 16) | d) as usize);
                }
            }
        }
    }
    // version successor at the boundary versions, for the boundary ids
    for &i in &[0u32, 1, 0xFFFF, 0x10000, u32::MAX - 1, u32::MAX] {
        let (ih, il) = id_limbs(i);
        for &v in &fs {
            let r = calloop::verif::next_version(i, v as u16);
            trace::ev("nv", json!({"ih": ih, "il": il, "v": v, "r": r}));
        }
    }
}

/// a value with "interesting" bit patterns: uniform, near a power of two, few bits set / cleared
fn bitty(rng: &mut Rng, bits: u32) -> u64 {
    let max = if bits == 64 { u64::MAX } else { (1u64 << bits) - 1 };
    let x = match rng.below(6) {
        0 | 1 => rng.next(),
        2 => {
            let k = rng.below(bits as u64 + 1);
            let p = if k >= 64 { 0 } else { 1u64 << k };
            p.wrapping_add(rng.below(5)).wrapping_sub(2)
        }
        3 => (1u64 << rng.below(bits as u64)) | (1u64 << rng.below(bits as u64)),
        4 => !((1u64 << rng.below(bits as u64)) | (1u64 << rng.below(bits as u64))),
        _ => rng.next() & rng.next(),
    };
    x & max
}

struct Bulk {
    n: u64,
    logged: u64,
    mismatch: u64,
}

fn run_sample(scn: &Value) {
    let seed = scn["seed"].as_u64().unwrap_or(1);
    let n = scn["n"].as_u64().unwrap_or(1000);
    let log = scn["log"].as_u64().unwrap_or(1000);
    let mut rng = Rng::new(seed);
    let mut b = Bulk { n: 0, logged: 0, mismatch: 0 };
    let n_keys = n / 4;
    let total = n + n_keys;
    for j in 0..total {
        // log a seeded subsample of about `log` records, never more
        let want_log = b.logged < log && rng.below(total) < log + log / 8;
        if j < n {
            let (i, v, s) = (bitty(&mut rng, 32) as u32, bitty(&mut rng, 16) as u16, bitty(&mut rng, 16) as u16);
            let e = eval(i, v, s);
            b.n += 1;
            let ok = secondary_ok(i, v, s, &e);
            if !ok {
                b.mismatch += 1;
                if b.mismatch <= 200 {
                    log_pack("mismatch", i, v, s, &e);
                }
            } else if want_log {
                b.logged += 1;
                log_pack("sample", i, v, s, &e);
            }
        } else {
            let key = bitty(&mut rng, 64) as usize;
            b.n += 1;
            let fam = if want_log { "sample" } else { "quiet" };
            let ok = log_unpack(fam, key);
            if want_log {
                b.logged += 1;
            }
            if !ok {
                b.mismatch += 1;
                if b.mismatch <= 200 && !want_log {
                    log_unpack("mismatch", key);
                }
            }
        }
    }
    trace::ev(
        "bulk",
        json!({"fam": "sample", "n": b.n, "logged": b.logged, "mismatch": b.mismatch,
               "note": "secondary: mismatch counted by the driver against its transcription of PackLimbs"}),
    );
}

fn run_sweep(scn: &Value) {
    let id = scn["idv"].as_u64().unwrap_or(0) as u32;
    let axis_v = scn["axis"].as_str().unwrap_or("v") == "v";
    let full = scn["full"].as_u64().unwrap_or(0) == 1;
    let log = scn["log"].as_u64().unwrap_or(0);
    let mut rng = Rng::new(scn["seed"].as_u64().unwrap_or(1));
    let fixed = u64s(&scn["fixed"]);
    let (ih, il) = id_limbs(id);
    let mut b = Bulk { n: 0, logged: 0, mismatch: 0 };
    let total = 65536 * fixed.len() as u64;
    for &f in &fixed {
        let mut ks: Vec<[u32; 4]> = Vec::with_capacity(CHUNK);
        let mut us: Vec<[u32; 4]> = Vec::with_capacity(CHUNK);
        for x in 0..=0xFFFFu32 {
            let (v, s) = if axis_v { (x as u16, f as u16) } else { (f as u16, x as u16) };
            let e = eval(id, v, s);
            b.n += 1;
            let ok = secondary_ok(id, v, s, &e);
            if !ok {
                b.mismatch += 1;
            }
            if full {
                ks.push(e.k);
                us.push(e.u);
                if ks.len() == CHUNK {
                    trace::ev(
                        "chunk",
                        json!({"ih": ih, "il": il, "axis": if axis_v {"v"} else {"s"}, "fix": f,
                               "x0": x as usize + 1 - CHUNK, "ks": ks, "us": us}),
                    );
                    b.logged += CHUNK as u64;
                    ks.clear();
                    us.clear();
                }
            } else if !ok {
                if b.mismatch <= 200 {
                    log_pack("mismatch", id, v, s, &e);
                }
            } else if b.logged < log && rng.below(total) < log + log / 8 {
                b.logged += 1;
                log_pack("sweep", id, v, s, &e);
            }
        }
    }
    trace::ev(
        "bulk",
        json!({"fam": "sweep", "n": b.n, "logged": b.logged, "mismatch": b.mismatch,
               "note": "secondary: mismatch counted by the driver against its transcription of PackLimbs"}),
    );
}

fn run_nextver(scn: &Value) {
    let mut n = 0u64;
    let mut mismatch = 0u64;
    for id in u64s(&scn["ids"]) {
        let id = id as u32;
        let (ih, il) = id_limbs(id);
        let mut rs: Vec<u32> = Vec::with_capacity(CHUNK);
        for v in 0..=0xFFFFu32 {
            let r = calloop::verif::next_version(id, v as u16) as u32;
            n += 1;
            if r != spec_next_version(v as u16) {
                mismatch += 1;
            }
            rs.push(r);
            if rs.len() == CHUNK {
                trace::ev("nvchunk", json!({"ih": ih, "il": il, "v0": v as usize + 1 - CHUNK, "rs": rs}));
                rs.clear();
            }
        }
    }
    trace::ev(
        "bulk",
        json!({"fam": "nextver", "n": n, "logged": n, "mismatch": mismatch,
               "note": "secondary: mismatch counted by the driver against its transcription of NextVersionLimb"}),
    );
}

/// One fresh factory asked for `n` tokens.  Each request is one `catch_unwind`; a panic is data.
fn run_one_factory(id: u32, ver: u16, n: u64, full: bool, seen: &mut Vec<u32>, stamp: u32) {
    let (ih, il) = id_limbs(id);
    let mut f = calloop::TokenFactory::verif_new(id, ver);
    let (mut got, mut panics, mut own, mut step1, mut dup, mut after) = (0u64, 0u64, 0u64, 0u64, 0u64, 0u64);
    let (mut s0, mut sl) = (-1i64, -1i64);
    let mut prev: Option<u32> = None;
    let mut ks: Vec<[u32; 4]> = Vec::new();
    let mut j0 = 0u64;
    if full {
        trace::ev("fopen", json!({"ih": ih, "il": il, "v": ver, "n": n}));
    }
    for _ in 0..n {
        match catch_unwind(AssertUnwindSafe(|| f.token())) {
            Ok(t) => {
                let k = limbs(t.verif_raw());
                if panics > 0 {
                    after += 1; // a token handed out after a request had already failed
                }
                if k[0] == ih && k[1] == il && k[2] == ver as u32 {
                    own += 1;
                }
                let sub = k[3];
                if got == 0 {
                    s0 = sub as i64;
                }
                sl = sub as i64;
                if let Some(p) = prev {
                    if sub == p + 1 {
                        step1 += 1;
                    }
                }
                prev = Some(sub);
                // `seen[sub] == stamp` <=> this factory already handed out a key with this sub limb
                if seen[sub as usize] == stamp {
                    dup += 1;
                }
                seen[sub as usize] = stamp;
                got += 1;
                if full {
                    ks.push(k);
                    if ks.len() == CHUNK {
                        trace::ev("fchunk", json!({"j0": j0, "ks": ks}));
                        j0 += CHUNK as u64;
                        ks.clear();
                    }
                }
            }
            Err(_) => panics += 1,
        }
    }
    if full && !ks.is_empty() {
        trace::ev("fchunk", json!({"j0": j0, "ks": ks}));
    }
    trace::ev(
        "fac",
        json!({"ih": ih, "il": il, "v": ver, "n": n, "got": got, "panics": panics, "own": own, "step1": step1,
               "s0": s0, "sl": sl, "dup": dup, "after": after, "full": if full {1} else {0}}),
    );
}

fn run_factory(scn: &Value) {
    let id = scn["idv"].as_u64().unwrap_or(0) as u32;
    let ver = scn["v"].as_u64().unwrap_or(0) as u16;
    let full = u64s(&scn["full"]);
    let mut ns = u64s(&scn["ns"]);
    let r = u64s(&scn["range"]);
    if r.len() == 2 {
        ns.extend(r[0]..=r[1]);
    }
    let mut seen = vec![0u32; 65536];
    let mut stamp = 0u32;
    for n in ns {
        stamp += 1;
        run_one_factory(id, ver, n, full.contains(&n), &mut seen, stamp);
    }
}

fn main() {
    let args: Vec<String> = std::env::args().collect();
    if args.len() < 3 {
        eprintln!("usage: drive_token <scenarios.ndjson> <trace.ndjson>");
        std::process::exit(2);
    }
    if usize::BITS != 64 {
        eprintln!("drive_token: the limb form is for the 64-bit key layout");
        std::process::exit(2);
    }
    std::panic::set_hook(Box::new(|_| {}));
    let f = std::fs::File::open(&args[1]).expect("scenario file");
    let mut out = std::io::BufWriter::new(std::fs::File::create(&args[2]).expect("trace file"));
    let mut n = 0;
    for line in BufReader::new(f).lines() {
        let line = line.unwrap();
        if line.trim().is_empty() {
            continue;
        }
        let scn: Value = match serde_json::from_str(&line) {
            Ok(v) => v,
            Err(e) => {
                eprintln!("bad scenario line: {}", e);
                std::process::exit(2);
            }
        };
        let kind = scn["kind"].as_str().unwrap_or("").to_string();
        trace::ev(
            "reset",
            json!({"id": scn["id"].as_str().unwrap_or("tk"), "kind": kind,
                   "nk": limbs(calloop::verif::NOTIFY_KEY), "usize_bits": usize::BITS}),
        );
        match kind.as_str() {
            "boundary" => run_boundary(&scn),
            "sample" => run_sample(&scn),
            "sweep" => run_sweep(&scn),
            "nextver" => run_nextver(&scn),
            "factory" => run_factory(&scn),
            other => {
                eprintln!("unknown scenario kind {:?}", other);
                std::process::exit(2);
            }
        }
        trace::flush_to(&mut out).unwrap();
        n += 1;
    }
    eprintln!("drive_token: {} scenarios", n);
}
