//! usage: drive_transient <scenarios.ndjson> <trace-out.ndjson>
//!
//! Executes call sequences on the REAL `calloop::transient::TransientSource` inside a real
//! `EventLoop` (property C18).  One scenario = one JSON line
//!
//!   {"id": "s1", "init": "from" | "default", "kinds": ["fd", "tm", ...], "calls": [..]}
//!
//! `kinds[k-1]` is the kind of child k: "fd" = an instrumented source around a real
//! `Generic<UnixStream>`, "tm" = around a real `Timer`.  Child 1 is the `From<T>` child (when
//! `init` = "from"), the others are handed to `replace()` in order.  Calls:
//!
//!   "register"     first time: LoopHandle::register_dispatcher (insert); later: LoopHandle::enable
//!   "reregister"   LoopHandle::update -- unless the event loop has just done it itself because the
//!                  wrapper returned PostAction::Reregister from the preceding dispatch
//!   "unregister"   LoopHandle::disable
//!   "child:<a>"    the child's process_events returns <a> (continue|reregister|disable|remove):
//!                  the child is made ready (a byte is written to the peer of its fd / the timer is
//!                  due), the loop is dispatched and the user callback returns <a>.  When the child
//!                  cannot be reached through the poller (parent or child not registered; or the
//!                  call is written "child:<a>@direct") the parent's process_events is called
//!                  directly (kick fd of the parent through the loop, or a plain method call) and
//!                  the instrumented child answers <a> without consulting its fd.
//!   "pe"           process_events on the wrapper without a ready child (kick fd / direct call)
//!   "remove" | "replace" | "map"   applied through the kept Dispatcher (`as_source_mut()`)
//!   "remove@cb" | "replace@cb"     directly after a "child:<a>" / "pe" call: the parent makes the change inside
//!                  that same process_events and returns PostAction::Reregister (documented in-callback use)
//!
//! Trace events: reset, step, call, child_reg / child_unreg / child_rereg / child_pe / child_drop,
//! cb, ret (with the kernel's epoll view `ep`), stepret, snap (epoll view + timer wheel length), end.
use calloop::generic::Generic;
use calloop::timer::{TimeoutAction, Timer};
use calloop::transient::TransientSource;
use calloop::{
    Dispatcher, EventLoop, EventSource, Interest, Mode, Poll, PostAction, Readiness,
    RegistrationToken, Token, TokenFactory,
};
use calloop_verif_harness::fdinfo;
use calloop_verif_harness::trace::{ev, flush_to, post_action_str};
use serde_json::{json, Value};
use std::cell::{Cell, RefCell};
use std::collections::BTreeMap;
use std::io::{BufRead, BufReader, Read, Write};
use std::os::unix::io::{AsRawFd, RawFd};
use std::os::unix::net::UnixStream;
use std::panic::{catch_unwind, AssertUnwindSafe};
use std::time::{Duration, Instant};

// ------------------------------------------------------------------------------------ shared state
struct Shared {
    /// what the user callback returns next
    next_action: Cell<Option<PostAction>>,
    /// the instrumented child answers the next process_events without consulting its fd / timer
    force: Cell<bool>,
    in_dispatch: Cell<bool>,
    /// reregister calls the loop made on the parent during the current dispatch
    loop_rereg: Cell<u32>,
    /// teardown: do not log
    muted: Cell<bool>,
    /// remove() / replace() the parent is to make inside its process_events (the documented in-callback
    /// use: "you must return PostAction::Reregister from your own event source's process_events()")
    post: RefCell<Option<Post>>,
    epfd: Cell<RawFd>,
    /// child id -> fd registered with the poller by that child (fd-backed children only)
    fds: RefCell<BTreeMap<i64, RawFd>>,
}

thread_local! {
    static SH: Shared = Shared {
        next_action: Cell::new(None),
        force: Cell::new(false),
        in_dispatch: Cell::new(false),
        loop_rereg: Cell::new(0),
        muted: Cell::new(false),
        post: RefCell::new(None),
        epfd: Cell::new(-1),
        fds: RefCell::new(BTreeMap::new()),
    };
}

fn log(name: &str, v: Value) {
    if !SH.with(|s| s.muted.get()) {
        ev(name, v);
    }
}

/// The kernel's view: ids of the children whose fd is in the loop's epoll set (sorted).
fn ep_children() -> Vec<i64> {
    SH.with(|s| {
        let reg: Vec<i32> = fdinfo::read(s.epfd.get()).iter().map(|e| e.fd).collect();
        let mut v: Vec<i64> = s
            .fds
            .borrow()
            .iter()
            .filter(|(_, fd)| reg.contains(fd))
            .map(|(c, _)| *c)
            .collect();
        v.sort();
        v
    })
}

fn res_fields(r: &calloop::Result<()>) -> (&'static str, i64) {
    match r {
        Ok(()) => ("ok", 0),
        Err(calloop::Error::IoError(e)) => ("err", e.raw_os_error().unwrap_or(-1) as i64),
        Err(_) => ("err", -2),
    }
}

enum Post {
    Remove,
    Replace(Child, i64),
}

// -------------------------------------------------------------------------------------- the child
enum Inner {
    Fd(Generic<UnixStream>),
    Tm(Timer),
}

/// Instrumented child: a real Generic<UnixStream> or a real Timer; logs every call with its result.
struct Child {
    id: i64,
    inner: Inner,
    /// last successful register / unregister (instrumentation only)
    regd: bool,
}

impl Child {
    fn kind(&self) -> &'static str {
        match self.inner {
            Inner::Fd(_) => "fd",
            Inner::Tm(_) => "tm",
        }
    }
}

impl EventSource for Child {
    type Event = i64;
    type Metadata = ();
    type Ret = PostAction;
    type Error = std::io::Error;

    fn process_events<F>(
        &mut self,
        readiness: Readiness,
        token: Token,
        mut callback: F,
    ) -> Result<PostAction, Self::Error>
    where
        F: FnMut(Self::Event, &mut Self::Metadata) -> Self::Ret,
    {
        let id = self.id;
        let mut cb = 0;
        let forced = SH.with(|s| s.force.replace(false));
        let res: Result<PostAction, std::io::Error> = if forced {
            cb = 1;
            Ok(callback(id, &mut ()))
        } else {
            match &mut self.inner {
                Inner::Fd(g) => g.process_events(readiness, token, |_, file| {
                    let mut b = [0u8; 16];
                    let _ = (&**file).read(&mut b);
                    cb = 1;
                    Ok(callback(id, &mut ()))
                }),
                Inner::Tm(t) => {
                    let mut act = None;
                    let r = t.process_events(readiness, token, |_, _| {
                        cb = 1;
                        act = Some(callback(id, &mut ()));
                        // always due again: the next dispatch in which it is registered fires it
                        TimeoutAction::ToInstant(Instant::now())
                    });
                    r.map(|inner| act.unwrap_or(inner))
                }
            }
        };
        let a = match &res {
            Ok(a) => post_action_str(*a),
            Err(_) => "err",
        };
        log("child_pe", json!({"c": id, "a": a, "cb": cb, "forced": forced as u8}));
        res
    }

    fn register(&mut self, poll: &mut Poll, tf: &mut TokenFactory) -> calloop::Result<()> {
        let r = match &mut self.inner {
            Inner::Fd(g) => g.register(poll, tf),
            Inner::Tm(t) => t.register(poll, tf),
        };
        let (s, errno) = res_fields(&r);
        if r.is_ok() {
            self.regd = true;
        }
        log("child_reg", json!({"c": self.id, "r": s, "errno": errno, "k": self.kind()}));
        r
    }

    fn reregister(&mut self, poll: &mut Poll, tf: &mut TokenFactory) -> calloop::Result<()> {
        let r = match &mut self.inner {
            Inner::Fd(g) => g.reregister(poll, tf),
            Inner::Tm(t) => t.reregister(poll, tf),
        };
        let (s, errno) = res_fields(&r);
        if r.is_ok() {
            self.regd = true;
        }
        log("child_rereg", json!({"c": self.id, "r": s, "errno": errno, "k": self.kind()}));
        r
    }

    fn unregister(&mut self, poll: &mut Poll) -> calloop::Result<()> {
        let r = match &mut self.inner {
            Inner::Fd(g) => g.unregister(poll),
            Inner::Tm(t) => t.unregister(poll),
        };
        let (s, errno) = res_fields(&r);
        if r.is_ok() {
            self.regd = false;
        }
        log("child_unreg", json!({"c": self.id, "r": s, "errno": errno, "k": self.kind()}));
        r
    }
}

/// `#[derive(Default)]` on `TransientSource<T>` demands `T: Default` although the empty wrapper holds no
/// child; this impl only satisfies the bound and is never called (it would show in the trace).
impl Default for Child {
    fn default() -> Self {
        log("child_default_constructed", json!({}));
        Child { id: 0, inner: Inner::Tm(Timer::immediate()), regd: false }
    }
}

impl Drop for Child {
    fn drop(&mut self) {
        // the kernel's view *before* the inner source is dropped (Generic::drop deletes its fd)
        let inep = ep_children().contains(&self.id);
        log(
            "child_drop",
            json!({"c": self.id, "inep": inep as u8, "regd": self.regd as u8, "k": self.kind()}),
        );
        SH.with(|s| {
            s.fds.borrow_mut().remove(&self.id);
        });
    }
}

// ------------------------------------------------------------------------------------- the parent
/// A composite parent in the documented style: owns a TransientSource and passes every call through.
/// It also owns a source of its own (`kick`), so that its process_events can be reached through the
/// loop when the transient child is not registered.
struct Parent {
    t: TransientSource<Child>,
    kick: Generic<UnixStream>,
    kick_reg: bool,
}

fn bracket_ret(op: &str, r: &calloop::Result<()>) {
    let (s, errno) = res_fields(r);
    log("ret", json!({"op": op, "r": s, "errno": errno, "ep": ep_children()}));
}

impl EventSource for Parent {
    type Event = i64;
    type Metadata = ();
    type Ret = PostAction;
    type Error = std::io::Error;

    fn process_events<F>(
        &mut self,
        readiness: Readiness,
        token: Token,
        callback: F,
    ) -> Result<PostAction, Self::Error>
    where
        F: FnMut(Self::Event, &mut Self::Metadata) -> Self::Ret,
    {
        // the parent's own source
        let _ = self.kick.process_events(readiness, token, |_, file| {
            let mut b = [0u8; 16];
            let _ = (&**file).read(&mut b);
            Ok(PostAction::Continue)
        });
        let by = if SH.with(|s| s.in_dispatch.get()) { "loop" } else { "user" };
        log("call", json!({"op": "pe", "by": by}));
        let t = &mut self.t;
        let r = catch_unwind(AssertUnwindSafe(|| t.process_events(readiness, token, callback)));
        match r {
            Ok(r) => {
                let s = match &r {
                    Ok(a) => post_action_str(*a),
                    Err(_) => "err",
                };
                log("ret", json!({"op": "pe", "r": s, "errno": 0, "ep": ep_children()}));
                // a change made by the parent during its own process_events
                match SH.with(|s| s.post.borrow_mut().take()) {
                    None => r,
                    Some(Post::Remove) => {
                        log("call", json!({"op": "remove", "by": "callback"}));
                        self.t.remove();
                        log("ret", json!({"op": "remove", "r": "ok", "errno": 0, "ep": ep_children()}));
                        r.map(|a| a | PostAction::Reregister)
                    }
                    Some(Post::Replace(child, c)) => {
                        log("call", json!({"op": "replace", "by": "callback", "c": c}));
                        self.t.replace(child);
                        log("ret", json!({"op": "replace", "r": "ok", "errno": 0, "ep": ep_children()}));
                        r.map(|a| a | PostAction::Reregister)
                    }
                }
            }
            Err(_) => {
                log("ret", json!({"op": "pe", "r": "panic", "errno": 0, "ep": ep_children()}));
                Ok(PostAction::Continue)
            }
        }
    }

    fn register(&mut self, poll: &mut Poll, tf: &mut TokenFactory) -> calloop::Result<()> {
        let by = if SH.with(|s| s.in_dispatch.get()) { "loop" } else { "user" };
        log("call", json!({"op": "register", "by": by}));
        let r = self.t.register(poll, tf);
        bracket_ret("register", &r);
        if !self.kick_reg {
            self.kick.register(poll, tf)?;
            self.kick_reg = true;
        }
        r
    }

    fn reregister(&mut self, poll: &mut Poll, tf: &mut TokenFactory) -> calloop::Result<()> {
        let in_disp = SH.with(|s| s.in_dispatch.get());
        if in_disp {
            SH.with(|s| s.loop_rereg.set(s.loop_rereg.get() + 1));
        }
        log("call", json!({"op": "reregister", "by": if in_disp { "loop" } else { "user" }}));
        let r = self.t.reregister(poll, tf);
        bracket_ret("reregister", &r);
        if self.kick_reg {
            self.kick.reregister(poll, tf)?;
        }
        r
    }

    fn unregister(&mut self, poll: &mut Poll) -> calloop::Result<()> {
        let by = if SH.with(|s| s.in_dispatch.get()) { "loop" } else { "user" };
        log("call", json!({"op": "unregister", "by": by}));
        let r = self.t.unregister(poll);
        bracket_ret("unregister", &r);
        if self.kick_reg {
            self.kick.unregister(poll)?;
            self.kick_reg = false;
        }
        r
    }
}

// ------------------------------------------------------------------------------------- the driver
fn user_cb(c: i64) -> PostAction {
    let a = SH.with(|s| s.next_action.take());
    let (a, scripted) = match a {
        Some(a) => (a, 1),
        None => (PostAction::Continue, 0),
    };
    log("cb", json!({"c": c, "a": post_action_str(a), "scripted": scripted}));
    a
}

fn parse_action(s: &str) -> Option<PostAction> {
    match s {
        "continue" => Some(PostAction::Continue),
        "reregister" => Some(PostAction::Reregister),
        "disable" => Some(PostAction::Disable),
        "remove" => Some(PostAction::Remove),
        _ => None,
    }
}

struct Driver<'l> {
    lp: EventLoop<'l, ()>,
    disp: Dispatcher<'l, Parent, ()>,
    token: Option<RegistrationToken>,
    enabled: bool,
    kinds: Vec<String>,
    next_child: i64,
    peers: BTreeMap<i64, UnixStream>,
    kick_tx: UnixStream,
}

fn make_child(id: i64, kind: &str, peers: &mut BTreeMap<i64, UnixStream>) -> Child {
    if kind == "tm" {
        Child { id, inner: Inner::Tm(Timer::immediate()), regd: false }
    } else {
        let (tx, rx) = UnixStream::pair().expect("socketpair");
        rx.set_nonblocking(true).unwrap();
        tx.set_nonblocking(true).unwrap();
        SH.with(|s| {
            s.fds.borrow_mut().insert(id, rx.as_raw_fd());
        });
        peers.insert(id, tx);
        Child { id, inner: Inner::Fd(Generic::new(rx, Interest::READ, Mode::Level)), regd: false }
    }
}

fn res_json(r: &calloop::Result<()>) -> Value {
    match r {
        Ok(()) => json!({"r": "ok", "msg": ""}),
        Err(e) => json!({"r": "err", "msg": format!("{}", e)}),
    }
}

impl<'l> Driver<'l> {
    fn snap(&self, i: i64) {
        let wheel = self.lp.handle().verif_stats().timer_heap_len as i64;
        log("snap", json!({"i": i, "ep": ep_children(), "wheel": wheel}));
    }

    fn dispatch(&mut self) -> Value {
        SH.with(|s| {
            s.in_dispatch.set(true);
            s.loop_rereg.set(0);
        });
        let r = self.lp.dispatch(Duration::ZERO, &mut ());
        SH.with(|s| s.in_dispatch.set(false));
        res_json(&r)
    }

    /// one process_events on the wrapper; `act` = what the child is to return when it is asked
    fn pe(&mut self, act: Option<PostAction>, direct: bool) -> Value {
        let handle_enabled = self.token.is_some() && self.enabled;
        // the current child as the public API shows it
        let cur = self.disp.as_source_mut().t.map(|c| (c.id, c.regd, c.kind()));
        SH.with(|s| s.next_action.set(act));
        let out;
        if let (Some(_), false, true, Some((c, true, kind))) = (act, direct, handle_enabled, cur) {
            // through the poller: make the child ready
            if kind == "fd" {
                if let Some(p) = self.peers.get_mut(&c) {
                    let _ = p.write(&[1u8]);
                }
            }
            let r = self.dispatch();
            out = json!({"via": "loop", "res": r});
        } else if handle_enabled && !direct {
            SH.with(|s| s.force.set(act.is_some()));
            let _ = self.kick_tx.write(&[1u8]);
            let r = self.dispatch();
            out = json!({"via": "kick", "res": r});
        } else {
            SH.with(|s| {
                s.force.set(act.is_some());
                s.loop_rereg.set(0);
            });
            let token = TokenFactory::verif_new(0, 0).token();
            let rd = Readiness { readable: true, writable: false, error: false };
            let r = self.disp.as_source_mut().process_events(rd, token, |c, _| user_cb(c));
            let s = match r {
                Ok(a) => post_action_str(a),
                Err(_) => "err",
            };
            out = json!({"via": "direct", "res": {"r": s, "msg": ""}});
        }
        SH.with(|s| {
            s.force.set(false);
            s.next_action.set(None);
        });
        out
    }

    /// returns true when the next call (a "remove@cb" / "replace@cb") was made inside this one
    fn step(&mut self, i: i64, call: &str, next: Option<&str>, loop_did_rereg: &mut bool) -> bool {
        log("step", json!({"i": i, "call": call}));
        let (name, direct) = match call.strip_suffix("@direct") {
            Some(n) => (n, true),
            None => (call, false),
        };
        // "remove@cb" / "replace@cb" not preceded by a process_events step: made from outside the loop
        let name = name.strip_suffix("@cb").unwrap_or(name);
        let mut consumed = false;
        if (name == "pe" || name.starts_with("child:")) && !direct {
            match next {
                Some("remove@cb") => {
                    SH.with(|s| *s.post.borrow_mut() = Some(Post::Remove));
                    consumed = true;
                }
                Some("replace@cb") if (self.next_child as usize) <= self.kinds.len() => {
                    let c = self.next_child;
                    self.next_child += 1;
                    let kind = self.kinds[(c - 1) as usize].clone();
                    let child = make_child(c, &kind, &mut self.peers);
                    SH.with(|s| *s.post.borrow_mut() = Some(Post::Replace(child, c)));
                    consumed = true;
                }
                _ => {}
            }
        }
        let was_loop_rereg = std::mem::replace(loop_did_rereg, false);
        let out: Value = match name {
            "register" => match self.token {
                None => {
                    let r = self.lp.handle().register_dispatcher(self.disp.clone());
                    let v = match &r {
                        Ok(_) => json!({"r": "ok", "msg": ""}),
                        Err(e) => json!({"r": "err", "msg": format!("{}", e)}),
                    };
                    if let Ok(t) = r {
                        self.token = Some(t);
                        self.enabled = true;
                    }
                    json!({"via": "insert", "res": v})
                }
                Some(t) => {
                    let r = self.lp.handle().enable(&t);
                    self.enabled = true;
                    json!({"via": "enable", "res": res_json(&r)})
                }
            },
            "reregister" => {
                if was_loop_rereg {
                    json!({"via": "loop", "res": {"r": "done", "msg": ""}})
                } else {
                    match self.token {
                        Some(t) => {
                            let r = self.lp.handle().update(&t);
                            json!({"via": "update", "res": res_json(&r)})
                        }
                        None => json!({"via": "skipped", "res": {"r": "skipped", "msg": "not inserted"}}),
                    }
                }
            }
            "unregister" => match self.token {
                Some(t) => {
                    let r = self.lp.handle().disable(&t);
                    self.enabled = false;
                    json!({"via": "disable", "res": res_json(&r)})
                }
                None => json!({"via": "skipped", "res": {"r": "skipped", "msg": "not inserted"}}),
            },
            "remove" => {
                log("call", json!({"op": "remove", "by": "user"}));
                self.disp.as_source_mut().t.remove();
                log("ret", json!({"op": "remove", "r": "ok", "errno": 0, "ep": ep_children()}));
                json!({"via": "dispatcher", "res": {"r": "ok", "msg": ""}})
            }
            "replace" => {
                let c = self.next_child;
                if (c as usize) > self.kinds.len() {
                    json!({"via": "skipped", "res": {"r": "skipped", "msg": "no child left"}})
                } else {
                    self.next_child += 1;
                    let kind = self.kinds[(c - 1) as usize].clone();
                    let child = make_child(c, &kind, &mut self.peers);
                    log("call", json!({"op": "replace", "by": "user", "c": c}));
                    self.disp.as_source_mut().t.replace(child);
                    log("ret", json!({"op": "replace", "r": "ok", "errno": 0, "ep": ep_children()}));
                    json!({"via": "dispatcher", "res": {"r": "ok", "msg": ""}})
                }
            }
            "map" => {
                log("call", json!({"op": "map", "by": "user"}));
                let r = self.disp.as_source_mut().t.map(|c| c.id).unwrap_or(0);
                log("ret", json!({"op": "map", "r": "ok", "m": r, "errno": 0, "ep": ep_children()}));
                json!({"via": "dispatcher", "res": {"r": "ok", "msg": ""}})
            }
            "pe" => {
                let v = self.pe(None, direct);
                if v["via"] != "direct" && SH.with(|s| s.loop_rereg.get()) > 0 {
                    *loop_did_rereg = true;
                }
                v
            }
            other => match other.strip_prefix("child:").and_then(parse_action) {
                Some(a) => {
                    let v = self.pe(Some(a), direct);
                    if v["via"] != "direct" && SH.with(|s| s.loop_rereg.get()) > 0 {
                        *loop_did_rereg = true;
                    }
                    v
                }
                None => json!({"via": "skipped", "res": {"r": "skipped", "msg": "unknown call"}}),
            },
        };
        log("stepret", json!({"i": i, "via": out["via"], "r": out["res"]["r"], "msg": out["res"]["msg"]}));
        if consumed {
            // never left behind: if process_events was not reached the change did not happen
            let left = SH.with(|s| s.post.borrow_mut().take());
            let r = if left.is_some() { "not_made" } else { "ok" };
            drop(left);
            log("step", json!({"i": i + 1, "call": next.unwrap_or("")}));
            log("stepret", json!({"i": i + 1, "via": "callback", "r": r, "msg": ""}));
        }
        self.snap(i);
        consumed
    }
}

fn run_scenario(scn: &Value) {
    SH.with(|s| {
        s.next_action.set(None);
        s.force.set(false);
        s.in_dispatch.set(false);
        s.loop_rereg.set(0);
        s.muted.set(false);
        s.fds.borrow_mut().clear();
    });
    let kinds: Vec<String> = scn["kinds"]
        .as_array()
        .map(|a| a.iter().map(|k| k.as_str().unwrap_or("fd").to_string()).collect())
        .unwrap_or_default();
    let init = scn["init"].as_str().unwrap_or("from").to_string();
    let calls: Vec<String> = scn["calls"]
        .as_array()
        .map(|a| a.iter().map(|k| k.as_str().unwrap_or("").to_string()).collect())
        .unwrap_or_default();

    let lp: EventLoop<()> = EventLoop::try_new().expect("event loop");
    SH.with(|s| s.epfd.set(lp.as_raw_fd()));
    log("reset", json!({"id": scn["id"], "init": init, "kinds": kinds, "ncalls": calls.len()}));

    let mut peers = BTreeMap::new();
    let (t, next_child): (TransientSource<Child>, i64) = if init == "from" && !kinds.is_empty() {
        (make_child(1, &kinds[0], &mut peers).into(), 2)
    } else {
        (Default::default(), 1)
    };
    let (kick_tx, kick_rx) = UnixStream::pair().expect("socketpair");
    kick_rx.set_nonblocking(true).unwrap();
    kick_tx.set_nonblocking(true).unwrap();
    let parent = Parent { t, kick: Generic::new(kick_rx, Interest::READ, Mode::Level), kick_reg: false };
    let disp = Dispatcher::new(parent, |c: i64, _: &mut (), _: &mut ()| user_cb(c));
    let mut d = Driver { lp, disp, token: None, enabled: false, kinds, next_child, peers, kick_tx };

    let mut loop_did_rereg = false;
    let mut i = 0;
    while i < calls.len() {
        let next = calls.get(i + 1).map(|s| s.as_str());
        let r = catch_unwind(AssertUnwindSafe(|| d.step(i as i64, &calls[i], next, &mut loop_did_rereg)));
        match r {
            Ok(consumed) => i += if consumed { 2 } else { 1 },
            Err(_) => {
                log("panic", json!({"i": i as i64}));
                break;
            }
        }
    }
    SH.with(|s| {
        s.muted.set(true);
        s.post.borrow_mut().take();
        s.muted.set(false);
    });
    log("end", json!({"id": scn["id"]}));

    // teardown (not part of the scenario, not logged)
    SH.with(|s| s.muted.set(true));
    let _ = catch_unwind(AssertUnwindSafe(move || {
        if let Some(t) = d.token.take() {
            d.lp.handle().remove(t);
        }
        drop(d);
    }));
    SH.with(|s| s.muted.set(false));
}

fn main() {
    let args: Vec<String> = std::env::args().collect();
    if args.len() < 3 {
        eprintln!("usage: drive_transient <scenarios.ndjson> <trace.ndjson>");
        std::process::exit(2);
    }
    std::panic::set_hook(Box::new(|_| {}));
    let f = std::fs::File::open(&args[1]).expect("scenario file");
    let mut out = std::io::BufWriter::new(std::fs::File::create(&args[2]).expect("trace file"));
    let mut n = 0;
    for line in BufReader::new(f).lines() {
        let line = line.unwrap();
        if line.trim().is_empty() {
            continue;
        }
        let scn: Value = match serde_json::from_str(&line) {
            Ok(v) => v,
            Err(e) => {
                eprintln!("bad scenario line: {}", e);
                std::process::exit(2);
            }
        };
        run_scenario(&scn);
        flush_to(&mut out).unwrap();
        n += 1;
    }
    eprintln!("drive_transient: {} scenarios", n);
}
