//! Global NDJSON trace buffer shared by every driver.
//!
//! Events are appended under one mutex and numbered while it is held, so the order of the
//! file is the order in which the events were logged, across threads.

use serde_json::{json, Map, Value};
use std::io::Write;
use std::sync::Mutex;

static BUF: Mutex<Vec<String>> = Mutex::new(Vec::new());
static BASE: Mutex<Option<std::time::Instant>> = Mutex::new(None);

/// Set the time origin of the current scenario.
pub fn set_base(t: std::time::Instant) {
    *BASE.lock().unwrap_or_else(|e| e.into_inner()) = Some(t);
}

/// Microseconds since the origin of the current scenario.
pub fn us() -> i64 {
    let b = BASE.lock().unwrap_or_else(|e| e.into_inner());
    match *b {
        Some(b) => {
            let n = std::time::Instant::now();
            if n >= b {
                (n - b).as_micros() as i64
            } else {
                -((b - n).as_micros() as i64)
            }
        }
        None => 0,
    }
}

/// Scenario epochs: threads of a scenario that never come back (a sender blocked for ever on a rendezvous channel is
/// leaked, not joined) may wake up while a LATER scenario is being recorded, e.g. when their channel disconnects.
/// What they log then does not belong to that scenario: events of a thread whose epoch is not the current one are dropped.
static EPOCH: std::sync::atomic::AtomicU64 = std::sync::atomic::AtomicU64::new(0);
thread_local! {
    static MY_EPOCH: std::cell::Cell<u64> = const { std::cell::Cell::new(0) };
}

/// Start a new scenario epoch (called by the controller thread); returns it for the threads it spawns.
pub fn new_epoch() -> u64 {
    let e = EPOCH.fetch_add(1, std::sync::atomic::Ordering::SeqCst) + 1;
    MY_EPOCH.with(|m| m.set(e));
    e
}

/// Called first thing by every thread spawned for the scenario of epoch `e`.
pub fn join_epoch(e: u64) {
    MY_EPOCH.with(|m| m.set(e));
}

/// Append one event.  `fields` must be a JSON object; `"e"` is set to `name`.
pub fn ev(name: &str, fields: Value) {
    let mine = MY_EPOCH.with(|m| m.get());
    if mine != 0 && mine != EPOCH.load(std::sync::atomic::Ordering::SeqCst) {
        return;
    }
    let mut m = match fields {
        Value::Object(m) => m,
        Value::Null => Map::new(),
        other => {
            let mut m = Map::new();
            m.insert("v".into(), other);
            m
        }
    };
    m.insert("e".into(), Value::String(name.to_string()));
    let mut v = Value::Object(m);
    denull(&mut v);
    let m = match v {
        Value::Object(m) => m,
        _ => unreachable!(),
    };
    let mut buf = BUF.lock().unwrap_or_else(|e| e.into_inner());
    buf.push(Value::Object(m).to_string());
}

/// TLC's JSON reader has no null: replace it by the string "none".
fn denull(v: &mut Value) {
    match v {
        Value::Null => *v = Value::String("none".into()),
        Value::Array(a) => a.iter_mut().for_each(denull),
        Value::Object(o) => o.values_mut().for_each(denull),
        _ => {}
    }
}

pub fn ev0(name: &str) {
    ev(name, json!({}));
}

/// Number of events logged so far.
pub fn len() -> usize {
    BUF.lock().unwrap_or_else(|e| e.into_inner()).len()
}

/// Write out everything logged so far and clear the buffer.
pub fn flush_to(w: &mut dyn Write) -> std::io::Result<usize> {
    let mut buf = BUF.lock().unwrap_or_else(|e| e.into_inner());
    let n = buf.len();
    for l in buf.drain(..) {
        w.write_all(l.as_bytes())?;
        w.write_all(b"\n")?;
    }
    w.flush()?;
    Ok(n)
}

/// Drop everything logged so far (used when a timing-sensitive run is inconclusive).
pub fn truncate(to: usize) {
    let mut buf = BUF.lock().unwrap_or_else(|e| e.into_inner());
    buf.truncate(to);
}

/// Key (slot id, version, sub id) as a JSON triple; slot ids above 2^31 never occur in the drivers.
pub fn key3(raw: usize) -> Value {
    let (id, ver, sub) = calloop::verif::unpack(raw);
    json!([id, ver, sub])
}

pub fn post_action_str(a: calloop::PostAction) -> &'static str {
    match a {
        calloop::PostAction::Continue => "continue",
        calloop::PostAction::Reregister => "reregister",
        calloop::PostAction::Disable => "disable",
        calloop::PostAction::Remove => "remove",
    }
}

/// Small deterministic PRNG (xorshift64*), so that the harness needs no extra crates.
#[derive(Clone, Debug)]
pub struct Rng(pub u64);

impl Rng {
    pub fn new(seed: u64) -> Rng {
        Rng(seed.wrapping_mul(0x9E37_79B9_7F4A_7C15) ^ 0xD1B5_4A32_D192_ED03 | 1)
    }
    pub fn next(&mut self) -> u64 {
        let mut x = self.0;
        x ^= x >> 12;
        x ^= x << 25;
        x ^= x >> 27;
        self.0 = x;
        x.wrapping_mul(0x2545_F491_4F6C_DD1D)
    }
    pub fn below(&mut self, n: u64) -> u64 {
        if n == 0 {
            0
        } else {
            self.next() % n
        }
    }
}
