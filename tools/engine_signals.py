#!/usr/bin/env python3
"""Engine `signals` -- decides property C19 (Signals: signal-mask bookkeeping is exact; each pending signal reported once).

1. TLC checks spec/Signals.tla exhaustively (spec/mc/signals_q.cfg: all sequences of <= 5 operations over
   new/add/remove/set(S), S any subset of {USR1,USR2,WINCH}, raise, dispatch, drop, with raises also arriving between two
   system calls of a call; thorough: signals_t.cfg, <= 7 operations over {USR1,USR2,URG,WINCH} and both kinds of raise).
   The model executes each call as the code's sequence of system calls, one per transition.
2. Behaviours of the model are replayed on the REAL calloop::signals::Signals by harness/src/bin/drive_signals.rs (a
   single-threaded process with counting handlers):
     * ALL behaviours of spec/mc/signals_scn.cfg (every sequence of 4 operations over {USR1,USR2}; thorough:
       signals_scn_t.cfg, every sequence of 5), printed by TLC (PrintScn);
     * a seeded sample of behaviours of the big configuration (tlc -simulate on signals_sim.cfg: 10 operations,
       4 signals, raise() and kill(getpid()));
     * seeded random legal sequences of 6..16 operations with a balanced mix of raises / dispatches / mask changes.
   After every operation the driver logs the kernel's view (blocked set, per-queue pending sets, signalfd mask,
   callback events with si_code/pid/uid, handler counters).
3. TLC validates the recorded traces (spec/SignalsTrace.tla): predicted (Signals.tla's RunOp) against observed, and the
   C19 clauses on the observed values.

SELFTEST: list of (description, callable).  A callable takes an optional scratch directory, returns True when the
corruption / variant was flagged as expected and raises AssertionError otherwise.
"""
import collections
import concurrent.futures
import json
import os
import random
import re
import shutil
import signal as pysignal

import check

PROP = "C19"
UNIVERSE = [10, 12, 23, 28]       # SIGUSR1, SIGUSR2, SIGURG, SIGWINCH (Linux generic ABI)
CFG_OPS = ("new", "add", "remove", "set", "drop")
CLAUSE_INVS = ("Inv_C19_MaskExact", "Inv_C19_Delivery", "Inv_C19_NeverReportedIfNotConfigured", "Inv_C19")
VARIANT_CFGS = {        # cfg -> invariant TLC must report
    "setmask": "Inv_C19_Delivery",
    "addblock": "Inv_C19_MaskExact",
    "drop": "Inv_C19_MaskExact",
    "stalefd": "Inv_C19_MaskExact",
    "reported": "Inv_C19_NeverReportedIfNotConfigured",
}


def _abi_check():
    want = {"SIGUSR1": 10, "SIGUSR2": 12, "SIGURG": 23, "SIGWINCH": 28}
    for n, v in want.items():
        if int(getattr(pysignal, n)) != v:
            raise check.ToolError("signal numbers of this platform differ from the ones in MCSignals.tla (%s = %d)" % (n, int(getattr(pysignal, n))))


# ------------------------------------------------------------------------------------------- scenarios
def parse_scn_lines(out):
    for m in re.finditer(r'<<"SCN", "(.*)">>', out):
        try:
            ops = json.loads(json.loads('"' + m.group(1) + '"'))
        except Exception:
            continue
        yield [{k: v for k, v in op.items() if k != "mid"} for op in ops]


def model_scenarios(cfg, work, tag, res, workers=8, timeout=600):
    """every behaviour of a RecordHist configuration (exhaustive mode prints each complete history once)"""
    r = check.tlc_model("MCSignals", cfg, work, workers=workers, timeout=timeout)
    res.cmds.append("tlc -config %s MCSignals.tla  (PrintScn -> scenarios)" % cfg)
    _judge_model(r, cfg, res)
    scns = [{"id": "%s_%d" % (tag, i), "ops": ops, "from_model": 1} for i, ops in enumerate(parse_scn_lines(r["out"]))]
    if not scns:
        raise check.ToolError("no behaviour printed by TLC for %s:\n%s" % (cfg, r["out"][-2000:]))
    return scns


def sim_scenarios(cfg, n, seed, work, tag, res):
    """seeded sample of behaviours of the big configuration (tlc -simulate)"""
    meta = os.path.join(work, "simmeta_" + tag)
    cmd = ["tlc", "-workers", "4", "-simulate", "num=%d" % max(1, n // 4), "-depth", "80", "-seed", str(seed), "-metadir", meta,
           "-cleanup", "-noGenerateSpecTE", "-config", cfg, "MCSignals.tla"]
    p = check.sh(cmd, cwd=check.SPEC, env=check.tlc_env(), timeout=600, check=False)
    shutil.rmtree(meta, ignore_errors=True)
    out = p.stdout
    bad = re.findall(r"Invariant (\w+) is violated", out)
    if bad:
        _model_violation(bad, cfg, out, res, "sim")
    elif "Error:" in out:
        raise check.ToolError("TLC simulation of %s failed:\n%s" % (cfg, out[-3000:]))
    m = re.search(r"The number of states generated: (\d+)", out)
    if m:
        res.transitions += int(m.group(1))
    seen, scns = set(), []
    for ops in parse_scn_lines(out):
        key = json.dumps(ops, sort_keys=True)
        if key in seen:
            continue
        seen.add(key)
        scns.append({"id": "%s_%d" % (tag, len(scns)), "ops": ops, "from_model": 1})
    if not scns:
        raise check.ToolError("no behaviour extracted from TLC simulation of %s:\n%s" % (cfg, out[-2000:]))
    res.cmds.append("tlc -simulate num=%d -seed %d -config %s MCSignals.tla  (PrintScn -> scenarios)" % (n, seed, cfg))
    return scns


def random_scenarios(seed, n, tag, maxlen=16):
    """seeded legal sequences with a balanced mix (TLC's simulation picks mask changes far more often than raises)"""
    rnd = random.Random(seed * 7919 + 17)
    out = []

    def subset():
        p = rnd.choice((0.25, 0.5, 0.5, 0.75))
        return sorted(s for s in UNIVERSE if rnd.random() < p)

    for i in range(n):
        alive, ops = False, []
        for _ in range(rnd.randint(6, maxlen)):
            x = rnd.random()
            if x < 0.38:
                ops.append({"op": "raise", "sig": rnd.choice(UNIVERSE), "k": rnd.choice("tp")})
            elif x < 0.52:
                ops.append({"op": "dispatch"})
            elif not alive:
                ops.append({"op": "new", "S": subset()})
                alive = True
            elif x < 0.60:
                ops.append({"op": "drop", "S": []})
                alive = False
            else:
                ops.append({"op": rnd.choice(("add", "remove", "set", "set")), "S": subset()})
        out.append({"id": "%s_%d" % (tag, i), "ops": ops})
    return out


CURATED = [
    # O10 (fixed by e7c3b32): a pending signal common to the old and the new set
    {"id": "cur_o10", "ops": [{"op": "new", "S": [10]}, {"op": "raise", "sig": 10, "k": "t"}, {"op": "set", "S": [10, 12]}, {"op": "dispatch"}]},
    {"id": "cur_o10p", "ops": [{"op": "new", "S": [10, 23]}, {"op": "raise", "sig": 10, "k": "p"}, {"op": "raise", "sig": 23, "k": "t"},
                               {"op": "set", "S": [10]}, {"op": "dispatch"}, {"op": "drop", "S": []}]},
    # both queues hold an instance of the same signal; coalescing in each
    {"id": "cur_two_queues", "ops": [{"op": "new", "S": [12]}, {"op": "raise", "sig": 12, "k": "t"}, {"op": "raise", "sig": 12, "k": "p"},
                                     {"op": "raise", "sig": 12, "k": "t"}, {"op": "raise", "sig": 12, "k": "p"}, {"op": "dispatch"}, {"op": "dispatch"}]},
    # pending then removed: normal disposition; raised before being added: handler at raise time
    {"id": "cur_remove_pending", "ops": [{"op": "new", "S": [10, 28]}, {"op": "raise", "sig": 28, "k": "t"}, {"op": "remove", "S": [28]},
                                         {"op": "dispatch"}, {"op": "raise", "sig": 23, "k": "p"}, {"op": "add", "S": [23]}, {"op": "dispatch"}]},
    # drop with pending signals, then a new source
    {"id": "cur_drop_pending", "ops": [{"op": "new", "S": [10, 12]}, {"op": "raise", "sig": 10, "k": "t"}, {"op": "raise", "sig": 12, "k": "p"},
                                       {"op": "drop", "S": []}, {"op": "new", "S": [10]}, {"op": "dispatch"}, {"op": "raise", "sig": 10, "k": "t"}, {"op": "dispatch"}]},
]


# ------------------------------------------------------------------------------------------- model runs
def _model_violation(bad, cfg, out, res, kind="model"):
    os.makedirs(check.ROOT + "/replays", exist_ok=True)
    cex = "%s/replays/%s_%s_%s.txt" % (check.ROOT, PROP, kind, re.sub(r"[^A-Za-z0-9_]", "_", os.path.basename(cfg)))
    open(cex, "w").write(out[-200000:])
    mine = [b for b in bad if b.startswith("Inv_C19") or not b.startswith("Inv_C")]
    if mine:
        res.viol.append({"prop": PROP, "scn": "%s:%s" % (kind, cfg), "clauses": ["model:" + ",".join(sorted(set(mine)))], "replay": cex, "first_line": 0})
    else:
        res.notes.append("model config %s violates %s" % (cfg, bad))


def _judge_model(r, cfg, res):
    res.states += r["distinct"]
    res.transitions += r["generated"]
    if not r["ok"]:
        _model_violation(r["violated"], cfg, r["out"], res)


# ------------------------------------------------------------------------------------- replay + validate
def run_driver(scns, work, tag):
    scn_path = os.path.join(work, tag + "_scn.ndjson")
    tr_path = os.path.join(work, tag + "_trace.ndjson")
    with open(scn_path, "w") as f:
        for s in scns:
            f.write(json.dumps(s) + "\n")
    p = check.sh([check.BIN + "/drive_signals", scn_path, tr_path], timeout=1800, check=False)
    if p.returncode != 0:
        raise check.ToolError("drive_signals failed (%d):\n%s" % (p.returncode, p.stdout[-3000:]))
    return scn_path, tr_path


def digest(tr_path):
    """what the trace file itself says (independent of TLC): scenario spans, non-trivial ids, process hygiene"""
    spans = collections.OrderedDict()
    nontrivial, dirty, threads = set(), [], set()
    counts = collections.Counter()
    cur, prev_pend = None, False
    with open(tr_path) as f:
        for i, line in enumerate(f, 1):
            ev = json.loads(line)
            if ev["e"] == "reset":
                cur = ev["id"]
                spans[cur] = [i, i]
                prev_pend = False
                threads.add(ev["thr"])
                left = ev["left"]
                if left["blk"] or left["pend"] or left["nfd"] or left["hd"] or left["still_blk"] or left["still_pend"]:
                    dirty.append(cur)
                continue
            spans[cur][1] = i
            threads.add(ev["thr"])
            counts[ev["op"]] += 1
            counts["callbacks"] += len(ev["cbs"])
            # non-trivial: a mask change (add/remove/set/drop) executed while a signal was pending
            if ev["op"] in CFG_OPS and prev_pend:
                nontrivial.add(cur)
            prev_pend = bool(ev["pend"])
    return spans, nontrivial, dirty, threads, counts


def write_replay(scn_obj, tr_path, span, viols):
    os.makedirs(check.ROOT + "/replays", exist_ok=True)
    path = "%s/replays/%s_%s.json" % (check.ROOT, PROP, re.sub(r"[^A-Za-z0-9_]", "_", str(scn_obj.get("id", "x"))))
    lines = []
    with open(tr_path) as f:
        for i, line in enumerate(f, 1):
            if span[0] <= i <= span[1]:
                lines.append(line.rstrip("\n"))
            elif i > span[1]:
                break
    json.dump({"property": PROP, "engine": "signals", "scenario": scn_obj, "violations": viols, "trace": lines,
               "trace_first_line": span[0],
               "how": "python3 tools/engine_signals.py --replay <this file>   (drive_signals + SignalsTrace.tla)"}, open(path, "w"), indent=0)
    return path


def validate(scns, work, tag, res, trace_override=None):
    """run the driver (unless a trace is given) and validate with TLC; appends violations to res; returns the verdict"""
    if trace_override:
        tr_path = trace_override
    else:
        _, tr_path = run_driver(scns, work, tag)
    spans, nontrivial, dirty, threads, counts = digest(tr_path)
    if threads - {1}:
        raise check.ToolError("drive_signals was not single-threaded (thread counts seen: %s)" % sorted(threads))
    if len(spans) != len(scns):
        raise check.ToolError("drive_signals logged %d scenarios, %d expected" % (len(spans), len(scns)))
    verdict, g, d = check.tlc_trace("SignalsTrace", tr_path, work, timeout=1500)
    if verdict["n"] != sum(b - a + 1 for a, b in spans.values()):
        raise check.ToolError("SignalsTrace consumed %d of the trace's events" % verdict["n"])
    res.states += d
    res.transitions += g
    res.traces += verdict["scenarios"]
    res.evaluations += len(scns)
    res.misuse += verdict.get("misuse", 0)
    res.nontrivial |= nontrivial
    if dirty:
        res.notes.append("%s: %d scenario(s) did not start from a clean process state (leftovers were drained): %s" % (tag, len(dirty), dirty[:5]))
    byid = {s["id"]: s for s in scns}
    per = collections.OrderedDict()
    for v in sorted(verdict["viol"], key=lambda v: v["l"]):
        per.setdefault(v["scn"], []).append(v)
    for scn, vs in per.items():
        mine = [v for v in vs if v["p"] == PROP]
        if not mine:
            continue
        span = spans.get(scn, [1, 1])
        rp = write_replay(byid.get(scn, {"id": scn}), tr_path, span, vs)
        res.viol.append({"prop": PROP, "scn": scn, "clauses": sorted({v["c"] for v in mine}), "replay": rp,
                         "first_line": mine[0]["l"] - span[0]})
    return verdict, counts


def validate_parallel(scns, work, tag, res, batch=25000, jobs=4):
    """big scenario sets: several driver runs + TLC validations side by side (each batch has its own files)"""
    batches = [scns[i:i + batch] for i in range(0, len(scns), batch)]
    if len(batches) <= 1:
        return validate(scns, work, tag, res)[1]
    total = collections.Counter()
    parts = []
    with concurrent.futures.ThreadPoolExecutor(max_workers=jobs) as ex:
        futs = []
        for k, b in enumerate(batches):
            r = check.Result()
            parts.append(r)
            futs.append(ex.submit(validate, b, work, "%s_%d" % (tag, k), r))
        for f in futs:
            total.update(f.result()[1])
    for r in parts:
        res.merge(r)
    return total


# ----------------------------------------------------------------------------------------------- engine
def engine(prop, tier, seed, work):
    assert prop == PROP
    _abi_check()
    res = check.Result()
    quick = tier == "quick"

    # 1. exhaustive model checking of the bounded configuration
    cfg = "mc/signals_q.cfg" if quick else "mc/signals_t.cfg"
    r = check.tlc_model("MCSignals", cfg, work, workers=8 if quick else 16, timeout=120 if quick else 840)
    res.cmds.append("tlc -config %s MCSignals.tla" % cfg)
    _judge_model(r, cfg, res)
    res.notes.append("TLC %s: %d distinct states, %d generated, %s" % (cfg, r["distinct"], r["generated"],
                                                                        "no invariant violated" if r["ok"] else "VIOLATED " + ",".join(r["violated"])))

    # 2. behaviours of the model, replayed on the real crate
    scn_cfg = "mc/signals_scn.cfg" if quick else "mc/signals_scn_t.cfg"
    allb = model_scenarios(scn_cfg, work, "all", res, workers=8)
    simb = sim_scenarios("mc/signals_sim.cfg", 800 if quick else 8000, seed, work, "sim", res)
    rndb = random_scenarios(seed, 2000 if quick else 12000, "rnd%d" % seed)

    counts = collections.Counter()
    counts.update(validate_parallel(allb, work, "all", res))
    res.cmds.append("drive_signals all_scn.ndjson all_trace.ndjson && TRACE=all_trace.ndjson tlc -config SignalsTrace.cfg SignalsTrace.tla")
    counts.update(validate_parallel(CURATED + simb + rndb, work, "mix", res))
    res.notes.append("replayed on the real crate: ALL %d behaviours of %s, %d simulated behaviours of mc/signals_sim.cfg, %d seeded "
                     "random sequences, %d curated; operations executed: %s" % (
                         len(allb), scn_cfg, len(simb), len(rndb), len(CURATED),
                         ", ".join("%s=%d" % kv for kv in sorted(counts.items()))))
    for s in (CURATED[0], allb[len(allb) // 2], simb[0], rndb[0]):
        res.samples.append({"engine": "signals", "scenario": s})
    return res


def replay(path, work):
    """re-run the scenario of a replay file on the current tree and validate it again"""
    rp = json.load(open(path))
    res = check.Result()
    validate([rp["scenario"]], work, "replay", res)
    return res


# --------------------------------------------------------------------------------------------- selftest
_ST_SCNS = CURATED


def _own(work, name):
    own = work is None
    if own:
        work = "%s/work/selftest_signals_%s_%d" % (check.ROOT, name, os.getpid())
    os.makedirs(work, exist_ok=True)
    return own, work


def _st_trace(name, pick, mutate, want):
    """record a clean trace of the curated scenarios, corrupt one field of the first matching event, expect `want`"""
    def run(work=None):
        own, work = _own(work, name)
        try:
            _, tr = run_driver(_ST_SCNS, work, "st_" + name)
            clean = check.Result()
            validate(_ST_SCNS, work, "st_" + name, clean, trace_override=tr)
            assert not clean.viol, "the uncorrupted trace is already flagged: %s" % clean.viol
            lines = open(tr).read().splitlines()
            done = False
            for i, line in enumerate(lines):
                ev = json.loads(line)
                if not done and ev.get("e") == "op" and pick(ev):
                    mutate(ev)
                    lines[i] = json.dumps(ev, separators=(",", ":"))
                    done = True
            assert done, "no event to corrupt"
            bad = os.path.join(work, "st_%s_bad.ndjson" % name)
            open(bad, "w").write("\n".join(lines) + "\n")
            res = check.Result()
            validate(_ST_SCNS, work, "st_" + name, res, trace_override=bad)
            got = set(c for v in res.viol for c in v["clauses"])
            for v in res.viol:      # selftest replays are not findings
                try:
                    os.remove(v["replay"])
                except OSError:
                    pass
            assert want <= got, "corruption %s: expected clauses %s, got %s" % (name, sorted(want), sorted(got))
            return True
        finally:
            if own:
                shutil.rmtree(work, ignore_errors=True)
    return run


def _st_variant(name):
    def run(work=None):
        own, work = _own(work, "var_" + name)
        try:
            r = check.tlc_model("MCSignals", "mc/signals_var_%s.cfg" % name, work, workers=4, timeout=120)
            want = VARIANT_CFGS[name]
            assert not r["ok"] and want in r["violated"], "variant %s: TLC did not report %s violated (%s)" % (name, want, r["violated"])
            return True
        finally:
            if own:
                shutil.rmtree(work, ignore_errors=True)
    return run


def _set(field, value):
    def f(ev):
        ev[field] = value
    return f


def _bump_handler(ev):
    ev["hd"] = [[s, c + (1 if s == 10 else 0)] for s, c in ev["hd"]]


SELFTEST = [
    ("C19 trace: the blocked set logged after set_signals lacks a configured signal -> MaskExact + Mismatch_blocked",
     _st_trace("blk", lambda e: e["op"] == "set", lambda e: e.update(blk=[12], blkp=[12]), {"MaskExact", "Mismatch_blocked"})),
    ("C19 trace: the signalfd mask logged after add_signals is stale -> MaskExact + Mismatch_sigfd",
     _st_trace("fdm", lambda e: e["op"] == "add", _set("fdm", [10]), {"MaskExact", "Mismatch_sigfd"})),
    ("C19 trace: a signal still blocked after drop -> MaskExact",
     _st_trace("dropblk", lambda e: e["op"] == "drop", lambda e: e.update(blk=[10], blkp=[10]), {"MaskExact"})),
    ("C19 trace: a handler run of a configured pending signal during set_signals (the O10 symptom) -> Delivery_handler_while_configured",
     _st_trace("o10", lambda e: e["op"] == "set", lambda e: (_bump_handler(e), e.update(pend=[], pt=[])),
               {"Delivery_handler_while_configured", "Mismatch_handlers"})),
    ("C19 trace: a callback dropped from a dispatch -> Delivery_exactly_once + Mismatch_callbacks",
     _st_trace("lostcb", lambda e: e["op"] == "dispatch" and e["cbs"], lambda e: e.update(cbs=e["cbs"][1:]),
               {"Delivery_exactly_once", "Mismatch_callbacks"})),
    ("C19 trace: a callback delivered twice -> Delivery_exactly_once",
     _st_trace("dupcb", lambda e: e["op"] == "dispatch" and e["cbs"], lambda e: e.update(cbs=e["cbs"] + e["cbs"][:1]),
               {"Delivery_exactly_once", "Mismatch_callbacks"})),
    ("C19 trace: a callback for a signal that is not configured -> NeverReportedIfNotConfigured",
     _st_trace("alien", lambda e: e["op"] == "dispatch" and e["cbs"], lambda e: e.update(cbs=e["cbs"] + [[28, -6, 1, 1]]),
               {"NeverReportedIfNotConfigured"})),
    ("C19 trace: a callback with a foreign sender pid -> Delivery_sender_info",
     _st_trace("pid", lambda e: e["op"] == "dispatch" and e["cbs"], lambda e: e["cbs"][0].__setitem__(2, 0), {"Delivery_sender_info"})),
    ("C19 trace: a configured signal left pending by a dispatch -> Delivery_pending_not_reported",
     _st_trace("leftpend", lambda e: e["op"] == "dispatch" and e["cbs"],
               lambda e: e.update(pend=[e["cbs"][0][0]], pt=[e["cbs"][0][0]], cbs=e["cbs"][1:]), {"Delivery_pending_not_reported"})),
] + [("C19 model: variant cfg signals_var_%s -> TLC reports %s violated" % (n, w), _st_variant(n)) for n, w in VARIANT_CFGS.items()]


if __name__ == "__main__":
    import sys
    if len(sys.argv) >= 3 and sys.argv[1] == "--replay":
        w = "%s/work/signals_replay_%d" % (check.ROOT, os.getpid())
        os.makedirs(w, exist_ok=True)
        try:
            check.build_harness()
            rr = replay(sys.argv[2], w)
            for v in rr.viol:
                print("VIOLATION property=%s replay=%s  (scenario %s: %s)" % (PROP, v["replay"], v["scn"], ",".join(v["clauses"])))
            sys.exit(1 if rr.viol else 0)
        finally:
            shutil.rmtree(w, ignore_errors=True)
    elif len(sys.argv) >= 2 and sys.argv[1] == "selftest":
        nbad = 0
        for d, fn in SELFTEST:
            try:
                fn()
                print("ok   ", d)
            except AssertionError as e:
                nbad += 1
                print("FAIL ", d, "--", e)
        sys.exit(1 if nbad else 0)
    else:
        print(__doc__)
