#!/usr/bin/env python3
"""Engine `asyncio` -- decides property C17 (Async adapter: byte-exact I/O, tasks always woken, blocking mode restored).

1. TLC checks spec/AsyncIo.tla exhaustively (MCAsyncIo.tla + spec/mc/asyncio_q*.cfg; thorough: asyncio_t*.cfg): a socket
   pair with byte FIFOs of capacity B, the loop's epoll table (one-shot entries), the adapter of io.rs (a waker per
   direction, interest = the awaited directions, last_readiness), tasks whose scripts -- every sequence of
   read(n)/write(n)/readable()/writable() with chunk sizes 1..3 -- are chosen on the fly, the executor, dispatches whose
   batch comes in any order, the peer acting even in the middle of a dispatch, adapt_io / drop / into_inner / second
   adapt_io / adapt_io of a regular file / adapt_io of an fd whose adapter is alive, fds blocking or non-blocking
   beforehand.  Invariants Inv_C17_Exact / NeverStuck / Woken / Blocking / Released.
   Topologies: solo (one task, one adapter, external peer), two (one adapter per socket end, as in the crate's tests),
   split (a reader task and a writer task on ONE adapter: futures' split(), Rc<RefCell>) and join (ONE task polling a
   read and a write on one adapter), handoff (two tasks use one adapter one after the other: a pending operation is
   ABANDONED -- the future is dropped -- and the other task waits for the same direction: the waker is replaced).  Liveness under weak fairness of the loop thread (mc/asyncio_live*.cfg):
   Live_C17_Woken, Live_C17_Settles.  The behaviour before commit 0061559 (one waker slot, one interest) is the variant
   single_waker: TLC reports Inv_C17_NeverStuck (split, join) and Live_C17_Settles (join) violated for it.
2. Behaviours of the model are replayed on the REAL calloop::io::Async by harness/src/bin/drive_asyncio.rs (UnixStream
   pair with minimal SO_SNDBUF, 1 model byte = 1 block of SO_SNDBUF/2-64 bytes so that the real capacity is exactly
   B = 2 blocks, real Executor, real EventLoop, dispatch(ZERO)):
     * ALL guided behaviours of spec/mc/asyncio_scn.cfg (thorough: asyncio_scn_t.cfg and asyncio_scn_two.cfg), printed by TLC;
     * seeded samples of the big configurations (tlc -simulate on asyncio_sim_{solo,two,split,join}.cfg);
     * seeded generated scenarios with longer byte strings (<= 40 blocks), chunk sizes 1..6 and long dispatch/peer schedules;
     * curated scenarios (the crate's own tests, EOF/HUP, lifecycle, adapt_io of an fd that already has a live adapter, the
       shortest scenarios that hung / span before 0061559).
3. TLC validates every recorded trace (spec/AsyncIoTrace.tla): each logged step is the model's operator for that step,
   the predicted epoll entry / O_NONBLOCK / occupied slots / task states / woken wakers are compared with the observed
   ones (Mismatch_*), the kernel model with the observed I/O results (Env_*), and the C17 clauses are evaluated on the
   observed values.

SELFTEST: list of (description, callable).  A callable takes an optional scratch directory, returns True when the
corruption / variant was flagged as expected and raises AssertionError otherwise.
"""
import collections
import concurrent.futures
import json
import os
import random
import re
import shutil

import check

PROP = "C17"
DRV = check.BIN + "/drive_asyncio"
TOPOS = collections.OrderedDict([
    ("solo", {"tasks": {"S": 1}, "join": 0}),
    ("two", {"tasks": {"R": 2, "W": 1}, "join": 0}),
    ("split", {"tasks": {"R": 1, "W": 1}, "join": 0}),
    ("join", {"tasks": {"R": 1, "W": 1}, "join": 1}),
    ("handoff", {"tasks": {"A": 1, "B": 1}, "join": 0}),
])
KINDS = {"S": ("read", "write", "readable", "writable"), "R": ("read", "readable"), "W": ("write", "writable"),
         "A": ("read", "write", "readable", "writable"), "B": ("read", "write", "readable", "writable")}
CLAUSE_INVS = ("Inv_C17_Exact", "Inv_C17_NeverStuck", "Inv_C17_Woken", "Inv_C17_Blocking", "Inv_C17_Released")
VARIANT_CFGS = collections.OrderedDict([   # cfg -> invariant(s) TLC must report (with several workers any of them may come first)
    ("asyncio_var_notreplaced", "Inv_C17_NeverStuck"),       # the stale waker of an abandoned wait is kept
    ("asyncio_var_dropfd", "Inv_C17_Released"),
    ("asyncio_var_adaptleak", ("Inv_C17_Released", "Inv_C17_Blocking")),
    ("asyncio_var_adaptleak_b", "Inv_C17_Blocking"),
    ("asyncio_var_killsother", ("Inv_C17_Released", "Inv_C17_NeverStuck")),
    ("asyncio_var_rearm", "Inv_C17_NeverStuck"),
    ("asyncio_var_interest", "Inv_C17_NeverStuck"),
    ("asyncio_var_flags", "Inv_C17_Blocking"),
    ("asyncio_var_nowake", "Inv_C17_NeverStuck"),
    ("asyncio_var_nowake_w", "Inv_C17_Woken"),
    ("asyncio_var_single_split", "Inv_C17_NeverStuck"),      # the code before 0061559
    ("asyncio_var_single_join", "Inv_C17_NeverStuck"),
    ("asyncio_var_norearm", "Inv_C17_NeverStuck"),
])
LIVE_CFGS = collections.OrderedDict([      # temporal checking (FairSpec): cfg -> property TLC must report violated (None: must hold)
    ("asyncio_live", None), ("asyncio_live_two", None), ("asyncio_live_split", None), ("asyncio_live_join", None),
    ("asyncio_live_handoff", None), ("asyncio_var_single_live", "Live_C17_Settles"), ("asyncio_var_consumed_live", "Live_C17_Settles")])


# ------------------------------------------------------------------------------------------- scenarios
def scn_from_model(b, topo, sid):
    """a behaviour printed by TLC (PrintScn) -> a scenario of drive_asyncio"""
    steps = []
    for s in b["steps"]:
        op = s["op"]
        if op in ("adapt", "adapt2"):
            steps.append({"op": op, "e": s["e"]})
        elif op in ("drop", "into_inner"):
            steps.append({"op": op, "e": s["e"]})
        elif op in ("spawn", "abandon"):
            steps.append({"op": op, "t": s["t"]})
        elif op == "peer":
            steps.append({"op": "peer", "k": s["k"], "n": s["n"]})
        else:
            steps.append({"op": "dispatch"})
    t = TOPOS[topo]
    tasks = {name: {"ad": ad, "ops": [[o["k"], o["n"]] for o in b["scripts"].get(name, [])]} for name, ad in t["tasks"].items()}
    return {"id": sid, "topo": topo, "join": t["join"], "nb0": b["nb0"], "tasks": tasks, "streams": b["sent"], "steps": steps,
            "from_model": 1}


def parse_scn_lines(out):
    for m in re.finditer(r'<<"SCN", "(.*)">>', out):
        try:
            yield json.loads(json.loads('"' + m.group(1) + '"'))
        except Exception:
            continue


def _dedup(behaviours, topo, tag):
    seen, scns = set(), []
    for b in behaviours:
        key = json.dumps(b, sort_keys=True)
        if key in seen:
            continue
        seen.add(key)
        scns.append(scn_from_model(b, topo, "%s_%d" % (tag, len(scns))))
    return scns


def model_scenarios(cfg, topo, work, tag, res, workers=4, timeout=600):
    """every behaviour of a RecordHist configuration (exhaustive mode prints each complete history once)"""
    r = check.tlc_model("MCAsyncIo", "mc/%s.cfg" % cfg, work, workers=workers, timeout=timeout, env={"JAVA_TOOL_OPTIONS": "-Xss512m -Xmx3g"})
    res.cmds.append("tlc -config mc/%s.cfg MCAsyncIo.tla  (PrintScn -> scenarios)" % cfg)
    _judge_model(r, cfg, res)
    scns = _dedup(parse_scn_lines(r["out"]), topo, tag)
    if not scns:
        raise check.ToolError("no behaviour printed by TLC for %s:\n%s" % (cfg, r["out"][-2000:]))
    return scns


def sim_scenarios(topo, n, seed, work, res):
    """seeded sample of behaviours of the big configuration (tlc -simulate)"""
    cfg = "mc/asyncio_sim_%s.cfg" % topo
    meta = os.path.join(work, "simmeta_" + topo)
    cmd = ["tlc", "-workers", "1", "-simulate", "num=%d" % n, "-depth", "400", "-seed", str(seed), "-metadir", meta,
           "-cleanup", "-noGenerateSpecTE", "-config", cfg, "MCAsyncIo.tla"]
    p = check.sh(cmd, cwd=check.SPEC, env=check.tlc_env({"JAVA_TOOL_OPTIONS": "-Xss512m -Xmx2g"}), timeout=600, check=False)
    shutil.rmtree(meta, ignore_errors=True)
    out = p.stdout
    bad = re.findall(r"Invariant (\w+) is violated", out)
    if bad:
        _model_violation(bad, cfg, out, res, "sim")
    elif "Error:" in out and not bad:
        raise check.ToolError("TLC simulation of %s failed:\n%s" % (cfg, out[-3000:]))
    m = re.search(r"The number of states generated: (\d+)", out)
    if m:
        res.transitions += int(m.group(1))
    scns = _dedup(parse_scn_lines(out), topo, "sim_%s" % topo)
    if not scns:
        raise check.ToolError("no behaviour extracted from TLC simulation of %s:\n%s" % (cfg, out[-2000:]))
    res.cmds.append("tlc -simulate num=%d -seed %d -config %s MCAsyncIo.tla  (PrintScn -> scenarios)" % (n, seed, cfg))
    return scns


def random_scenarios(seed, n, topo, tag):
    """seeded scenarios beyond the model's bounds: byte strings of up to 40 blocks, chunk sizes 1..6, long schedules"""
    rnd = random.Random(seed * 104729 + sum(map(ord, topo)))
    t = TOPOS[topo]
    out = []
    for i in range(n):
        total = rnd.choice((3, 5, 8, 12, 20, 40) if topo != "two" else (3, 5, 8, 12, 16, 24))
        maxchunk = rnd.choice((1, 2, 3, 3, 4, 6))
        tasks = {}
        for name, ad in t["tasks"].items():
            ops, moved = [], {"read": 0, "write": 0}
            for _ in range(rnd.randint(2, 4 + total)):
                k = rnd.choice(KINDS[name])
                if k in ("readable", "writable"):
                    if rnd.random() < 0.6:
                        continue
                    ops.append([k, 0])
                else:
                    c = rnd.randint(1, maxchunk)
                    if moved[k] + c > total:
                        continue
                    moved[k] += c
                    ops.append([k, c])
            tasks[name] = {"ad": ad, "ops": ops}
        ends = sorted(set(t["tasks"].values()))
        peer = len(ends) == 1
        steps = []
        if rnd.random() < 0.15:
            steps.append({"op": "adapt", "e": 3})
        for e in ends:
            steps.append({"op": "adapt", "e": e})
        names = ["J"] if t["join"] else sorted(t["tasks"])
        rnd.shuffle(names)
        pending_spawn = list(names)
        body = rnd.randint(8, 14 + 3 * total)
        for _ in range(body):
            x = rnd.random()
            if pending_spawn and x < 0.35:
                steps.append({"op": "spawn", "t": pending_spawn.pop()})
            elif x > 0.97:
                steps.append({"op": "adapt2", "e": rnd.choice(ends), "if_live": 1})
            elif x > 0.93 and not t["join"]:
                steps.append({"op": "abandon", "t": rnd.choice(sorted(t["tasks"])), "if_parked": 1})
            elif x < 0.65 or not peer:
                steps.append({"op": "dispatch"})
            elif x < 0.82:
                steps.append({"op": "peer", "k": "w", "n": rnd.randint(1, maxchunk)})
            else:
                steps.append({"op": "peer", "k": "r", "n": rnd.randint(1, maxchunk)})
        for tname in pending_spawn:
            steps.append({"op": "spawn", "t": tname})
        # let everything drain, then the lifecycle
        for _ in range(rnd.randint(2, 6)):
            if peer:
                steps.append({"op": "peer", "k": "r", "n": 6})
                if rnd.random() < 0.5:
                    steps.append({"op": "peer", "k": "w", "n": rnd.randint(1, maxchunk)})
            steps.append({"op": "dispatch"})
            steps.append({"op": "dispatch"})
        if peer and rnd.random() < 0.4:
            steps.append({"op": "peer", "k": "r", "n": 6})
            steps.append({"op": "peer", "k": "close", "n": 0, "if_drained": 1})
            steps += [{"op": "dispatch"}] * 3
        for e in ends:
            how = rnd.choice(("drop", "into_inner"))
            steps.append({"op": how, "e": e, "if_idle": 1})
            if rnd.random() < 0.4:
                steps.append({"op": "adapt", "e": e})
                steps.append({"op": rnd.choice(("drop", "into_inner")), "e": e, "if_idle": 1})
        out.append({"id": "%s_%d" % (tag, i), "topo": topo, "join": t["join"], "seed": rnd.randint(1, 1 << 30),
                    "nb0": [rnd.randint(0, 1) for _ in range(3)], "tasks": tasks,
                    "streams": [[rnd.randint(0, 1) for _ in range(total + 8)] for _ in range(2)], "steps": steps})
    return out


def handoff_scenarios(seed, n, tag):
    """a wait of task A is abandoned, then task B waits for the SAME direction of the adapter (the waker of the direction is
    replaced), then the fd becomes ready; with noise around it"""
    rnd = random.Random(seed * 7321 + 5)
    out = []
    for i in range(n):
        x = rnd.choice("rw")
        nd = lambda a, b: [{"op": "dispatch"}] * rnd.randint(a, b)
        if x == "r":
            first = rnd.choice((["readable", 0], ["read", rnd.randint(1, 3)]))
            a_ops = [first] + rnd.choice(([], [["writable", 0]], [["write", 1]]))
            b_ops = [rnd.choice((["readable", 0], ["read", rnd.randint(1, 3)]))] + rnd.choice(([], [["read", 1]], [["write", 1]], [["readable", 0]]))
            ready = [{"op": "peer", "k": "w", "n": rnd.randint(1, 2)}]
            pre = []
        else:
            a_ops = [["write", rnd.randint(2, 3)], rnd.choice((["writable", 0], ["write", rnd.randint(1, 2)]))] + rnd.choice(([], [["readable", 0]]))
            b_ops = [rnd.choice((["writable", 0], ["write", 1]))] + rnd.choice(([], [["write", 1]], [["readable", 0]]))
            if b_ops[0][0] == "writable":
                b_ops = [["write", 1]] + b_ops if rnd.random() < 0.3 else b_ops
            ready = [{"op": "peer", "k": "r", "n": 3}]
            pre = []
        steps = [{"op": "adapt", "e": 1}] + pre + [{"op": "spawn", "t": "A"}] + nd(1, 2)
        steps += [{"op": "abandon", "t": "A", "if_parked": 1}] + nd(0, 2) + [{"op": "spawn", "t": "B"}] + nd(1, 2)
        if rnd.random() < 0.25:
            steps += [{"op": "abandon", "t": "B", "if_parked": 1}] + nd(0, 1)
        steps += ready + nd(2, 3) + [{"op": "peer", "k": "r", "n": 3}, {"op": "peer", "k": "w", "n": 1}] + nd(2, 3)
        steps += [{"op": "peer", "k": "r", "n": 3}] + nd(1, 2) + [{"op": rnd.choice(("drop", "into_inner")), "e": 1, "if_idle": 1}]
        out.append({"id": "%s_%d" % (tag, i), "topo": "handoff", "join": 0, "seed": rnd.randint(1, 1 << 30),
                    "nb0": [rnd.randint(0, 1) for _ in range(3)], "tasks": {"A": {"ad": 1, "ops": a_ops}, "B": {"ad": 1, "ops": b_ops}},
                    "streams": [[rnd.randint(0, 1) for _ in range(8)] for _ in range(2)], "steps": steps})
    return out


def _t(topo, ops):
    return {name: {"ad": ad, "ops": ops.get(name, [])} for name, ad in TOPOS[topo]["tasks"].items()}


D = {"op": "dispatch"}
CURATED = [
    # the crate's own tests: read_write (12 bytes through two adapters), readable, writable
    {"id": "cur_read_write", "topo": "two", "join": 0, "nb0": [0, 0, 0],
     "tasks": _t("two", {"R": [["read", 2], ["read", 2], ["read", 2]], "W": [["write", 3], ["write", 3]]}),
     "streams": [[], [1, 0, 0, 1, 1, 0]],
     "steps": [{"op": "adapt", "e": 1}, {"op": "adapt", "e": 2}, {"op": "spawn", "t": "R"}, D, {"op": "spawn", "t": "W"}] + [D] * 12 +
              [{"op": "drop", "e": 1}, {"op": "into_inner", "e": 2}]},
    {"id": "cur_readable", "topo": "solo", "join": 0, "nb0": [0, 0, 0], "tasks": _t("solo", {"S": [["readable", 0]]}),
     "streams": [[1], []],
     "steps": [{"op": "adapt", "e": 1}, {"op": "spawn", "t": "S"}, D, D, {"op": "peer", "k": "w", "n": 1}, D, D, {"op": "drop", "e": 1}]},
    {"id": "cur_writable", "topo": "solo", "join": 0, "nb0": [1, 0, 0], "tasks": _t("solo", {"S": [["write", 3], ["writable", 0], ["write", 1]]}),
     "streams": [[], [0, 1, 1]],
     "steps": [{"op": "adapt", "e": 1}, {"op": "spawn", "t": "S"}, D, D, {"op": "peer", "k": "r", "n": 1}, D, {"op": "peer", "k": "r", "n": 3}, D, D,
               {"op": "peer", "k": "r", "n": 3}, {"op": "into_inner", "e": 1}]},
    # back-pressure in both directions, alternating interest on one adapter, readiness left over from a previous wait
    {"id": "cur_alternate", "topo": "solo", "join": 0, "nb0": [0, 0, 0],
     "tasks": _t("solo", {"S": [["write", 3], ["write", 2], ["read", 1], ["writable", 0], ["readable", 0], ["read", 3], ["write", 1], ["readable", 0]]}),
     "streams": [[1, 1, 0, 1], [0, 1, 1, 0, 0, 1]],
     "steps": [{"op": "adapt", "e": 1}, {"op": "spawn", "t": "S"}, D, {"op": "peer", "k": "r", "n": 2}, D, D, {"op": "peer", "k": "w", "n": 1}, D, D,
               {"op": "peer", "k": "r", "n": 3}, D, D, {"op": "peer", "k": "w", "n": 3}, D, D, {"op": "peer", "k": "r", "n": 3}, D, D,
               {"op": "peer", "k": "w", "n": 1}, D, D, {"op": "drop", "e": 1}]},
    # EOF / HUP: reported whatever the interest, also on the freshly registered (EMPTY interest) adapter
    {"id": "cur_hup_fresh", "topo": "solo", "join": 0, "nb0": [0, 0, 0], "tasks": _t("solo", {"S": [["readable", 0], ["read", 2], ["read", 1], ["write", 1]]}),
     "streams": [[1], []],
     "steps": [{"op": "adapt", "e": 1}, {"op": "peer", "k": "w", "n": 1}, {"op": "peer", "k": "close", "n": 0}, D, {"op": "spawn", "t": "S"}, D, D, D,
               {"op": "drop", "e": 1}]},
    {"id": "cur_hup_parked_writer", "topo": "solo", "join": 0, "nb0": [1, 0, 0], "tasks": _t("solo", {"S": [["write", 2], ["write", 1], ["read", 1]]}),
     "streams": [[], [1, 1, 0]],
     "steps": [{"op": "adapt", "e": 1}, {"op": "spawn", "t": "S"}, D, {"op": "peer", "k": "r", "n": 2}, {"op": "peer", "k": "close", "n": 0}, D, D, D,
               {"op": "into_inner", "e": 1}]},
    # lifecycle: regular file (EPERM), drop / into_inner / second adapt_io, blocking and non-blocking beforehand
    {"id": "cur_life_blocking", "topo": "solo", "join": 0, "nb0": [0, 0, 0], "tasks": _t("solo", {}), "streams": [[], []],
     "steps": [{"op": "adapt", "e": 3}, {"op": "adapt", "e": 1}, {"op": "into_inner", "e": 1}, {"op": "adapt", "e": 1}, {"op": "drop", "e": 1},
               {"op": "adapt", "e": 1}, D, {"op": "drop", "e": 1}, {"op": "adapt", "e": 3}]},
    {"id": "cur_life_nonblocking", "topo": "solo", "join": 0, "nb0": [1, 0, 1], "tasks": _t("solo", {"S": [["read", 1]]}), "streams": [[0], []],
     "steps": [{"op": "adapt", "e": 3}, {"op": "adapt", "e": 1}, {"op": "spawn", "t": "S"}, {"op": "peer", "k": "w", "n": 1}, D, D,
               {"op": "drop", "e": 1}, {"op": "adapt", "e": 1}, {"op": "into_inner", "e": 1}]},
    # adapt_io of an fd that already has a live adapter (EEXIST): the live adapter must not be disturbed (64b68d5)
    {"id": "cur_adapt_twice", "topo": "solo", "join": 0, "nb0": [0, 0, 0], "tasks": _t("solo", {"S": [["read", 1], ["write", 1], ["read", 1]]}),
     "streams": [[1, 0], [0]],
     "steps": [{"op": "adapt", "e": 1}, {"op": "spawn", "t": "S"}, D, {"op": "adapt2", "e": 1}, {"op": "peer", "k": "w", "n": 1}, D, D,
               {"op": "adapt2", "e": 1}, {"op": "peer", "k": "w", "n": 1}, D, D, {"op": "peer", "k": "r", "n": 1}, {"op": "adapt2", "e": 1},
               {"op": "into_inner", "e": 1}, {"op": "adapt", "e": 1}, {"op": "adapt2", "e": 1}, {"op": "drop", "e": 1}]},
    # the waker of a direction is REPLACED: a wait is abandoned (future dropped), another task then waits for the same direction
    {"id": "cur_handoff_read", "topo": "handoff", "join": 0, "nb0": [0, 0, 0],
     "tasks": _t("handoff", {"A": [["readable", 0]], "B": [["readable", 0], ["read", 1]]}), "streams": [[1], []],
     "steps": [{"op": "adapt", "e": 1}, {"op": "spawn", "t": "A"}, D, {"op": "abandon", "t": "A"}, D, {"op": "spawn", "t": "B"}, D,
               {"op": "peer", "k": "w", "n": 1}, D, D, {"op": "drop", "e": 1, "if_idle": 1}]},
    {"id": "cur_handoff_write", "topo": "handoff", "join": 0, "nb0": [1, 0, 0],
     "tasks": _t("handoff", {"A": [["write", 3], ["write", 1]], "B": [["write", 1], ["writable", 0]]}), "streams": [[], [0, 1, 1, 0]],
     "steps": [{"op": "adapt", "e": 1}, {"op": "spawn", "t": "A"}, D, {"op": "abandon", "t": "A"}, {"op": "spawn", "t": "B"}, D,
               {"op": "peer", "k": "r", "n": 3}, D, D, {"op": "peer", "k": "r", "n": 3}, D, D, {"op": "into_inner", "e": 1, "if_idle": 1}]},
    # the same task waits again for the direction it abandoned (same task, a new waker object)
    {"id": "cur_abandon_again", "topo": "solo", "join": 0, "nb0": [0, 0, 0],
     "tasks": _t("solo", {"S": [["read", 2], ["writable", 0], ["readable", 0], ["read", 1]]}), "streams": [[0, 1], []],
     "steps": [{"op": "adapt", "e": 1}, {"op": "spawn", "t": "S"}, D, {"op": "abandon", "t": "S"}, D, D, {"op": "peer", "k": "w", "n": 2}, D, D,
               {"op": "drop", "e": 1, "if_idle": 1}]},
    # two futures pending on ONE adapter: before 0061559 the first two hung and the third span (one waker slot, one interest)
    {"id": "cur_shared_join", "topo": "join", "join": 1, "nb0": [0, 0, 0],
     "tasks": _t("join", {"R": [["read", 1]], "W": [["write", 3], ["write", 1]]}), "streams": [[1], [0, 1, 1]],
     "steps": [{"op": "adapt", "e": 1}, {"op": "spawn", "t": "J"}, D, {"op": "peer", "k": "w", "n": 1}, D, D,
               {"op": "peer", "k": "r", "n": 3}, D, D, {"op": "peer", "k": "r", "n": 3}, {"op": "drop", "e": 1, "if_idle": 1}]},
    {"id": "cur_shared_spin", "topo": "join", "join": 1, "nb0": [0, 0, 0],
     "tasks": _t("join", {"R": [["readable", 0]], "W": [["writable", 0]]}), "streams": [[1], []],
     "steps": [{"op": "adapt", "e": 1}, {"op": "spawn", "t": "J"}, {"op": "peer", "k": "w", "n": 1}, D, D, D, {"op": "into_inner", "e": 1, "if_idle": 1}]},
    {"id": "cur_shared_split", "topo": "split", "join": 0, "nb0": [0, 0, 0],
     "tasks": _t("split", {"R": [["read", 1]], "W": [["write", 3], ["write", 1]]}), "streams": [[1], [0, 1, 1]],
     "steps": [{"op": "adapt", "e": 1}, {"op": "spawn", "t": "R"}, D, {"op": "spawn", "t": "W"}, D, {"op": "peer", "k": "w", "n": 1}, D, D,
               {"op": "peer", "k": "r", "n": 3}, D, D, {"op": "peer", "k": "r", "n": 3}, {"op": "drop", "e": 1, "if_idle": 1}]},
]


# ------------------------------------------------------------------------------------------- model runs
def _model_violation(bad, cfg, out, res, kind="model"):
    os.makedirs(check.ROOT + "/replays", exist_ok=True)
    cex = "%s/replays/%s_%s_%s.txt" % (check.ROOT, PROP, kind, re.sub(r"[^A-Za-z0-9_]", "_", os.path.basename(cfg)))
    open(cex, "w").write(out[-200000:])
    mine = [b for b in bad if b.startswith("Inv_C17") or not b.startswith("Inv_C")]
    if mine:
        res.viol.append({"prop": PROP, "scn": "%s:%s" % (kind, cfg), "clauses": ["model:" + ",".join(sorted(set(mine)))], "replay": cex, "first_line": 0})
    else:
        res.notes.append("model config %s violates %s" % (cfg, bad))


def _tup(x):
    return x if isinstance(x, tuple) else (x,)


def _judge_model(r, cfg, res):
    res.states += r["distinct"]
    res.transitions += r["generated"]
    if not r["ok"]:
        _model_violation(r["violated"], cfg, r["out"], res)


def tlc_live(cfg, work, workers=4, timeout=400):
    """temporal checking; returns (held, names of the violated temporal properties, distinct, generated)"""
    meta = os.path.join(work, "meta_live_" + cfg)
    cmd = ["tlc", "-workers", str(workers), "-metadir", meta, "-cleanup", "-noGenerateSpecTE", "-config", "mc/%s.cfg" % cfg, "MCAsyncIo.tla"]
    p = check.sh(cmd, cwd=check.SPEC, env=check.tlc_env({"JAVA_TOOL_OPTIONS": "-Xss512m -Xmx3g"}), timeout=timeout, check=False)
    shutil.rmtree(meta, ignore_errors=True)
    out = p.stdout
    g, d = check.parse_tlc_counts(out)
    bad = re.findall(r"Error: Temporal property (\w+) was violated", out) + re.findall(r"Error: Invariant (\w+) is violated", out)
    if "Temporal properties were violated" in out:
        bad.append("temporal")
    held = "Model checking completed. No error has been found." in out
    if not held and not bad:
        raise check.ToolError("TLC failed on %s:\n%s" % (cfg, out[-4000:]))
    return held, bad, d, g


def live_runs(work, res):
    for cfg, want in LIVE_CFGS.items():
        held, bad, d, g = tlc_live(cfg, work)
        res.states += d
        res.transitions += g
        res.cmds.append("tlc -config mc/%s.cfg MCAsyncIo.tla  (FairSpec, temporal)" % cfg)
        if want is None and not held:
            cex = "%s/replays/%s_live_%s.txt" % (check.ROOT, PROP, cfg)
            open(cex, "w").write("temporal property violated: %s" % bad)
            res.viol.append({"prop": PROP, "scn": "model:" + cfg, "clauses": ["model:" + ",".join(bad)], "replay": cex, "first_line": 0})
        elif want is not None and want not in bad:
            raise check.ToolError("variant %s is not flagged by TLC (%s expected, %s reported): the property is vacuous for it" % (cfg, want, bad))
        else:
            res.notes.append("TLC %s (weak fairness of the loop thread): %s" % (cfg, "Live_C17_Woken and Live_C17_Settles hold" if want is None else
                                                                              want + " violated as expected (variant: busy loop)"))


def model_runs(tier, work, res):
    """the exhaustive configurations, side by side"""
    quick = tier == "quick"
    jobs = [("asyncio_q_split", 4, 150), ("asyncio_q_join", 4, 150), ("asyncio_q_b3", 4, 150), ("asyncio_q_handoff", 3, 150), ("asyncio_q", 3, 150),
            ("asyncio_q_life", 3, 150), ("asyncio_q_two", 3, 150)]
    if not quick:
        jobs = [("asyncio_t_b3", 6, 700), ("asyncio_t_handoff", 6, 700), ("asyncio_t_life", 6, 700), ("asyncio_t_join", 6, 700), ("asyncio_t_split", 6, 700), ("asyncio_t", 6, 700),
                ("asyncio_t_b3n", 4, 700), ("asyncio_t_two", 4, 700)] + [(c, 2, 300) for c, _, _ in jobs]

    def one(c, w, t):
        # several JVMs side by side: bound the heap of each (the default is a quarter of the machine's memory)
        return check.tlc_model("MCAsyncIo", "mc/%s.cfg" % c, work, workers=w, timeout=t,
                               env={"JAVA_TOOL_OPTIONS": "-Xss512m -Xmx%dg" % (5 if c.startswith("asyncio_t") else 2)})
    with concurrent.futures.ThreadPoolExecutor(max_workers=7 if quick else 4) as ex:
        futs = [(c, ex.submit(one, c, w, t)) for c, w, t in jobs]
        results = [(c, f.result()) for c, f in futs]
    for c, r in results:
        res.cmds.append("tlc -config mc/%s.cfg MCAsyncIo.tla" % c)
        _judge_model(r, c, res)
        res.notes.append("TLC %s: %d distinct states, %d generated, %s" % (c, r["distinct"], r["generated"],
                                                                          "no invariant violated" if r["ok"] else "VIOLATED " + ",".join(r["violated"])))
    if not quick:
        live_runs(work, res)
        for c, want in VARIANT_CFGS.items():
            r = check.tlc_model("MCAsyncIo", "mc/%s.cfg" % c, work, workers=4, timeout=200, env={"JAVA_TOOL_OPTIONS": "-Xss512m -Xmx2g"})
            if r["ok"] or not set(_tup(want)) & set(r["violated"]):
                raise check.ToolError("variant %s is not flagged by TLC (%s expected, %s reported): the invariant is vacuous for it" % (c, want, r["violated"]))
        res.notes.append("non-vacuity: %d variant configurations flagged by TLC (%s)" % (len(VARIANT_CFGS), ", ".join(
            "%s->%s" % (c.replace("asyncio_var_", ""), "|".join(_tup(w)).replace("Inv_C17_", "")) for c, w in VARIANT_CFGS.items())))


# ------------------------------------------------------------------------------------- replay + validate
def run_driver(scns, work, tag):
    scn_path = os.path.join(work, tag + "_scn.ndjson")
    tr_path = os.path.join(work, tag + "_trace.ndjson")
    with open(scn_path, "w") as f:
        for i, s in enumerate(scns):
            # every second scenario goes through poll_read_vectored / poll_write_vectored (one slice): same semantics,
            # other code path of the adapter
            if "vectored" not in s and i % 2 == 1:
                s = dict(s, vectored=1)
            f.write(json.dumps(s) + "\n")
    p = check.sh([DRV, scn_path, tr_path], timeout=1800, check=False)
    if p.returncode != 0:
        last = re.findall(r"drive_asyncio: running (\S+)", p.stdout)
        raise check.ToolError("drive_asyncio failed (%d%s) in scenario %s:\n%s" % (
            p.returncode, ": killed by its watchdog, the loop thread was blocked" if p.returncode == -14 else "",
            last[-1] if last else "?", p.stdout[-1500:]))
    m = re.search(r"capacity (\d+) blocks, POLLOUT low-water (-?\d+)", p.stdout)
    return scn_path, tr_path, (int(m.group(1)), int(m.group(2))) if m else None


def digest(tr_path):
    """what the trace file itself says (independent of TLC): scenario spans, non-trivial ids, counters"""
    spans = collections.OrderedDict()
    nontrivial = set()
    counts = collections.Counter()
    cur, parked = None, False
    with open(tr_path) as f:
        for i, line in enumerate(f, 1):
            ev = json.loads(line)
            e = ev["e"]
            if e == "reset":
                cur = ev["id"]
                spans[cur] = [i, i]
                parked = False
                continue
            spans[cur][1] = i
            if e == "poll":
                counts["poll_" + ev["op"]] += 1
                if ev["r"] == "pending":
                    counts["pending"] += 1
                    parked = True
                elif ev["op"] in ("read", "write") and ev["r"] == "ready":
                    counts["blocks_" + ev["op"]] += ev["k"]
                    if 0 < ev["k"] < ev["n"]:
                        counts["partial_" + ev["op"]] += 1
            elif e == "io":
                counts["io_events"] += 1
                if ev["woke"]:
                    counts["wakes"] += 1
                    if parked:
                        nontrivial.add(cur)     # non-trivial: a poll returned Pending and a later readiness event woke a task
            elif e in ("adapt", "drop", "peer", "spawn"):
                counts[e] += 1
            elif e == "dispd":
                counts["dispatch"] += 1
    return spans, nontrivial, counts


def write_replay(scn_obj, tr_path, span, viols):
    os.makedirs(check.ROOT + "/replays", exist_ok=True)
    path = "%s/replays/%s_%s.json" % (check.ROOT, PROP, re.sub(r"[^A-Za-z0-9_]", "_", str(scn_obj.get("id", "x"))))
    lines = []
    with open(tr_path) as f:
        for i, line in enumerate(f, 1):
            if span[0] <= i <= span[1]:
                lines.append(line.rstrip("\n"))
            elif i > span[1]:
                break
    json.dump({"property": PROP, "engine": "asyncio", "scenario": scn_obj, "violations": viols, "trace": lines,
               "trace_first_line": span[0],
               "how": "./check C17 quick --replay <this file>   (drive_asyncio + AsyncIoTrace.tla)"}, open(path, "w"), indent=0)
    return path


def validate(scns, work, tag, res, trace_override=None, all_viol=False):
    """one topology: run the driver (unless a trace is given), validate with TLC; appends violations to res.
    Violations are reported once per set of clauses (the shortest scenario showing it) unless all_viol."""
    if not scns:
        return None, collections.Counter(), {}
    topos = {s["topo"] for s in scns}
    assert len(topos) == 1, "one topology per trace file"
    if trace_override:
        tr_path = trace_override
    else:
        _, tr_path, scale = run_driver(scns, work, tag)
        if scale and scale != (2, 0):
            res.notes.append("%s: this kernel gives a capacity of %d blocks and a POLLOUT low-water mark of %d (the replayed model "
                             "configurations use B = 2, LowWater = 0): Env_* differences are expected" % (tag, scale[0], scale[1]))
    spans, nontrivial, counts = digest(tr_path)
    if len(spans) != len(scns):
        raise check.ToolError("drive_asyncio logged %d scenarios, %d expected" % (len(spans), len(scns)))
    verdict, g, d = check.tlc_trace("AsyncIoTrace", tr_path, work, timeout=1500)
    if verdict["n"] != sum(b - a + 1 for a, b in spans.values()):
        raise check.ToolError("AsyncIoTrace consumed %d of the trace's events" % verdict["n"])
    res.cmds.append("drive_asyncio %s_scn.ndjson %s_trace.ndjson && TRACE=%s_trace.ndjson tlc -config AsyncIoTrace.cfg AsyncIoTrace.tla" % (tag, tag, tag))
    res.states += d
    res.transitions += g
    res.traces += verdict["scenarios"]
    res.evaluations += len(scns)
    res.misuse += verdict.get("misuse", 0)
    res.nontrivial |= nontrivial
    byid = {s["id"]: s for s in scns}
    per = collections.OrderedDict()
    for v in sorted(verdict["viol"], key=lambda v: v["l"]):
        per.setdefault(v["scn"], []).append(v)
    env, outside, noted = collections.Counter(), set(), collections.Counter()
    groups = collections.OrderedDict()       # frozenset(clauses) -> [(size, scn, vs)]
    status = {}
    for scn, vs in per.items():
        for v in vs:
            if v["p"] == PROP + "_env":
                env[v["c"]] += 1
                status.setdefault(scn, "env")
            elif v["p"] == PROP + "_note":
                noted[v["c"]] += 1
            elif v["p"] == PROP + "_outside":
                outside.add(scn)
                status.setdefault(scn, "outside")
        mine = [v for v in vs if v["p"] == PROP]
        if mine:
            status[scn] = "viol"
            key = frozenset(v["c"] for v in mine)
            groups.setdefault(key, []).append((len(byid.get(scn, {}).get("steps", [])), scn, vs, mine))
    for key, hits in groups.items():
        hits.sort(key=lambda h: (h[0], h[1]))
        for size, scn, vs, mine in (hits if all_viol else hits[:1]):
            span = spans.get(scn, [1, 1])
            rp = write_replay(byid.get(scn, {"id": scn}), tr_path, span, vs)
            res.viol.append({"prop": PROP, "scn": scn, "clauses": sorted(key), "replay": rp, "first_line": mine[0]["l"] - span[0]})
        if len(hits) > 1 and not all_viol:
            res.notes.append("%s: %d scenarios show the clauses {%s}; the shortest one (%s) is reported" % (tag, len(hits), ",".join(sorted(key)), hits[0][1]))
    if noted:
        res.notes.append("%s: observations that are no clause of C17: %s" % (tag, dict(noted)))
    if env:
        res.notes.append("%s: kernel model differs from the observed I/O results in %d events (%s)" % (tag, sum(env.values()), dict(env)))
    # model behaviours: reproduced event for event / batch order differed (a later step fell outside the protocol) / kernel differed
    same = order = div = 0
    for s in scns:
        if s.get("from_model"):
            st = status.get(s["id"])
            if st is None:
                same += 1
            elif st == "outside":
                order += 1
            elif st == "env":
                div += 1
    res.conform = [res.conform[0] + same, res.conform[1] + order, res.conform[2] + div]
    return verdict, counts, status


def validate_all(groups, work, res):
    """groups: list of (tag, scenarios of one topology); driver runs + TLC validations side by side"""
    total = collections.Counter()
    parts = []
    with concurrent.futures.ThreadPoolExecutor(max_workers=6) as ex:
        futs = []
        for tag, scns in groups:
            for k in range(0, len(scns), 2000):
                r = check.Result()
                parts.append(r)
                futs.append(ex.submit(validate, scns[k:k + 2000], work, "%s_%d" % (tag, k // 2000), r))
        for f in futs:
            total.update(f.result()[1])
    for r in parts:
        res.merge(r)
    return total


# ----------------------------------------------------------------------------------------------- engine
def engine(prop, tier, seed, work):
    assert prop == PROP
    res = check.Result()
    quick = tier == "quick"

    with concurrent.futures.ThreadPoolExecutor(max_workers=10) as ex:
        # 1. exhaustive model checking of the bounded configurations (in the background of everything else)
        rm = check.Result()
        fm = ex.submit(model_runs, tier, work, rm)
        # 2. behaviours of the model -> scenarios
        parts = {}
        rs = {}

        def sub(name, fn, *a):
            rs[name] = check.Result()
            parts[name] = ex.submit(fn, *a, rs[name])
        if quick:
            sub("all_solo", model_scenarios, "asyncio_scn", "solo", work, "all_solo")
        else:
            sub("all_solo", model_scenarios, "asyncio_scn_t", "solo", work, "all_solo")
            sub("all_two", model_scenarios, "asyncio_scn_two", "two", work, "all_two")
            sub("all_handoff", model_scenarios, "asyncio_scn_handoff", "handoff", work, "all_handoff")
        nsim = 300 if quick else 2000
        for topo in TOPOS:
            rs["sim_" + topo] = check.Result()
            parts["sim_" + topo] = ex.submit(sim_scenarios, topo, nsim, seed, work, rs["sim_" + topo])
        got = {k: f.result() for k, f in parts.items()}
        for r in rs.values():
            res.merge(r)

        nrnd = 120 if quick else 1000
        by_topo = collections.OrderedDict((t, []) for t in TOPOS)
        for s in CURATED:
            by_topo[s["topo"]].append(s)
        for name, scns in got.items():
            by_topo[scns[0]["topo"]] += scns
        for topo in TOPOS:
            by_topo[topo] += random_scenarios(seed, nrnd, topo, "rnd%d_%s" % (seed, topo))
        by_topo["handoff"] += handoff_scenarios(seed, nrnd, "ho%d" % seed)

        # 3. replay on the real crate, validate the traces
        counts = validate_all([(t, s) for t, s in by_topo.items()], work, res)
        fm.result()
    rm.merge(res)
    res = rm
    res.notes.append("replayed on the real crate: %s; curated %d; operations executed: %s" % (
        "; ".join("%s: %d" % (k, len(v)) for k, v in got.items()), len(CURATED),
        ", ".join("%s=%d" % kv for kv in sorted(counts.items()))))
    res.notes.append("model behaviours replayed: %d reproduced event-for-event (kernel results included), %d in which the real batch order "
                     "made a later scripted step fall outside the protocol (not judged from there on), %d with a different kernel result" % tuple(res.conform))
    for s in (CURATED[3], got["all_solo"][len(got["all_solo"]) // 2], got["sim_two"][0], by_topo["solo"][-1]):
        res.samples.append({"engine": "asyncio", "scenario": s})
    return res


# clauses of the Released group: what the kernel's epoll table / the slot list hold after an adapter is gone.  They are
# C16's subject as well ("released fds are deregistered from the poller"), so C16 runs this engine and keeps only them.
RELEASED_CLAUSES = {"fd_left_in_poller", "foreign_epoll_entry", "slot_leaked", "adapter_not_registered"}


def engine_c16(prop, tier, seed, work):
    res = engine(PROP, tier, seed, work)
    keep = []
    for v in res.viol:
        cl = [c for c in v["clauses"] if c in RELEASED_CLAUSES]
        if cl:
            keep.append(dict(v, prop=prop, clauses=cl))
    res.viol = keep
    res.notes.append("Async adapters (engine asyncio): only the clauses %s count for %s" % (sorted(RELEASED_CLAUSES), prop))
    return res


# C15 (failed registrations leave the loop intact): a failing adapt_io must not disturb anybody else, leak a slot or
# leave the fd non-blocking
FAILED_ADAPT_CLAUSES = {"failed_adapt_disturbed_live_adapter", "slot_leaked", "blocking_mode_not_restored"}


def engine_c15(prop, tier, seed, work):
    res = engine(PROP, tier, seed, work)
    keep = []
    for v in res.viol:
        cl = [c for c in v["clauses"] if c in FAILED_ADAPT_CLAUSES]
        if cl:
            keep.append(dict(v, prop=prop, clauses=cl))
    res.viol = keep
    res.notes.append("Async adapters (engine asyncio): only the clauses %s count for %s" % (sorted(FAILED_ADAPT_CLAUSES), prop))
    return res


def replay(prop, rp, work):
    """re-run the scenario of a replay file written by this engine on the current tree and validate it again"""
    res = check.Result()
    scn = rp["scenario"]
    if "topo" not in scn:
        raise check.ToolError("replay file without a scenario of drive_asyncio")
    validate([scn], work, "replay", res, all_viol=True)
    return res


# --------------------------------------------------------------------------------------------- selftest
_ST_SCNS = [s for s in CURATED if s["topo"] == "solo"]


def _own(work, name):
    own = work is None
    if own:
        work = "%s/work/selftest_asyncio_%s_%d" % (check.ROOT, name, os.getpid())
    os.makedirs(work, exist_ok=True)
    return own, work


def _st_trace(name, pick, mutate, want, truncate=False):
    """record a clean trace of the curated solo scenarios, corrupt one field of the first matching event, expect `want`"""
    def run(work=None):
        own, work = _own(work, name)
        try:
            _, tr, _ = run_driver(_ST_SCNS, work, "st_" + name)
            clean = check.Result()
            validate(_ST_SCNS, work, "st_" + name, clean, trace_override=tr)
            assert not clean.viol, "the uncorrupted trace is already flagged: %s" % clean.viol
            evs = [json.loads(x) for x in open(tr).read().splitlines()]
            out, done, skipping = [], False, False
            for i, ev in enumerate(evs):
                if skipping:
                    if ev["e"] == "reset":
                        skipping = False
                    elif ev["e"] in ("dispd", "end") and truncate(ev):
                        out.append(ev)
                        continue
                    else:
                        continue
                if not done and ev["e"] != "reset" and pick(ev, evs[:i]):
                    mutate(ev)
                    done = True
                    skipping = bool(truncate)
                out.append(ev)
            assert done, "no event to corrupt"
            bad = os.path.join(work, "st_%s_bad.ndjson" % name)
            open(bad, "w").write("\n".join(json.dumps(e, separators=(",", ":")) for e in out) + "\n")
            res = check.Result()
            validate(_ST_SCNS, work, "st_" + name, res, trace_override=bad, all_viol=True)
            got = set(c for v in res.viol for c in v["clauses"])
            for v in res.viol:      # selftest replays are not findings
                try:
                    os.remove(v["replay"])
                except OSError:
                    pass
            assert want <= got, "corruption %s: expected clauses %s, got %s" % (name, sorted(want), sorted(got))
            return True
        finally:
            if own:
                shutil.rmtree(work, ignore_errors=True)
    return run


def _st_cfg(cfg, want):
    def run(work=None):
        own, work = _own(work, cfg)
        try:
            r = check.tlc_model("MCAsyncIo", "mc/%s.cfg" % cfg, work, workers=4, timeout=300)
            if want is None:
                assert r["ok"], "%s: TLC reports %s" % (cfg, r["violated"])
            else:
                assert not r["ok"] and set(_tup(want)) & set(r["violated"]), "%s: TLC did not report %s violated (%s)" % (cfg, want, r["violated"])
            return True
        finally:
            if own:
                shutil.rmtree(work, ignore_errors=True)
    return run


def _st_live(cfg, want):
    def run(work=None):
        own, work = _own(work, cfg)
        try:
            held, bad, _, _ = tlc_live(cfg, work)
            if want is None:
                assert held, "%s: TLC reports %s" % (cfg, bad)
            else:
                assert not held and want in bad, "%s: TLC did not report %s violated (%s)" % (cfg, want, bad)
            return True
        finally:
            if own:
                shutil.rmtree(work, ignore_errors=True)
    return run


def _st_handoff_stale(work=None):
    """corrupt the trace of cur_handoff_read: the readiness event woke the stale waker "A" and the parked task B never ran again"""
    own, work = _own(work, "handoff")
    try:
        scns = [dict(s, id="st_" + s["id"]) for s in CURATED if s["id"] == "cur_handoff_read"]
        _, tr, _ = run_driver(scns, work, "st_handoff")
        clean = check.Result()
        validate(scns, work, "st_handoff", clean, trace_override=tr)
        assert not clean.viol, "the uncorrupted trace is already flagged: %s" % clean.viol
        evs = [json.loads(x) for x in open(tr).read().splitlines()]
        out, cut = [], False
        for ev in evs:
            if cut:
                if ev["e"] in ("dispd", "end"):
                    _set_ts(ev, "pending")
                    ev["ts"] = [[t, "pending" if t == "B" else st] for t, st in ev["ts"]]
                    if ev["e"] == "dispd":
                        ev["auto"] = 1
                    out.append(ev)
                continue
            if ev["e"] == "io" and ev["woke"] == ["B"]:
                ev["woke"] = ["A"]
                cut = True
            out.append(ev)
        assert cut, "no readiness event that wakes B"
        bad = os.path.join(work, "st_handoff_bad.ndjson")
        open(bad, "w").write("\n".join(json.dumps(e, separators=(",", ":")) for e in out) + "\n")
        res = check.Result()
        validate(scns, work, "st_handoff", res, trace_override=bad, all_viol=True)
        got = set(c for v in res.viol for c in v["clauses"])
        for v in res.viol:
            try:
                os.remove(v["replay"])
            except OSError:
                pass
        want = {"Mismatch_wake", "task_not_woken_on_event", "task_stuck", "task_never_woken"}
        assert want <= got, "expected %s, got %s" % (sorted(want), sorted(got))
        return True
    finally:
        if own:
            shutil.rmtree(work, ignore_errors=True)


def _st_shared_pass(work=None):
    """two futures pending on ONE adapter: the curated scenarios that hung / span before 0061559 run clean and every task ends"""
    own, work = _own(work, "shared")
    try:
        for topo in ("split", "join"):
            scns = [dict(s, id="st_" + s["id"]) for s in CURATED if s["topo"] == topo]      # own ids: own replay files
            res = check.Result()
            _, tr, _ = run_driver(scns, work, "st_shared_" + topo)
            validate(scns, work, "st_shared_" + topo, res, trace_override=tr, all_viol=True)
            for v in res.viol:
                try:
                    os.remove(v["replay"])
                except OSError:
                    pass
            assert not res.viol, "topology %s: %s" % (topo, [(v["scn"], v["clauses"]) for v in res.viol])
            for line in open(tr):
                ev = json.loads(line)
                if ev["e"] == "end":
                    assert all(st == "done" for _, st in ev["ts"]), "scenario %s: tasks %s" % (ev["id"], ev["ts"])
        return True
    finally:
        if own:
            shutil.rmtree(work, ignore_errors=True)


def _drop_ev(ev, before):
    return ev["e"] == "drop" and ev["f"] == 1


def _set_ts(ev, state):
    ev["ts"] = [[t, state if s in ("woken", "pending") else s] for t, s in ev["ts"]]


def _lose_wake(ev):
    ev["woke"] = []


def _after_lost_wake(ev):
    _set_ts(ev, "pending")
    if ev["e"] == "dispd":
        ev["auto"] = 1
    return True


SELFTEST = [
    ("C17 trace: a poll_read returns other bytes than the next ones written -> bytes_differ",
     _st_trace("bytes", lambda e, b: e["e"] == "poll" and e["op"] == "read" and e["k"] > 0, lambda e: e.update(syms=[1 - e["syms"][0]] + e["syms"][1:]),
               {"bytes_differ"})),
    ("C17 trace: same number of bytes received, different digest -> digest_differs",
     _st_trace("digest", lambda e, b: e["e"] == "end" and e["bsent"][0] > 0 and e["bsent"][0] == e["brcvd"][0],
               lambda e: e.update(hrcvd=[e["hrcvd"][0] ^ 1, e["hrcvd"][1]]), {"digest_differs"})),
    ("C17 trace: O_NONBLOCK not set while adapted -> nonblock_not_set_while_adapted",
     _st_trace("nb_on", lambda e, b: e["e"] == "adapt" and e["f"] == 1 and e["r"] == "ok" and e["nbb"] == 0, lambda e: e.update(nb=[0, -1, -1]),
               {"nonblock_not_set_while_adapted"})),
    ("C17 trace: blocking mode after drop differs from the mode before adapt_io -> blocking_mode_not_restored",
     _st_trace("nb_off", _drop_ev, lambda e: e.update(nb=[1 - e["nb"][0], e["nb"][1], e["nb"][2]]), {"blocking_mode_not_restored"})),
    ("C17 trace: O_NONBLOCK left on the regular file after the failed adapt_io (the ae70cc3 symptom) -> blocking_mode_not_restored + slot_leaked",
     _st_trace("file", lambda e, b: e["e"] == "adapt" and e["f"] == 3 and e["nb"][2] == 0, lambda e: e.update(nb=[e["nb"][0], e["nb"][1], 1], occ=e["occ"] + 1),
               {"blocking_mode_not_restored", "slot_leaked"})),
    ("C17 trace: the fd is still in the kernel's epoll table after drop (the f0ccfc5 symptom) -> fd_left_in_poller",
     _st_trace("epleft", _drop_ev, lambda e: e.update(ep=[[1, 0, 0, 1, 0], e["ep"][1], e["ep"][2]]), {"fd_left_in_poller"})),
    ("C17 trace: the slot is still occupied after drop -> slot_leaked",
     _st_trace("slot", _drop_ev, lambda e: e.update(occ=e["occ"] + 1), {"slot_leaked"})),
    ("C17 trace: a poll returns Pending and the kernel's entry is not armed for the bit -> parked_not_armed + Mismatch_epoll",
     _st_trace("notarmed", lambda e, b: e["e"] == "poll" and e["r"] == "pending" and e["op"] == "write", lambda e: e.update(ep=[1, 1, 0, 1, 1]),
               {"parked_not_armed", "Mismatch_epoll"})),
    ("C17 trace: readable() returns Ready although no readiness was recorded -> Mismatch_readiness_result",
     _st_trace("readiness", lambda e, b: e["e"] == "poll" and e["op"] == "readable" and e["r"] == "pending", lambda e: e.update(r="ready", k=1, ep=[1, 0, 0, 1, 1]),
               {"Mismatch_readiness_result"})),
    ("C17 trace: process_events ran and the waker of the parked task was not woken; the task stays parked on a ready fd "
     "-> task_not_woken_on_event + task_stuck + task_never_woken",
     _st_trace("lostwake", lambda e, b: e["e"] == "io" and e["woke"], _lose_wake, {"task_not_woken_on_event", "task_stuck", "task_never_woken"},
               truncate=_after_lost_wake)),
    ("C17 trace: after a failed adapt_io of an fd with a live adapter that adapter's epoll entry is gone (the 64b68d5 symptom) "
     "-> failed_adapt_disturbed_live_adapter + adapter_not_registered",
     _st_trace("adapt2", lambda e, b: e["e"] == "adapt2" and e["r"] == "err", lambda e: e.update(ep=[[0, 0, 0, 0, 0], e["ep"][1], e["ep"][2]]),
               {"failed_adapt_disturbed_live_adapter", "adapter_not_registered"})),
    ("C17 trace: after an abandoned wait of task A the event wakes A's stale waker instead of B's (the waker_not_replaced symptom) "
     "-> Mismatch_wake + task_not_woken_on_event + task_stuck + task_never_woken",
     _st_handoff_stale),
    ("C17 real crate: two futures pending on ONE adapter (split / join: the scenarios that hung or span before 0061559) run clean, every task ends",
     _st_shared_pass),
] + [("C17 model: variant cfg %s -> TLC reports %s violated" % (c, " or ".join(_tup(w))), _st_cfg(c, w)) for c, w in VARIANT_CFGS.items()] \
  + [("C17 model (temporal): %s -> %s" % (c, "holds" if w is None else w + " violated (busy loop)"), _st_live(c, w))
     for c, w in LIVE_CFGS.items()] \
  + [("C17 model: %s (code as it is) -> no invariant violated" % c, _st_cfg(c, None)) for c in ("asyncio_q_split", "asyncio_q_join", "asyncio_q_handoff")]


if __name__ == "__main__":
    import sys
    if len(sys.argv) >= 3 and sys.argv[1] == "--replay":
        w = "%s/work/asyncio_replay_%d" % (check.ROOT, os.getpid())
        os.makedirs(w, exist_ok=True)
        try:
            check.build_harness()
            rr = replay(PROP, json.load(open(sys.argv[2])), w)
            for v in rr.viol:
                print("VIOLATION property=%s replay=%s  (scenario %s: %s)" % (PROP, v["replay"], v["scn"], ",".join(v["clauses"])))
            sys.exit(1 if rr.viol else 0)
        finally:
            shutil.rmtree(w, ignore_errors=True)
    elif len(sys.argv) >= 2 and sys.argv[1] == "selftest":
        nbad = 0
        for d, fn in SELFTEST:
            try:
                fn()
                print("ok   ", d)
            except AssertionError as e:
                nbad += 1
                print("FAIL ", d, "--", e)
        sys.exit(1 if nbad else 0)
    elif len(sys.argv) >= 2 and sys.argv[1] in ("quick", "thorough"):
        import time
        w = "%s/work/asyncio_%s_%d" % (check.ROOT, sys.argv[1], os.getpid())
        shutil.rmtree(w, ignore_errors=True)
        os.makedirs(w)
        try:
            check.build_harness()
            t0 = time.time()
            rr = engine(PROP, sys.argv[1], int(os.environ.get("VERIF_SEED", "1")), w)
            print("wall %.1fs  states %d  transitions %d  scenarios %d  traces %d  nontrivial %d  outside %d  conform %s" % (
                time.time() - t0, rr.states, rr.transitions, rr.evaluations, rr.traces, len(rr.nontrivial), rr.misuse, rr.conform))
            for x in rr.notes:
                print("note:", x)
            for v in rr.viol:
                print("VIOLATION property=%s replay=%s  (scenario %s: %s)" % (PROP, v["replay"], v["scn"], ",".join(v["clauses"])))
        finally:
            shutil.rmtree(w, ignore_errors=True)
    else:
        print(__doc__)
