#!/usr/bin/env python3
"""Seeded generator of concurrent scenarios for drive_sched (scripts per thread + a schedule)."""
import json, random, sys


def ping_scn(r, sid):
    nt = r.choice([1, 2, 2, 3])
    threads = {}
    for t in range(1, nt + 1):
        ops = [r.choice(["ping", "ping", "ping", "clone", "drop"]) for _ in range(r.choice([1, 2, 3]))]
        if r.random() < 0.5:
            ops.append("drop")
        threads[str(t)] = ops
    loop = ["dispatch"] * r.choice([1, 2, 3])
    if r.random() < 0.2:
        loop.insert(r.randrange(len(loop) + 1), "disable")
        loop.append("enable")
        loop.append("dispatch")
    sched = [r.choice([0, 0] + list(range(1, nt + 1))) for _ in range(r.choice([10, 20, 30]))]
    return {"id": sid, "kind": "ping", "threads": threads, "loop": loop, "schedule": sched}


def chan_scn(r, sid):
    if r.random() < 0.15:
        # free-running bursts: senders that really block on a full bounded channel race with a loop that dispatches at
        # full speed (both leave the step scheduler for the burst)
        nt = r.choice([1, 1, 2])
        threads = {str(t): [{"op": "send_burst", "n": r.choice([4, 6, 8])}] for t in range(1, nt + 1)}
        return {"id": sid, "kind": "chan", "cap": r.choice([1, 1, 2]), "threads": threads,
                "loop": [{"op": "dispatch_burst", "need": r.choice([15, 30])}],
                "schedule": list(range(1, nt + 1)) + [0] * 6, "limit": 1024}
    nt = r.choice([1, 2, 2, 3])
    cap = r.choice([None, None, 0, 1, 2])
    threads = {}
    for t in range(1, nt + 1):
        ops = [r.choice(["send", "send", "send", "clone", "drop"] + (["try_send"] if cap is not None else []))
               for _ in range(r.choice([1, 2, 3]))]
        if r.random() < 0.6:
            ops.append("drop")
        threads[str(t)] = ops
    loop = ["dispatch"] * r.choice([1, 2, 3])
    sched = [r.choice([0, 0] + list(range(1, nt + 1))) for _ in range(r.choice([10, 25, 40]))]
    s = {"id": sid, "kind": "chan", "threads": threads, "loop": loop, "schedule": sched, "limit": r.choice([1024, 2, 1, 3])}
    if cap is not None:
        s["cap"] = cap
    return s


def exec_scn(r, sid):
    nf = r.choice([1, 2, 2])
    nt = r.choice([1, 2])
    needs = [r.choice([0, 1, 1, 2]) for _ in range(nf)]
    loop = [{"op": "schedule", "f": f, "need": needs[f]} for f in range(nf)]
    loop += ["dispatch"] * r.choice([1, 2, 3])
    threads = {}
    for t in range(1, nt + 1):
        threads[str(t)] = [{"op": "wake", "f": r.randrange(nf)} for _ in range(r.choice([1, 2, 3]))]
    # make sure every future can complete
    for f in range(nf):
        total = sum(1 for ops in threads.values() for o in ops if o["f"] == f)
        while total < needs[f]:
            threads[str(r.randrange(1, nt + 1))].append({"op": "wake", "f": f})
            total += 1
    sched = [0] * (2 * nf) + [r.choice([0, 0] + list(range(1, nt + 1))) for _ in range(r.choice([15, 30, 45]))]
    return {"id": sid, "kind": "exec", "threads": threads, "loop": loop, "schedule": sched, "limit": r.choice([1024, 1, 2])}


def signal_scn(r, sid):
    nt = r.choice([1, 2])
    threads = {}
    for t in range(1, nt + 1):
        threads[str(t)] = [r.choice(["wakeup", "wakeup", "stop"]) for _ in range(r.choice([0, 1, 2]))]
    # the last thread always ends with stop; wakeup so that run() terminates
    threads[str(nt)] += ["stop", "wakeup"]
    sched = [0, 0] + [r.choice([0, 0] + list(range(1, nt + 1))) for _ in range(r.choice([8, 16, 24]))]
    return {"id": sid, "kind": "signal", "threads": threads, "loop": ["run"], "schedule": sched}


def blockon_scn(r, sid):
    if r.random() < 0.25:
        # block_on(TimeoutFuture): spurious wake-ups from another thread must not complete it early
        ms = r.choice([3, 8, 15])
        ops = ["wakeup" for _ in range(r.choice([0, 1, 3]))]
        sched = [0, 0] + [r.choice([0, 1, 1]) for _ in range(12)]
        return {"id": sid, "kind": "blockon", "threads": {"1": ops}, "loop": [{"op": "block_on_timeout", "need": ms}], "schedule": sched}
    if r.random() < 0.25:
        # several block_on calls on the SAME loop, one after the other: each polls its future first
        n1 = r.choice([0, 0, 1])
        ops = [{"op": "wake", "f": 0} for _ in range(n1)]
        sched = [0, 0] + [r.choice([0, 0, 1]) for _ in range(16)]
        return {"id": sid, "kind": "blockon", "threads": {"1": ops},
                "loop": [{"op": "block_on", "need": n1}, {"op": "block_on", "need": 0}] + ([{"op": "block_on", "need": 0}] if r.random() < 0.4 else []),
                "schedule": sched}
    need = r.choice([0, 1, 2])
    stop_first = r.random() < 0.3
    ops = [{"op": "wake", "f": 0} for _ in range(need + r.choice([0, 1]))]
    if stop_first:
        ops = ops[:r.randrange(len(ops) + 1)] + ["stop", "wakeup"]
    sched = [0, 0] + [r.choice([0, 0, 1]) for _ in range(r.choice([8, 16, 24]))]
    return {"id": sid, "kind": "blockon", "threads": {"1": ops}, "loop": [{"op": "block_on", "need": need}], "schedule": sched}


KINDS = {"ping": ping_scn, "chan": chan_scn, "exec": exec_scn, "signal": signal_scn, "blockon": blockon_scn}


def gen(seed, n, kind):
    out = [KINDS[kind](random.Random(seed * 7919 + i), "%s%d_%d" % (kind[0], seed, i)) for i in range(n)]
    for i, s in enumerate(out):
        s["final_dispatches"] = 12      # enough to drain any queue these scripts can build, even at batch limit 1
        if kind in ("signal", "blockon") and i % 2 == 1:
            # an armed timer far in the future: the wait is bounded by its deadline instead of being infinite
            s["far_timer_ms"] = 6000
    return out


if __name__ == "__main__":
    for s in gen(int(sys.argv[1]), int(sys.argv[2]), sys.argv[3]):
        print(json.dumps(s))
