#!/usr/bin/env python3
"""Engine `transient` -- decides property C18 (TransientSource keeps its child's registration in step with its state).

  (i)   TLC, exhaustive, on the bounded configuration of spec/Transient.tla (mc/transient_q.cfg | transient_t.cfg);
  (ii)  the complete reachable graph of the model is dumped by TLC (every edge  state --call--> state, printed by the
        ACTION_CONSTRAINT EdgeOut of MCTransient.tla); call sequences covering EVERY edge are derived from it, plus the
        shortest call sequence to every clause TLC found violated, plus (informational) sequences of the relaxed,
        outside-protocol environment and seeded random walks;
  (iii) the sequences are executed on the real TransientSource in a real EventLoop (harness/src/bin/drive_transient.rs)
        and the recorded traces are validated by TLC (spec/TransientTrace.tla): strict conformance with the
        transcription + the clauses of C18 on the observed calls and on the kernel's epoll table.
"""
import collections
import json
import os
import random
import re
import shutil

import check

PROP = "C18"
DRV = check.BIN + "/drive_transient"
SPEC = check.SPEC
MAXLEN_PATH = 22          # longest call sequence of an edge-covering scenario


# ------------------------------------------------------------------------------------------------ cfg
def derive_cfg(base, work, name, subst, drop_inv=False, edges=False):
    """a copy of spec/mc/<base>.cfg under `work` with some constant lines replaced"""
    out = []
    for line in open("%s/mc/%s.cfg" % (SPEC, base)):
        key = line.strip().split(" ")[0] if line.strip() else ""
        if key in subst:
            out.append("  " + subst[key] + "\n")
        elif edges and key == "INVARIANTS":
            out.append("INVARIANTS TypeOK\nACTION_CONSTRAINT EdgeOut\n")
        elif drop_inv and key == "INVARIANTS":
            out.append("INVARIANTS TypeOK\n")
        else:
            out.append(line)
    path = os.path.join(work, name + ".cfg")
    open(path, "w").write("".join(out))
    return path


def tla_set(names):
    return "{" + ", ".join('"%s"' % n for n in sorted(names)) + "}"


def parse_tuples(tag, out):
    for m in re.finditer(r'<<"%s", "(.*)">>' % tag, out):
        yield json.loads(json.loads('"' + m.group(1) + '"'))


# ---------------------------------------------------------------------------------------------- graph
def key(node):
    return json.dumps(node, sort_keys=True)


def label(call):
    if call["op"] == "pe":
        return "pe" if call["a"] == "none" else "child:" + call["a"]
    return call["op"]


class Graph:
    def __init__(self, tlc_out):
        self.nodes = {}                              # key -> node dict
        self.inits = []
        self.adj = collections.defaultdict(dict)     # key -> {label: (target key, viol tuple)}
        for nd in parse_tuples("INIT", tlc_out):
            k = key(nd)
            self.nodes[k] = nd
            if k not in self.inits:
                self.inits.append(k)
        for e in parse_tuples("EDGE", tlc_out):
            s, t = key(e["s"]), key(e["t"])
            self.nodes[s], self.nodes[t] = e["s"], e["t"]
            self.adj[s][label(e["call"])] = (t, tuple(sorted(e["viol"])))
        self.inits.sort()
        # shortest path (list of labels) from the initial state of its component to every node
        self.path = {}
        self.root = {}
        queue = collections.deque()
        for i in self.inits:
            self.path[i] = []
            self.root[i] = i
            queue.append(i)
        while queue:
            s = queue.popleft()
            for lab in sorted(self.adj[s]):
                t = self.adj[s][lab][0]
                if t not in self.path:
                    self.path[t] = self.path[s] + [lab]
                    self.root[t] = self.root[s]
                    queue.append(t)

    def edges(self):
        return [(s, lab) for s in sorted(self.adj) for lab in sorted(self.adj[s])]

    def clauses(self):
        return sorted({c for s in self.adj for lab in self.adj[s] for c in self.adj[s][lab][1]})

    def shortest_to_clause(self, clause):
        best = None
        for s, lab in self.edges():
            if clause in self.adj[s][lab][1] and s in self.path:
                cand = (len(self.path[s]) + 1, self.root[s], self.path[s] + [lab])
                if best is None or cand < best:
                    best = cand
        return best

    def nearest_uncovered(self, s, uncovered, limit):
        """shortest label path from s to a node with an uncovered out-edge (at most `limit` steps)"""
        seen = {s}
        queue = collections.deque([(s, [])])
        while queue:
            u, p = queue.popleft()
            if any((u, lab) in uncovered for lab in self.adj[u]):
                return u, p
            if len(p) >= limit:
                continue
            for lab in sorted(self.adj[u]):
                t = self.adj[u][lab][0]
                if t not in seen:
                    seen.add(t)
                    queue.append((t, p + [lab]))
        return None, None

    def edge_cover(self, maxlen=MAXLEN_PATH, only=None):
        """call sequences (root key, labels) that together take every edge (or every edge of `only`) at least once"""
        uncovered = set(self.edges() if only is None else only)
        uncovered = {e for e in uncovered if e[0] in self.path}
        out = []
        while uncovered:
            s, lab = min(uncovered, key=lambda e: (len(self.path[e[0]]), e))
            labels = list(self.path[s])
            cur = s
            # the prefix may itself take uncovered edges
            walk = self.root[s]
            for pl in labels:
                uncovered.discard((walk, pl))
                walk = self.adj[walk][pl][0]
            while True:
                nxt = sorted(l2 for l2 in self.adj[cur] if (cur, l2) in uncovered)
                if nxt and len(labels) < maxlen:
                    # prefer an edge that moves on over a self-loop, so that a path does not end in a corner early
                    l2 = nxt[0]
                    labels.append(l2)
                    uncovered.discard((cur, l2))
                    cur = self.adj[cur][l2][0]
                    continue
                if len(labels) >= maxlen:
                    break
                u, p = self.nearest_uncovered(cur, uncovered, 3)
                if u is None or len(labels) + len(p) + 1 > maxlen:
                    break
                for pl in p:
                    labels.append(pl)
                    cur = self.adj[cur][pl][0]
            out.append((self.root[s], labels))
        return out

    def random_walk(self, rng, length):
        root = rng.choice(self.inits)
        cur, labels = root, []
        for _ in range(length):
            labs = sorted(self.adj[cur])
            if not labs:
                break
            lab = rng.choice(labs)
            labels.append(lab)
            cur = self.adj[cur][lab][0]
        return root, labels


def to_scenario(graph, sid, root, labels, tag):
    """model path -> scenario of drive_transient.
    * A child result other than Continue makes the event loop call reregister() by itself; when the model's next call
      is something else the parent's process_events is called directly ("@direct").
    * process_events, remove()/replace(), reregister: every other time the change is made by the parent inside that
      same process_events ("@cb", the documented in-callback use: the parent then returns PostAction::Reregister and
      the loop re-registers); otherwise from outside the loop through the Dispatcher, followed by LoopHandle::update."""
    node = graph.nodes[root]
    calls = []
    incb = 0
    i = 0
    while i < len(labels):
        lab = labels[i]
        nxt = labels[i + 1] if i + 1 < len(labels) else None
        nxt2 = labels[i + 2] if i + 2 < len(labels) else None
        is_pe = lab == "pe" or lab.startswith("child:")
        if is_pe and nxt in ("remove", "replace") and nxt2 == "reregister":
            incb += 1
            if incb % 2 == 1:
                calls += [lab, nxt + "@cb"]
                i += 2
                continue
        if lab.startswith("child:") and lab != "child:continue" and nxt != "reregister":
            lab += "@direct"
        calls.append(lab)
        i += 1
    return {"id": sid, "init": "default" if node["st"] == "None" else "from", "kinds": node["kind"], "calls": calls,
            "src": tag}


# ------------------------------------------------------------------------------------------- execution
def observed_calls(trace_lines):
    """the calls actually made on the wrapper, in the scenario's vocabulary"""
    out, cur, a = [], None, None
    for ev in trace_lines:
        e = ev.get("e")
        if e == "call":
            cur, a = ev["op"], None
        elif e == "child_pe":
            a = ev["a"]
        elif e == "ret" and cur is not None:
            out.append(("child:" + a if a else "pe") if cur == "pe" else cur)
            cur = None
    return out


def run_traces(prop, scenarios, work, tag, res, trace_spec="TransientTrace"):
    """execute on the real crate, validate with TLC; returns (verdict, trace path, spans)"""
    scn_path = os.path.join(work, tag + "_scn.ndjson")
    tr_path = os.path.join(work, tag + "_trace.ndjson")
    with open(scn_path, "w") as f:
        for s in scenarios:
            f.write(json.dumps(s) + "\n")
    p = check.sh([DRV, scn_path, tr_path], timeout=900, check=False)
    if p.returncode != 0:
        raise check.ToolError("drive_transient failed (%d):\n%s" % (p.returncode, p.stdout[-3000:]))
    verdict, g, d = check.tlc_trace(trace_spec, tr_path, work)
    res.cmds.append("drive_transient %s %s && TRACE=%s tlc -config %s.cfg %s.tla" % (
        os.path.basename(scn_path), os.path.basename(tr_path), os.path.basename(tr_path), trace_spec, trace_spec))
    res.states += d
    res.transitions += g
    return verdict, tr_path, check.split_trace(tr_path)


def load_segments(tr_path):
    segs, cur = collections.OrderedDict(), None
    for line in open(tr_path):
        ev = json.loads(line)
        if ev.get("e") == "reset":
            cur = ev["id"]
            segs[cur] = []
        if cur is not None:
            segs[cur].append(ev)
    return segs


CHUNK = 400               # scenarios per driver / TLC run (keeps every trace validation short)


def judge_chunk(prop, scenarios, work, tag, res, must_realise, trace_spec):
    """one driver run + one TLC trace validation; returns (hits, outside counter, judged against the fix variant?)
    hits: clause -> [(number of calls, scenario id, trace line, replay maker)]"""
    verdict, tr_path, spans = run_traces(prop, scenarios, work, tag, res, trace_spec)
    used_fix = trace_spec == "TransientTraceFix"
    if not used_fix and any(v["p"] == prop and v["c"] == "impl_differs_from_spec" for v in verdict["viol"]):
        # a repaired implementation no longer matches the transcription of the defect: try the candidate-fix variant
        alt, g, d = check.tlc_trace("TransientTraceFix", tr_path, work)
        if not [v for v in alt["viol"] if v["p"] == prop]:
            res.notes.append("%s: the implementation conforms to the variant fix_track_registered of Transient.tla "
                             "(finding O9 repaired?) -- judged against that variant" % tag)
            verdict, used_fix = alt, True
            must_realise = False      # the sequences were planned with the model of the defect
    res.traces += verdict["scenarios"]
    res.evaluations += len(scenarios)
    res.misuse += verdict.get("misuse", 0)
    byid = {s["id"]: s for s in scenarios}
    segs = load_segments(tr_path)
    if verdict["scenarios"] != len(scenarios):
        raise check.ToolError("%s: %d scenarios executed, %d validated" % (tag, len(scenarios), verdict["scenarios"]))
    # non-trivial: the loop itself re-registered the parent, or a call failed
    for sid, evs in segs.items():
        if any((e.get("e") == "call" and e.get("by") == "loop" and e.get("op") == "reregister") or e.get("r") == "err"
               for e in evs):
            res.nontrivial.add(sid)
    per_scn = collections.OrderedDict()
    for v in sorted(verdict["viol"], key=lambda v: v["l"]):
        per_scn.setdefault(v["scn"], []).append(v)
    # every planned call was really made (a tool check, not a verdict)
    if must_realise:
        for s in scenarios:
            want = [c.replace("@direct", "").replace("@cb", "") for c in s["calls"]]
            got = observed_calls(segs.get(s["id"], []))
            if want != got and not [v for v in per_scn.get(s["id"], []) if v["p"] == prop]:
                raise check.ToolError("scenario %s was not realised by the driver:\n planned %s\n made    %s" % (s["id"], want, got))

    def replay_maker(scn):
        def make():
            span = spans.get(scn, [1, 1])
            rp = check.write_replay(prop, byid.get(scn, {"id": scn}), tr_path, span, per_scn[scn], work)
            rpj = json.load(open(rp))
            rpj["engine"] = "transient"
            json.dump(rpj, open(rp, "w"), indent=0)
            return rp, span[0]
        return make

    hits = collections.OrderedDict()
    outside = collections.Counter()
    for scn, vs in per_scn.items():
        for v in vs:
            if v["p"] == prop:
                hits.setdefault(v["c"], []).append((len(byid.get(scn, {}).get("calls", [])), scn, v["l"],
                                                   byid.get(scn, {}).get("calls"), replay_maker(scn)))
            elif v["p"] == prop + "_outside_protocol":
                outside[v["c"]] += 1
    return hits, outside, used_fix


def judge(prop, scenarios, work, tag, res, must_realise=True, trace_spec="TransientTrace", already=()):
    """run + validate + turn the verdicts into violations (one entry per clause: the shortest scenario showing it;
    clauses in `already` have been reported by an earlier batch and only get a note);
    returns (clause -> hits, outside-protocol counter, judged against the candidate-fix variant?)"""
    by_clause = collections.OrderedDict()
    outside = collections.Counter()
    used_fix = trace_spec == "TransientTraceFix"
    for k in range(0, max(len(scenarios), 1), CHUNK):
        h, o, uf = judge_chunk(prop, scenarios[k:k + CHUNK], work, "%s%d" % (tag, k // CHUNK), res, must_realise, trace_spec)
        if uf and not used_fix:
            used_fix, trace_spec, must_realise = True, "TransientTraceFix", False
        for c, lst in h.items():
            by_clause.setdefault(c, []).extend(lst)
        outside.update(o)
    for clause, hits in by_clause.items():
        hits.sort(key=lambda h: h[:3])
        _, scn, line, calls, make = hits[0]
        if clause not in already:
            rp, first = make()
            res.viol.append({"prop": prop, "scn": scn, "clauses": [clause], "replay": rp, "first_line": line - first})
        res.notes.append("clause %s: %d scenario(s) of %s, shortest %s = %s" % (
            clause, len({h[1] for h in hits}), tag, scn, calls))
    if outside:
        res.notes.append("%s, outside the documented protocol (informational, not a verdict): %s" % (
            tag, ", ".join("%s x%d" % kv for kv in sorted(outside.items()))))
    return by_clause, outside, used_fix


# ------------------------------------------------------------------------------------------- the engine
def model_runs(prop, tier, work, res):
    """TLC on the bounded configuration; returns (graph of the protocol model, clauses TLC flags)"""
    base = "transient_q" if tier == "quick" else "transient_t"
    workers = 8 if tier == "quick" else 16
    budget = 120 if tier == "quick" else 600
    # (A) the configuration as it is: Inv_C18 over every call sequence of the bound
    a = check.tlc_model("MCTransient", "mc/%s.cfg" % base, work, workers=workers, timeout=budget)
    res.states += a["distinct"]
    res.transitions += a["generated"]
    res.cmds.append("tlc -config mc/%s.cfg MCTransient.tla" % base)
    flagged = sorted({c for v in parse_tuples("C18VIOL", a["out"]) for c in v["viol"]})
    if not a["ok"]:
        os.makedirs(check.ROOT + "/replays", exist_ok=True)
        open("%s/replays/%s_model_%s.txt" % (check.ROOT, prop, base), "w").write(a["out"][-100000:])
        res.notes.append("TLC: Inv_C18 violated on mc/%s.cfg, first by %s (counterexample in replays/%s_model_%s.txt)" % (
            base, flagged, prop, base))
    # (B) the complete graph of the same constants without length bound
    gcfg = derive_cfg(base, work, base + "_graph", {"MaxLen": "MaxLen = 0", "RecordEdges": "RecordEdges = TRUE"}, edges=True)
    b = check.tlc_model("MCTransient", gcfg, work, workers=1, timeout=budget)
    if not b["ok"]:
        raise check.ToolError("graph dump failed:\n" + b["out"][-3000:])
    graph = Graph(b["out"])
    res.states += b["distinct"]
    res.transitions += b["generated"]
    res.cmds.append("tlc -config %s MCTransient.tla  (graph dump: %d abstract states, %d edges)" % (
        os.path.basename(gcfg), len(graph.nodes), len(graph.edges())))
    found = graph.clauses()
    # (C) nothing else is violated: the bounded run with exactly the found clauses ignored is clean
    ccfg = derive_cfg(base, work, base + "_rest", {"Ignore": "Ignore = " + tla_set(found)})
    c = check.tlc_model("MCTransient", ccfg, work, workers=workers, timeout=budget)
    res.states += c["distinct"]
    res.transitions += c["generated"]
    if not c["ok"] or not set(flagged) <= set(found):
        cex = "%s/replays/%s_model_rest.txt" % (check.ROOT, prop)
        open(cex, "w").write(c["out"][-100000:])
        res.viol.append({"prop": prop, "scn": "model:" + base, "clauses": ["model:Inv_C18"], "replay": cex, "first_line": 0})
    return graph, found, flagged, base


def engine(prop, tier, seed, work):
    res = check.Result()
    graph, found, flagged, base = model_runs(prop, tier, work, res)
    rng = random.Random(seed)
    scns = []
    # shortest reproduction of every clause TLC finds violated in the protocol model
    for clause in found:
        _, root, labels = graph.shortest_to_clause(clause)
        scns.append(to_scenario(graph, "kf_" + clause, root, labels, "shortest:" + clause))
    # every edge (state x call) of the protocol model at least once
    cover = graph.edge_cover()
    for i, (root, labels) in enumerate(cover):
        scns.append(to_scenario(graph, "e%03d" % i, root, labels, "edge-cover"))
    nwalk = 40 if tier == "quick" else 2000
    for i in range(nwalk):
        root, labels = graph.random_walk(rng, rng.randint(6, 40))
        scns.append(to_scenario(graph, "w%03d" % i, root, labels, "walk"))
    by_clause, _, used_fix = judge(prop, scns, work, "proto", res)
    if used_fix:
        # the crate behaves like the candidate fix: cover every edge of *that* model as well
        fcfg = derive_cfg(base, work, base + "_fixgraph", {"MaxLen": "MaxLen = 0", "RecordEdges": "RecordEdges = TRUE",
                                                            "Variants": 'Variants = {"fix_track_registered"}'}, edges=True)
        fb = check.tlc_model("MCTransient", fcfg, work, workers=1, timeout=600)
        if not fb["ok"]:
            raise check.ToolError("graph dump (fix variant) failed:\n" + fb["out"][-3000:])
        fgraph = Graph(fb["out"])
        res.states += fb["distinct"]
        res.transitions += fb["generated"]
        fs = [to_scenario(fgraph, "f%03d" % i, root, labels, "edge-cover(fix variant)")
              for i, (root, labels) in enumerate(fgraph.edge_cover())]
        judge(prop, fs, work, "proto_fix", res, trace_spec="TransientTraceFix")
        res.notes.append("fix-variant model: %d abstract states, %d edges, covered by %d call sequences; clauses violated in it: %s" % (
            len(fgraph.nodes), len(fgraph.edges()), len(fs), fgraph.clauses() or "none"))
    res.notes.append("protocol model (%s): %d abstract states, %d edges, all covered by %d call sequences (longest %d); "
                     "%d shortest-violation sequences, %d seeded walks; clauses TLC finds violated: %s" % (
                         base, len(graph.nodes), len(graph.edges()), len(cover), max(len(c[1]) for c in cover),
                         len(found), nwalk, found or "none"))
    for clause in found:
        if clause not in by_clause and not used_fix:
            # the transcription predicts a violation that the real crate did not show: impl_differs_from_spec has fired
            res.notes.append("clause %s predicted by the model was not observed on the real crate" % clause)
    # informational: the relaxed environment (outside the documented protocol), conformance + observations
    rg = check.tlc_model("MCTransient", "mc/transient_relaxed_graph.cfg", work, workers=1, timeout=300)
    if not rg["ok"]:
        raise check.ToolError("relaxed graph dump failed:\n" + rg["out"][-3000:])
    relaxed = Graph(rg["out"])
    res.states += rg["distinct"]
    res.transitions += rg["generated"]
    res.cmds.append("tlc -config mc/transient_relaxed_graph.cfg MCTransient.tla")
    strict_edges = set(graph.edges()) if tier == "quick" else set()
    extra = [e for e in relaxed.edges() if e not in strict_edges]
    rs = []
    for clause in relaxed.clauses():
        if clause not in found:
            _, root, labels = relaxed.shortest_to_clause(clause)
            rs.append(to_scenario(relaxed, "ro_" + clause, root, labels, "outside-protocol:" + clause))
    rcover = relaxed.edge_cover(only=extra)
    if tier == "quick":
        rcover = rcover[:150]
    for i, (root, labels) in enumerate(rcover):
        rs.append(to_scenario(relaxed, "r%03d" % i, root, labels, "outside-protocol edge-cover"))
    for i in range(20 if tier == "quick" else 1000):
        root, labels = relaxed.random_walk(rng, rng.randint(6, 40))
        rs.append(to_scenario(relaxed, "rw%03d" % i, root, labels, "outside-protocol walk"))
    # (a leaked timer registration makes the loop call process_events more often than planned: no realisation check)
    judge(prop, rs, work, "relaxed", res, must_realise=False,
          trace_spec="TransientTraceFix" if used_fix else "TransientTrace", already=set(by_clause))
    res.notes.append("relaxed model (two changes before the re-registration, unregister before it): %d abstract states, "
                     "%d edges, %d sequences replayed; clauses only there: %s" % (
                         len(relaxed.nodes), len(relaxed.edges()), len(rs),
                         [c for c in relaxed.clauses() if c not in found] or "none"))
    if tier == "thorough":
        f = check.tlc_model("MCTransient", "mc/transient_fix.cfg", work, workers=8, timeout=300)
        res.states += f["distinct"]
        res.transitions += f["generated"]
        res.notes.append("candidate fix (variant fix_track_registered): Inv_C18 %s on the complete graph" % (
            "holds" if f["ok"] else "is VIOLATED"))
    for s in scns[:2] + rs[:1]:
        res.samples.append({"engine": "transient", "scenario": s})
    return res


def replay(prop, rp, work):
    """re-run the scenario of a replay file written by this engine"""
    res = check.Result()
    judge(prop, [rp["scenario"]], work, "replay", res, must_realise=False)
    return res


# ------------------------------------------------------------------------------------------- self-test
def _work():
    w = "%s/work/selftest_transient_%d" % (check.ROOT, os.getpid())
    shutil.rmtree(w, ignore_errors=True)
    os.makedirs(w)
    return w


BASE_SCN = {"id": "st", "init": "from", "kinds": ["fd", "tm", "fd"],
            "calls": ["register", "child:continue", "replace", "reregister", "child:remove", "reregister", "pe", "map"]}


def _record(work):
    res = check.Result()
    verdict, tr, _ = run_traces(PROP, [BASE_SCN], work, "base", res)
    assert not verdict["viol"], "the base scenario must be clean: %s" % verdict["viol"]
    return [json.loads(line) for line in open(tr)]


def _validate(work, name, events):
    p = os.path.join(work, name + ".ndjson")
    with open(p, "w") as f:
        for e in events:
            f.write(json.dumps(e, separators=(",", ":")) + "\n")
    verdict, _, _ = check.tlc_trace("TransientTrace", p, work)
    return {v["c"] for v in verdict["viol"] if v["p"] == PROP}


def _corrupt(name, pick, change, expect):
    def run(work=None):
        own = work is None
        work = work or _work()
        try:
            evs = _record(work)
            idx = [i for i, e in enumerate(evs) if pick(e)]
            assert idx, "no event to corrupt"
            i = idx[-1]
            new = change(dict(evs[i]))
            evs2 = evs[:i] + ([new] if new is not None else []) + evs[i + 1:]
            got = _validate(work, name, evs2)
            assert expect & got, "corruption %s not flagged: %s" % (name, got)
            return True
        finally:
            if own:
                shutil.rmtree(work, ignore_errors=True)
    return run


def _variant(cfg, expect_clause):
    def run(work=None):
        own = work is None
        work = work or _work()
        try:
            r = check.tlc_model("MCTransient", "mc/%s.cfg" % cfg, work, workers=4, timeout=300)
            if expect_clause is None:
                assert r["ok"], "%s must hold" % cfg
            else:
                got = {c for v in parse_tuples("C18VIOL", r["out"]) for c in v["viol"]}
                assert "Inv_C18_report" in r["violated"] and expect_clause in got, "%s: %s %s" % (cfg, r["violated"], got)
            return True
        finally:
            if own:
                shutil.rmtree(work, ignore_errors=True)
    return run


def _set(field, value):
    def f(e):
        e[field] = value
        return e
    return f


SELFTEST = [
    ("C18 trace: a child unregister result flipped to err is flagged (impl_differs_from_spec / child_call_failed)",
     _corrupt("unreg_err", lambda e: e.get("e") == "child_unreg", _set("r", "err"), {"impl_differs_from_spec", "child_call_failed"})),
    ("C18 trace: a missing child unregister before the drop is flagged",
     _corrupt("no_unreg", lambda e: e.get("e") == "child_unreg", lambda e: None,
              {"impl_differs_from_spec", "child_dropped_while_registered"})),
    ("C18 trace: a child still in the kernel's epoll set after the wrapper unregistered it is flagged",
     _corrupt("ep_leak", lambda e: e.get("e") == "ret" and e.get("op") == "reregister", _set("ep", [1, 2]),
              {"impl_differs_from_spec", "registration_out_of_step"})),
    ("C18 trace: the wrapper returning Disable is flagged (wrapper_returned_other_action)",
     _corrupt("ret_disable", lambda e: e.get("e") == "ret" and e.get("op") == "pe" and e.get("r") == "reregister",
              _set("r", "disable"), {"wrapper_returned_other_action"})),
    ("C18 trace: an event forwarded to a replaced child is flagged (event_forwarded_to_non_current)",
     _corrupt("fwd_old", lambda e: e.get("e") == "child_pe", _set("c", 1), {"event_forwarded_to_non_current"})),
    ("C18 trace: process_events on the empty wrapper reaching a child is flagged",
     _corrupt("empty_pe", lambda e: e.get("e") == "ret" and e.get("op") == "pe" and e.get("r") == "continue",
              _set("r", "reregister"), {"process_events_on_empty_not_noop", "impl_differs_from_spec"})),
    ("C18 model: variant drop_without_unregister makes TLC report child_dropped_while_registered",
     _variant("transient_var_dropreg", "child_dropped_while_registered")),
    ("C18 model: variant forward_in_disable makes TLC report event_forwarded_to_non_current",
     _variant("transient_var_forward", "event_forwarded_to_non_current")),
    ("C18 model: variant return_child_action makes TLC report wrapper_returned_other_action",
     _variant("transient_var_ret", "wrapper_returned_other_action")),
    ("C18 model: the unchanged transcription violates Inv_C18 by child_unregistered_twice_after_disable (O9)",
     _variant("transient_q", "child_unregistered_twice_after_disable")),
    ("C18 model: with the candidate fix (fix_track_registered) Inv_C18 holds on the complete graph",
     _variant("transient_fix", None)),
]


if __name__ == "__main__":
    import sys
    w = _work()
    try:
        if len(sys.argv) > 1 and sys.argv[1] == "selftest":
            for d, f in SELFTEST:
                print("ok  " if f(w) else "FAIL", d)
        else:
            r = engine(PROP, sys.argv[1] if len(sys.argv) > 1 else "quick", 1, w)
            print(json.dumps({"viol": r.viol, "states": r.states, "traces": r.traces, "notes": r.notes}, indent=1))
    finally:
        shutil.rmtree(w, ignore_errors=True)
