#!/bin/sh
# usage: tlc_trace.sh <Spec> <trace.ndjson>   (run from /verif/spec)
cd /verif/spec && TRACE="$2" JAVA_TOOL_OPTIONS="-Xss512m" timeout 600 tlc -workers 1 -metadir /verif/work/tlcmeta.$$ -cleanup -noGenerateSpecTE -config "$1.cfg" "$1.tla" 2>&1; rm -rf /verif/work/tlcmeta.$$
