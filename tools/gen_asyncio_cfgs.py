#!/usr/bin/env python3
# generator of spec/mc/asyncio_*.cfg: edit the table below and run it to regenerate the configurations of the engine `asyncio` (C17)
import sys
TOPO = {
 "solo":  ("TasksSolo", "AdSolo", "KindsSolo", "FALSE", "End1"),
 "two":   ("TasksRW", "AdTwo", "KindsRW", "FALSE", "BothEnds"),
 "split": ("TasksRW", "AdOne", "KindsRW", "FALSE", "End1"),
 "join":  ("TasksRW", "AdOne", "KindsRW", "TRUE", "End1"),
 "handoff": ("TasksAB", "AdAB", "KindsAB", "FALSE", "End1"),
}
INV = "TypeOK Inv_C17_Exact Inv_C17_NeverStuck Inv_C17_Woken Inv_C17_Blocking Inv_C17_Released"
def cfg(name, comment, topo, B=2, LW=0, sym="S01", MaxLen=3, MaxChunk=3, MaxOps=3, MaxPeerOps=3, MaxAdapt=1, MaxAbandon=0, WithFile=False,
        Variants="{}", AsyncPeer=True, RecordHist=False, MaxSteps=0, Guided=False, spec="Spec", inv=INV, prop=None):
    t = TOPO[topo]
    b = lambda x: "TRUE" if x else "FALSE"
    lines = ["\\* " + l for l in comment.strip().split("\n")]
    lines += ["SPECIFICATION " + spec, "CONSTANTS",
      "  B = %d" % B, "  LowWater = %d" % LW, "  Sym <- %s" % sym if not sym.startswith("{") else "  Sym = %s" % sym,
      "  MaxLen = %d" % MaxLen, "  MaxChunk = %d" % MaxChunk,
      "  Tasks <- %s" % t[0], "  AdOf <- %s" % t[1], "  Kinds <- %s" % t[2], "  Join = %s" % t[3], "  Adapted <- %s" % t[4],
      "  MaxOps = %d" % MaxOps, "  MaxPeerOps = %d" % MaxPeerOps, "  MaxAdapt = %d" % MaxAdapt, "  MaxAbandon = %d" % MaxAbandon, "  WithFile = %s" % b(WithFile),
      "  Variants = %s" % Variants, "  AsyncPeer = %s" % b(AsyncPeer), "  RecordHist = %s" % b(RecordHist),
      "  MaxSteps = %d" % MaxSteps, "  Guided = %s" % b(Guided)]
    if inv:
        lines.append("INVARIANTS " + (("PrintScn " if RecordHist else "") + inv))
    if prop:
        lines.append("PROPERTY " + prop)
    lines.append("CHECK_DEADLOCK FALSE")
    open("/verif/spec/mc/%s.cfg" % name, "w").write("\n".join(lines) + "\n")

Q = "the peer also acts in the middle of a dispatch; fd blocking or non-blocking beforehand."
cfg("asyncio_q", "C17 quick, topology solo (ONE task on the adapter of end 1, the peer on end 2): ALL scripts of <= 4 operations\nread(n)/write(n)/readable()/writable(), chunk sizes 1..3, all byte strings of <= 4 bytes over {0,1} per direction, socket buffer\nB = 2 with the Linux EPOLLOUT low-water mark 0, all peer scripts of <= 2 operations w(n)/r(n)/close, all placements of dispatches;\n" + Q + "  < 30 s with 8 workers.",
    "solo", MaxLen=4, MaxOps=4, MaxPeerOps=2)
cfg("asyncio_q_two", "C17 quick, topology two (both ends adapted in one loop: W writes through adapter 1, R reads through adapter 2): all scripts of\n<= 4 operations per task, chunk sizes 1..3, byte strings <= 4 bytes, B = 2, low-water 0, adapters dropped / into_inner when their task is done.",
    "two", MaxLen=4, MaxOps=4, MaxPeerOps=0)
cfg("asyncio_q_life", "C17 quick, lifecycle: adapt_io / drop / into_inner / second adapt_io of the same fd / adapt_io of a regular file (EPERM),\nfds blocking or non-blocking beforehand, with short scripts in between.",
    "solo", MaxLen=2, MaxChunk=2, MaxOps=2, MaxPeerOps=2, MaxAdapt=2, WithFile=True)
cfg("asyncio_q_b3", "C17 quick, B = 3 with the naive low-water mark (EPOLLOUT whenever a byte fits, LowWater = B-1): solo, <= 3 operations, strings <= 4 bytes.",
    "solo", B=3, LW=2, MaxLen=4, MaxPeerOps=2)
cfg("asyncio_t", "C17 thorough, topology solo: scripts of <= 5 operations, chunk sizes 1..3, byte strings <= 4 bytes over {0,1} per direction, B = 2,\nlow-water 0, peer scripts <= 4 operations (also in the middle of a dispatch).",
    "solo", MaxLen=4, MaxOps=5, MaxPeerOps=4)
cfg("asyncio_t_life", "C17 thorough, lifecycle: up to 3 adapt_io per fd, drop / into_inner, adapt_io of a regular file, fds blocking or non-blocking beforehand,\nwith scripts of <= 3 operations and peer scripts of <= 3 operations in between.",
    "solo", MaxLen=3, MaxOps=3, MaxPeerOps=3, MaxAdapt=3, WithFile=True)
cfg("asyncio_t_two", "C17 thorough, topology two: scripts of <= 4 operations per task, byte strings <= 5 bytes, B = 2, low-water 0, second adapt_io.",
    "two", MaxLen=5, MaxOps=4, MaxPeerOps=0, MaxAdapt=2)
cfg("asyncio_t_b3", "C17 thorough, B = 3 with low-water 0 (EPOLLOUT only when the queue is empty): solo, scripts <= 4 operations, strings <= 5 bytes, peer <= 2.",
    "solo", B=3, LW=0, MaxLen=5, MaxOps=4, MaxPeerOps=2)
cfg("asyncio_t_b3n", "C17 thorough, B = 3 with the naive low-water mark 2: solo, scripts <= 4 operations, strings <= 4 bytes, peer <= 3.",
    "solo", B=3, LW=2, MaxLen=4, MaxOps=4, MaxPeerOps=3)
# two futures on ONE adapter (fixed by 0061559: one waker per direction): the normal invariants
SH = "a reader and a writer pending on ONE adapter at the same time"
cfg("asyncio_q_split", "C17 quick, topology split (" + SH + ": two tasks, futures' split() / Rc<RefCell>): scripts of <= 2 operations per task,\nchunk sizes 1..2, strings <= 3 bytes, peer scripts <= 2 operations.", "split", MaxOps=2, MaxChunk=2, MaxPeerOps=2, AsyncPeer=False)
cfg("asyncio_q_join", "C17 quick, topology join (" + SH + ": ONE task polling both, one waker): scripts of <= 2 operations per branch,\nchunk sizes 1..2, strings <= 3 bytes, peer scripts <= 2 operations.", "join", MaxOps=2, MaxChunk=2, MaxPeerOps=2, AsyncPeer=False)
cfg("asyncio_t_split", "C17 thorough, topology split: scripts of <= 3 operations per task, chunk sizes 1..2, strings <= 3 bytes, peer <= 3 operations, also in the middle of a dispatch.",
    "split", MaxOps=3, MaxChunk=2)
cfg("asyncio_t_join", "C17 thorough, topology join: scripts of <= 3 operations per branch, chunk sizes 1..2, strings <= 3 bytes, peer <= 3 operations, also in the middle of a dispatch.",
    "join", MaxOps=3, MaxChunk=2)
HO = "two tasks A and B use ONE adapter one after the other: a pending operation is abandoned (future dropped) and the other task waits for the same direction"
cfg("asyncio_q_handoff", "C17 quick, topology handoff (" + HO + "):\nscripts of <= 2 operations per task (all four kinds), one abandoned operation, chunk size 1, strings <= 2 bytes, peer scripts <= 2 operations.",
    "handoff", MaxLen=2, MaxOps=2, MaxChunk=1, MaxPeerOps=2, MaxAbandon=1, AsyncPeer=False)
cfg("asyncio_t_handoff", "C17 thorough, topology handoff: scripts of <= 3 operations per task, one abandoned operation, chunk size 1, strings <= 2 bytes, peer <= 2 operations.",
    "handoff", MaxLen=2, MaxOps=3, MaxChunk=1, MaxPeerOps=2, MaxAbandon=1, AsyncPeer=False)
V = {"notreplaced": ("waker_not_replaced", "handoff", "Inv_C17_NeverStuck", "register_waker returns early when the direction already has a waker and keeps the stale waker of an abandoned wait"),
     "dropfd": ("drop_keeps_fd", "solo", "Inv_C17_Released", "kill() does not delete the fd from the poller (before f0ccfc5)"),
     "adaptleak": ("failed_adapt_leaks", "solo", "Inv_C17_Released", "a failing adapt_io keeps the slot and O_NONBLOCK (before ae70cc3); checked against Blocking alone in asyncio_var_adaptleak_b"),
     "killsother": ("failed_adapt_kills_other", "solo", "Inv_C17_Released", "a failing adapt_io of an fd that already has a live adapter deletes that adapter's registration (0061559, before 64b68d5)"),
     "rearm": ("rearm_skipped", "solo", "Inv_C17_NeverStuck", "the waker is stored but the one-shot registration is not renewed when the interest equals the one registered last"),
     "interest": ("interest_not_switched", "split", "Inv_C17_NeverStuck", "register_waker leaves a non-empty interest as it is: the second direction is not added"),
     "flags": ("flags_not_restored", "solo", "Inv_C17_Blocking", "Drop does not restore the blocking mode"),
     "nowake": ("no_wake", "solo", "Inv_C17_NeverStuck", "process_events takes the wakers of the reported directions but does not wake them"),
     "single_split": ("single_waker", "split", "Inv_C17_NeverStuck", "the code before 0061559 (ONE waker slot, ONE interest), a reader task and a writer task on one adapter"),
     "single_join": ("single_waker", "join", "Inv_C17_NeverStuck", "the code before 0061559 (ONE waker slot, ONE interest), one task polling a read and a write on one adapter"),
     "norearm": ("no_rearm_after_event", "split", "Inv_C17_NeverStuck", "process_events does not renew the one-shot registration for the direction that is still waited for")}
for k, (v, topo, inv, what) in V.items():
    cfg("asyncio_var_" + k, "non-vacuity: %s.  TLC must report %s violated." % (what, inv), topo, MaxChunk=2, MaxAdapt=(2 if topo == "solo" else 1),
        WithFile=(topo == "solo"), MaxOps=(3 if topo == "solo" else 2), MaxAbandon=(1 if topo == "handoff" else 0),
        MaxLen=(2 if topo == "handoff" else 3), MaxPeerOps=(2 if topo == "handoff" else 3), Variants='{"%s"}' % v, AsyncPeer=False)
cfg("asyncio_var_adaptleak_b", "non-vacuity: a failing adapt_io leaves O_NONBLOCK set.  TLC must report Inv_C17_Blocking violated (only Blocking is checked).",
    "solo", MaxChunk=2, MaxAdapt=2, WithFile=True, Variants='{"failed_adapt_leaks"}', AsyncPeer=False, inv="Inv_C17_Blocking")
cfg("asyncio_var_nowake_w", "non-vacuity of the quiescence clause: without the wake a task stays parked on a ready fd.  TLC must report Inv_C17_Woken violated (only Woken is checked).",
    "solo", MaxChunk=2, Variants='{"no_wake"}', AsyncPeer=False, inv="Inv_C17_Woken")
# scenario extraction
cfg("asyncio_scn", "scenario extraction (exhaustive): EVERY guided behaviour of <= 5 controllable steps of topology solo (scripts <= 2 operations, chunks 1..3,\none symbol) is printed (PrintScn) and replayed on the real crate by drive_asyncio.",
    "solo", sym="{1}", MaxOps=2, MaxPeerOps=2, AsyncPeer=False, RecordHist=True, MaxSteps=5, Guided=True)
cfg("asyncio_scn_t", "scenario extraction (exhaustive, thorough): every guided behaviour of <= 6 controllable steps of topology solo.",
    "solo", sym="{1}", MaxOps=2, MaxPeerOps=2, AsyncPeer=False, RecordHist=True, MaxSteps=6, Guided=True)
cfg("asyncio_scn_two", "scenario extraction (exhaustive): every guided behaviour of <= 6 controllable steps of topology two (scripts <= 2 operations).",
    "two", sym="{1}", MaxOps=2, MaxPeerOps=0, AsyncPeer=False, RecordHist=True, MaxSteps=6, Guided=True)
for topo in ("solo", "two", "split", "join", "handoff"):
    cfg("asyncio_sim_" + topo, "scenario extraction (tlc -simulate, seeded): behaviours of <= 16 controllable steps of topology %s, scripts <= 5 operations,\nchunks 1..3, strings <= 8 bytes over {0,1}, second adapt_io, regular file." % topo,
        topo, MaxLen=8, MaxOps=5, MaxPeerOps=(0 if topo == "two" else 6), MaxAdapt=2, MaxAbandon=(0 if topo == "join" else 2), WithFile=True,
        AsyncPeer=False, RecordHist=True, MaxSteps=(18 if topo == "handoff" else 16), Guided=True)
cfg("asyncio_live", "liveness form of Woken under weak fairness of the loop thread (FairSpec): a parked task whose fd is reported ready does not stay\nparked, and the loop settles (it is quiescent again and again: no busy loop).  Small bounds (temporal checking).",
    "solo", MaxLen=2, MaxChunk=2, MaxOps=2, MaxPeerOps=2, AsyncPeer=False, spec="FairSpec", inv="TypeOK", prop="Live_C17_Woken Live_C17_Settles")
cfg("asyncio_live_two", "liveness, topology two.", "two", MaxLen=2, MaxChunk=2, MaxOps=2, MaxPeerOps=0, AsyncPeer=False, spec="FairSpec", inv="TypeOK",
    prop="Live_C17_Woken Live_C17_Settles")
cfg("asyncio_live_split", "liveness, topology split (a reader task and a writer task on one adapter).", "split", MaxLen=2, MaxChunk=2, MaxOps=2, MaxPeerOps=2,
    AsyncPeer=False, spec="FairSpec", inv="TypeOK", prop="Live_C17_Woken Live_C17_Settles")
cfg("asyncio_live_join", "liveness, topology join (ONE task polling readable()/read and writable()/write on one adapter): every ready branch is woken and the loop settles.",
    "join", MaxLen=2, MaxChunk=2, MaxOps=2, MaxPeerOps=2, AsyncPeer=False, spec="FairSpec", inv="TypeOK", prop="Live_C17_Woken Live_C17_Settles")
cfg("asyncio_var_single_live", "non-vacuity, liveness: the code before 0061559, ONE task polling readable() and writable() on one adapter -- each readiness() consumes the\nbit the other one waits for: the loop spins for ever although both directions are ready.  TLC must report Live_C17_Settles violated.",
    "join", MaxLen=2, MaxChunk=2, MaxOps=2, MaxPeerOps=2, Variants='{"single_waker"}', AsyncPeer=False, spec="FairSpec", inv="TypeOK", prop="Live_C17_Settles")
cfg("asyncio_var_consumed_live", "non-vacuity, liveness: take_readiness(x) clears both bits -- ONE task polling readable() then writable(): while only the write\ndirection is ready, readable() (polled first) steals its readiness at every round.  TLC must report Live_C17_Settles violated.",
    "join", MaxLen=2, MaxChunk=2, MaxOps=2, MaxPeerOps=2, Variants='{"readiness_consumed_whole"}', AsyncPeer=False, spec="FairSpec", inv="TypeOK", prop="Live_C17_Settles")
cfg("asyncio_live_handoff", "liveness, topology handoff (a wait is abandoned, another task waits for the same direction).", "handoff", MaxLen=1, MaxChunk=1, MaxOps=2,
    MaxPeerOps=1, MaxAbandon=1, AsyncPeer=False, spec="FairSpec", inv="TypeOK", prop="Live_C17_Woken Live_C17_Settles")
cfg("asyncio_scn_handoff", "scenario extraction (exhaustive): every guided behaviour of <= 7 controllable steps of topology handoff (scripts <= 1 operation per task,\none abandoned operation, one symbol).",
    "handoff", sym="{1}", MaxLen=1, MaxOps=1, MaxChunk=1, MaxPeerOps=1, MaxAbandon=1, AsyncPeer=False, RecordHist=True, MaxSteps=7, Guided=True)
