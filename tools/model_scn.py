#!/usr/bin/env python3
"""Turn behaviours of LoopCore.tla (the HIST lines TLC prints in simulation mode) into scenarios for the
harness, and compare the events the model predicted with the events the real crate produced."""
import json
import re


def parse_hist_lines(tlc_out):
    """yield the emitted-event lists of all complete behaviours printed by PrintHist"""
    for m in re.finditer(r'<<"HIST", "(.*)">>', tlc_out):
        try:
            yield json.loads(json.loads('"' + m.group(1) + '"'))
        except Exception:
            continue


def decl_to_spec(d):
    s = {"s": d["s"], "kind": d["kind"]}
    if d.get("life"):
        s["life"] = 1
    if d.get("held"):
        s["held"] = 1
    if d["kind"] == "timer" and d.get("hasdl"):
        s["dl"] = d["dl"]
    if d["kind"] == "comp":
        s["children"] = [{"interest": c["interest"], "mode": c["mode"]} for c in d["children"]]
    if d.get("synth"):
        s["synth"] = list(d["synth"])
    if d.get("ondrop"):
        s["ondrop"] = 1
    return s


def hist_to_scenario(hist, sid):
    """scenario = what the driver decided: top-level ops, and per callback invocation its ops and return value"""
    assert hist and hist[0]["e"] == "reset"
    srcs = [decl_to_spec(d) for d in hist[0]["srcs"]]
    steps, progs = [], {}
    cur = None          # (key, program dict) of the running callback
    for ev in hist[1:]:
        e = ev["e"]
        if e == "op":
            op = {k: v for k, v in ev.items() if k not in ("e", "ctx")}
            if ev["ctx"] >= 1000:
                continue            # issued by a source's Drop (ondrop), not by the driver: the real source does it itself
            if ev["ctx"] == 0:
                steps.append(op)
            elif cur is not None:
                cur[1]["ops"].append(op)
        elif e == "cb":
            key = "s%d" % ev["s"]
            pl = progs.setdefault(key, [])
            while len(pl) <= ev["k"]:
                pl.append({"ops": []})
            cur = (key, pl[ev["k"]])
        elif e == "cbret":
            if cur is not None:
                r = ev.get("ret", "none")
                if r == "to":
                    cur[1]["ret"] = {"to": ev["arg"]}
                elif r != "none":
                    cur[1]["ret"] = r
            cur = None
        elif e == "idle_run":
            key = "i%d" % ev["i"]
            progs[key] = [{"ops": []}]
            cur = (key, progs[key][0])
        elif e == "idle_ret":
            cur = None
    scn = {"id": sid, "tick_us": 2000, "sources": srcs, "progs": progs, "steps": steps, "from_model": 1}
    if "limit" in hist[0]:
        scn["limit"] = hist[0]["limit"]
    return scn


KEEP = {
    "op": ("op", "ctx", "s", "t", "i"),
    "opret": ("op", "ctx", "r"),
    "reg": ("s", "r"), "rereg": ("s", "r"), "unreg": ("s", "r"),
    "cb": ("s", "sub", "k"), "cbret": ("s", "ret"),
    "pe": ("s", "key"), "peret": ("s", "act"), "apply": ("key", "act"), "lookup": ("key", "found"),
    "idle_run": ("i",), "idle_ret": ("i",), "drop_src": ("s",), "drop_cb": ("s",),
    "bs": ("s", "r"), "bhe": ("s", "keys"), "batch": ("keys",), "synth": ("keys",),
    "poll": ("s", "f", "k"), "pollret": ("s", "f", "r", "v"), "fdrop": ("s", "f"),
}


def project(events):
    """comparable projection of a trace (model or real): event kind plus the fields both sides define"""
    out = []
    for ev in events:
        e = ev.get("e")
        if e in ("reset", "teardown", "end", "wait", "drop_idle_cb"):
            continue
        if e == "snap":
            if ev.get("gone"):
                continue
            out.append(("snap", tuple(tuple(x) for x in ev["slots"]), tuple(tuple(x) for x in ev["life"]),
                        ev["idles"], ev["heap"], ev["pending"],
                        tuple(sorted((x[1], x[2], x[3], x[4], x[5], x[6]) for x in ev["epoll"]))))
            continue
        if e not in KEEP:
            continue
        row = [e]
        for f in KEEP[e]:
            v = ev.get(f)
            if isinstance(v, list):
                v = json.dumps(v)
            row.append(v)
        out.append(tuple(row))
    # futures dropped by one Executor::drop come in slab order, which the model does not track: compare them as a set
    res, i = [], 0
    while i < len(out):
        if out[i][0] == "fdrop":
            j = i
            while j < len(out) and out[j][0] == "fdrop":
                j += 1
            res.append(("fdrops",) + tuple(sorted(out[i:j])))
            i = j
        else:
            res.append(out[i])
            i += 1
    return res


def timer_keys_of(real_events):
    """(slot id, version) of every registration of a timer source in a recorded trace"""
    kinds = {}
    out = set()
    for ev in real_events:
        if ev.get("e") == "reset":
            kinds = {d["s"]: d["kind"] for d in ev.get("srcs", [])}
        elif ev.get("e") == "opret" and ev.get("op") == "insert" and ev.get("r") == "ok" and kinds.get(ev.get("s")) == "timer":
            out.add(tuple(ev["tid"]))
    return out


def compare(pred_events, real_events, timer_keys=frozenset()):
    """('same' | 'order' | 'timing' | 'diverged', index, detail): 'order' = the kernel returned the ready fds of a batch in
    another order than the behaviour TLC picked (a legal difference: the model allows every order)"""
    a, b = project(pred_events), project(real_events)
    # the real trace ends with the teardown drops, which the model does not produce
    n = min(len(a), len(b))
    for i in range(n):
        if a[i] != b[i]:
            if a[i][0] == "batch" and b[i][0] == "batch" and sorted(json.loads(a[i][1])) == sorted(json.loads(b[i][1])):
                return "order", i, (a[i], b[i])
            if a[i][0] == "batch" and b[i][0] == "batch":
                ma, mb = json.loads(a[i][1]), json.loads(b[i][1])
                extra = [k for k in mb if k not in ma]
                if all(k in mb for k in ma) and extra and all((k[0], k[1]) in timer_keys for k in extra):
                    # the real batch holds everything the model predicted plus more: the real clock was ahead of the
                    # model's tick (a loaded machine reaches the dispatch late and a timer of the next tick is already
                    # due) -- legal, and judged by the contract monitor with the measured timestamps
                    return "timing", i, (a[i], b[i])
            return "diverged", i, (a[i], b[i])
    if len(a) > len(b):
        return "diverged", n, (a[n], None)
    return "same", n, None
