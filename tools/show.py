#!/usr/bin/env python3
"""show.py <trace.ndjson> <scenario-id> [--snap]: print one scenario of a trace compactly, with line numbers."""
import json, sys
tr, sid = sys.argv[1], sys.argv[2]
snap = "--snap" in sys.argv
on = False
for i, line in enumerate(open(tr), 1):
    ev = json.loads(line)
    if ev["e"] == "reset":
        on = ev["id"] == sid
        if on:
            print(i, "RESET", json.dumps(ev["srcs"]))
        continue
    if not on:
        continue
    e = ev.pop("e")
    if e == "snap" and not snap:
        ev = {k: ev[k] for k in ("heap", "pending", "life") if k in ev}
        ev["occ"] = None
    print(i, e, " ".join("%s=%s" % (k, json.dumps(v, separators=(",", ":"))) for k, v in ev.items() if k not in ("us", "us0")))
