#!/usr/bin/env python3
"""Check driver:  ./check setup | ./check selftest | ./check <Cxx> quick|thorough [--replay <path>]

Every check (1) rebuilds the conformance harness against /repo's current working tree with
--cfg calloop_verif, (2) runs TLC on the bounded specification(s) of the property, (3) executes
scenarios (curated, random, and derived from TLC behaviours) on the real crate and (4) validates the
recorded traces with TLC against the contract monitors.  Exit 0 = property held on everything
explored; 1 = `VIOLATION property=<id> replay=<path>`; 2 = tool error / timeout (never a verdict).
"""
import collections
import fcntl
import hashlib
import json
import os
import random
import re
import shutil
import subprocess
import sys
import time

ROOT = os.path.dirname(os.path.dirname(os.path.abspath(__file__)))
SPEC = ROOT + "/spec"
HARNESS = ROOT + "/harness"
BIN = HARNESS + "/target/release"
sys.path.insert(0, ROOT + "/tools")

T0 = time.time()


class ToolError(Exception):
    pass


def log(*a):
    print("[check]", *a, file=sys.stderr, flush=True)


def sh(cmd, timeout=None, cwd=None, env=None, check=True):
    e = dict(os.environ)
    if env:
        e.update(env)
    try:
        p = subprocess.run(cmd, cwd=cwd, env=e, timeout=timeout, stdout=subprocess.PIPE, stderr=subprocess.STDOUT, text=True,
                           errors="replace")
    except subprocess.TimeoutExpired as ex:
        raise ToolError("timeout after %ss: %s\n%s" % (timeout, " ".join(cmd)[:200], (ex.stdout or "")[-2000:]))
    if check and p.returncode != 0:
        raise ToolError("command failed (%d): %s\n%s" % (p.returncode, " ".join(cmd)[:300], p.stdout[-4000:]))
    return p


# ----------------------------------------------------------------------------------------------- build
def build_harness():
    """cargo build (incremental) of the harness against /repo's current tree; serialised by a lock."""
    os.makedirs(ROOT + "/work", exist_ok=True)
    with open(ROOT + "/work/.build.lock", "w") as lk:
        fcntl.flock(lk, fcntl.LOCK_EX)
        env = {"CARGO_NET_OFFLINE": "true"}
        p = sh(["cargo", "build", "--release", "--offline"], cwd=HARNESS, timeout=1500, env=env, check=False)
        if p.returncode != 0:
            raise ToolError("harness build failed:\n" + p.stdout[-6000:])


# ------------------------------------------------------------------------------------------------- TLC
def tlc_env(extra=None):
    e = {"JAVA_TOOL_OPTIONS": "-Xss512m"}
    if extra:
        e.update(extra)
    return e


def parse_tlc_counts(out):
    m = re.findall(r"(\d+) states generated, (\d+) distinct states found", out)
    if not m:
        return 0, 0
    g, d = m[-1]
    return int(g), int(d)


def tlc_trace(spec, trace, work, timeout=900):
    """Run a trace specification over a recorded trace; returns (verdict dict, generated, distinct)."""
    meta = os.path.join(work, "meta_" + spec + "_" + hashlib.md5(trace.encode()).hexdigest()[:8])
    cmd = ["tlc", "-workers", "1", "-metadir", meta, "-cleanup", "-noGenerateSpecTE", "-config", spec + ".cfg", spec + ".tla"]
    try:
        p = sh(cmd, cwd=SPEC, env=tlc_env({"TRACE": trace}), timeout=timeout, check=False)
    finally:
        shutil.rmtree(meta, ignore_errors=True)
    out = p.stdout
    m = re.search(r'<<"VERDICT", "(.*)">>', out)
    if not m or "Model checking completed. No error has been found." not in out:
        raise ToolError("trace validation with %s did not complete:\n%s" % (spec, out[-5000:]))
    v = json.loads(json.loads('"' + m.group(1) + '"'))
    g, d = parse_tlc_counts(out)
    return v, g, d


def tlc_model(spec, cfg, work, workers=8, timeout=900, extra_args=None, env=None):
    """Model-check a bounded configuration. Returns dict(ok, out, generated, distinct, violated)."""
    meta = os.path.join(work, "meta_" + spec + "_" + os.path.basename(cfg))
    cmd = ["tlc", "-workers", str(workers), "-metadir", meta, "-cleanup", "-noGenerateSpecTE", "-config", cfg, spec + ".tla"]
    if extra_args:
        cmd += extra_args
    try:
        p = sh(cmd, cwd=SPEC, env=tlc_env(env), timeout=timeout, check=False)
    finally:
        # a TLC that is stopped by the time limit leaves its state queue on disk (tens of GB)
        shutil.rmtree(meta, ignore_errors=True)
    out = p.stdout
    g, d = parse_tlc_counts(out)
    ok = "Model checking completed. No error has been found." in out or "Finished in" in out and "Error:" not in out
    violated = re.findall(r"Error: Invariant (\w+) is violated", out) + re.findall(r"Error: Action property (\w+) is violated", out) \
        + re.findall(r"Error: Temporal properties were violated", out)
    if not ok and not violated:
        if workers != 1 and "TLC threw an unexpected exception" in out:
            # seen once in ~10^3 runs of a violating variant with several workers (an exception raised by a worker that
            # is still evaluating while another one reports the violation): repeat deterministically with one worker
            return tlc_model(spec, cfg, work, workers=1, timeout=timeout, extra_args=extra_args, env=env)
        raise ToolError("TLC failed on %s/%s:\n%s" % (spec, cfg, out[-5000:]))
    return {"ok": ok and not violated, "out": out, "generated": g, "distinct": d, "violated": violated}


# ------------------------------------------------------------------------------------- known findings
def load_known():
    p = ROOT + "/known_findings.json"
    if not os.path.exists(p):
        return []
    return json.load(open(p)).get("findings", [])


# --------------------------------------------------------------------------------------------- result
class Result:
    def __init__(self):
        self.viol = []          # dicts: prop, clause, scn, detail, replay
        self.states = 0
        self.transitions = 0
        self.traces = 0
        self.evaluations = 0
        self.nontrivial = set()
        self.samples = []
        self.notes = []
        self.known_hits = []
        self.cmds = []
        self.misuse = 0
        self.conform = [0, 0, 0]

    def merge(self, o):
        self.viol += o.viol
        self.states += o.states
        self.transitions += o.transitions
        self.traces += o.traces
        self.evaluations += o.evaluations
        self.nontrivial |= o.nontrivial
        self.samples += o.samples
        self.notes += o.notes
        self.known_hits += o.known_hits
        self.cmds += o.cmds
        self.misuse += o.misuse
        self.conform = [a + b for a, b in zip(self.conform, getattr(o, "conform", [0, 0, 0]))]


# ------------------------------------------------------------------------------------------ core engine
CORE_CLASSES = {
    "C01": ["reuse", "mix", "ready", "disable", "timers", "life"],
    "C03": ["pings", "pings", "disable"],
    "C04": ["chans", "chans", "mix"],
    "C10": ["streams", "execs", "execs", "mix"],
    "C12": ["timers", "timers", "mix", "chans"],
    "C02": ["ready", "fds", "mix", "timers"],
    "C05": ["timers", "mix"],
    "C06": ["reuse", "timers", "mix", "faults", "execs"],
    "C07": ["disable", "mix", "timers", "post", "execs"],
    "C08": ["mix", "idle", "reuse", "post", "execs", "timers"],
    "C09": ["post", "mix", "faults"],
    "C13": ["idle", "mix"],
    "C14": ["life", "faults", "mix"],
    "C15": ["faults", "post"],
    "C16": ["fds", "reuse", "faults", "ready"],
    "C20": ["fds", "ready"],
}


def split_trace(trace_path):
    """scenario id -> (first line, last line) in a trace file (1-based, inclusive)"""
    spans = collections.OrderedDict()
    cur = None
    with open(trace_path) as f:
        for i, line in enumerate(f, 1):
            if line.startswith('{"e":"reset"') or '"e":"reset"' in line[:40]:
                ev = json.loads(line)
                cur = ev["id"]
                spans[cur] = [i, i]
            elif cur is not None:
                spans[cur][1] = i
    return spans


def nontrivial_scenarios(trace_path):
    """ids of scenarios whose trace has at least one operation issued from inside a callback, an injected
    fault, or an erroring dispatch -- the rule for distinct_nontrivial"""
    out = set()
    cur = None
    with open(trace_path) as f:
        for line in f:
            if '"e":"reset"' in line:
                cur = json.loads(line)["id"]
            elif cur and ('"e":"op"' in line and '"ctx":0' not in line or '"inj":1' in line or '"r":"err"' in line):
                out.add(cur)
    return out


def write_replay(prop, scn_obj, trace_path, span, viols, work):
    os.makedirs(ROOT + "/replays", exist_ok=True)
    path = "%s/replays/%s_%s.json" % (ROOT, prop, re.sub(r"[^A-Za-z0-9_]", "_", str(scn_obj.get("id", "x"))))
    lines = []
    with open(trace_path) as f:
        for i, line in enumerate(f, 1):
            if span[0] <= i <= span[1]:
                lines.append(line.rstrip("\n"))
    json.dump({"property": prop, "engine": "core", "scenario": scn_obj, "violations": viols, "trace": lines,
               "trace_first_line": span[0]}, open(path, "w"), indent=0)
    return path


def run_core(prop, scenarios, work, tag):
    """execute scenarios on the real crate, validate the trace with TLC; returns Result"""
    res = Result()
    scn_path = os.path.join(work, tag + "_scn.ndjson")
    tr_path = os.path.join(work, tag + "_trace.ndjson")
    with open(scn_path, "w") as f:
        for s in scenarios:
            f.write(json.dumps(s) + "\n")
    p = sh([BIN + "/drive_core", scn_path, tr_path], timeout=1800, check=False)
    if p.returncode != 0:
        raise ToolError("drive_core failed (%d):\n%s" % (p.returncode, p.stdout[-3000:]))
    verdict, g, d = tlc_trace("LoopTrace", tr_path, work)
    res.cmds.append("drive_core %s && TRACE=%s tlc -config LoopTrace.cfg LoopTrace.tla" % (os.path.basename(scn_path), os.path.basename(tr_path)))
    res.states += d
    res.transitions += g
    res.traces += verdict["scenarios"]
    res.evaluations += len(scenarios)
    res.nontrivial |= nontrivial_scenarios(tr_path)
    res.misuse += verdict.get("misuse", 0)
    byid = {s["id"]: s for s in scenarios}
    spans = split_trace(tr_path)
    per_scn = collections.OrderedDict()
    for v in sorted(verdict["viol"], key=lambda v: v["l"]):
        per_scn.setdefault(v["scn"], []).append(v)
    for scn, vs in per_scn.items():
        mine = [v for v in vs if v["p"] == prop]
        others = sorted({v["p"] for v in vs if v["p"] != prop})
        if not mine:
            res.notes.append("scenario %s violates other properties: %s" % (scn, ",".join(others)))
            continue
        rp = write_replay(prop, byid.get(scn, {"id": scn}), tr_path, spans.get(scn, [1, 1]), vs, work)
        res.viol.append({"prop": prop, "scn": scn, "clauses": sorted({v["c"] for v in mine}), "replay": rp,
                         "first_line": mine[0]["l"] - spans.get(scn, [1, 1])[0]})
    for s in scenarios[:2]:
        res.samples.append({"engine": "core", "scenario": s})
    return res


def curated(prop):
    out = []
    p = ROOT + "/scenarios/core_curated.ndjson"
    if os.path.exists(p):
        for line in open(p):
            line = line.strip()
            if line:
                s = json.loads(line)
                if "props" not in s or prop in s["props"]:
                    out.append(s)
    return out


def engine_core(prop, tier, seed, work):
    import gen_core
    res = Result()
    n = 240 if tier == "quick" else 3000
    classes = CORE_CLASSES[prop]
    scns = curated(prop)
    batch = 600
    todo = gen_core.gen(seed, n, classes)
    res.merge(run_core(prop, scns + todo[:batch], work, "core0"))
    k = 1
    for i in range(batch, len(todo), batch):
        res.merge(run_core(prop, todo[i:i + batch], work, "core%d" % k))
        k += 1
    return res


# ------------------------------------------------------------------------------- LoopCore model engines
MODEL_CFGS = {
    "C03": ["reuse"], "C04": ["chan"], "C10": ["exec", "stream"], "C12": [],
    "C01": ["reuse", "edge"], "C02": ["edge", "post"], "C05": ["timers"], "C06": ["reuse", "post"],
    "C07": ["edge", "timers"], "C08": ["drop", "idle"], "C09": ["post", "life"], "C13": ["idle"],
    "C14": ["life", "synth"], "C15": ["faults", "life"], "C16": ["edge", "reuse"], "C20": [],
}


# simulation configurations, where they differ from the exhaustive ones (C12: the exhaustive run of the timers
# configuration belongs to C05 / C07; C12 replays its behaviours and has its own model, Timeout.tla)
SIM_CFGS = {"C12": ["timers"]}

# small configurations of which ALL behaviours are replayed on the real crate
MODEL_ENUMS = {
    "C01": ["reuse"], "C02": ["post"], "C03": [], "C04": ["chan"], "C05": ["timers"], "C06": ["reuse", "post", "lifeerr"], "C07": ["edge", "life"],
    "C08": ["drop"], "C09": ["life", "post"], "C10": ["exec", "stream"], "C12": ["timers"], "C13": ["idle"], "C14": ["life", "lifeerr"],
    "C15": ["faults", "lifeerr"], "C16": ["edge"],
}


def engine_model(prop, tier, seed, work):
    """exhaustive TLC run of LoopCore on the bounded configurations that exercise this property"""
    res = Result()
    for name in MODEL_CFGS[prop]:
        cfg = "mc/%s_%s.cfg" % ("q" if tier == "quick" else "t", name)
        budget = 240 if tier == "quick" else 1500
        workers = 8 if tier == "quick" else 16
        try:
            r = tlc_model("MCLoopCore", cfg, work, workers=workers, timeout=budget)
        except ToolError as e:
            if tier == "thorough" and "timeout" in str(e):
                res.notes.append("TLC on %s stopped by the time budget (%ds): bounded by time, not exhaustive" % (cfg, budget))
                m = re.findall(r"(\d[\d,]*) states generated .*? (\d[\d,]*) distinct states found", str(e))
                if m:
                    res.transitions += int(m[-1][0].replace(",", ""))
                    res.states += int(m[-1][1].replace(",", ""))
                continue
            raise
        res.states += r["distinct"]
        res.transitions += r["generated"]
        res.cmds.append("tlc -config %s MCLoopCore.tla" % cfg)
        if not r["ok"]:
            bad = [v for v in r["violated"]]
            cex = "%s/replays/%s_model_%s.txt" % (ROOT, prop, name)
            os.makedirs(ROOT + "/replays", exist_ok=True)
            open(cex, "w").write(r["out"][-200000:])
            if ("Inv_" + prop) in bad or any(not b.startswith("Inv_C") for b in bad):
                res.viol.append({"prop": prop, "scn": "model:" + cfg, "clauses": ["model:" + ",".join(bad)], "replay": cex, "first_line": 0})
            else:
                res.notes.append("model config %s violates %s (reported by that property's check)" % (cfg, bad))
    return res


def engine_sim(prop, tier, seed, work):
    """behaviours of LoopCore (TLC simulation mode) replayed on the real crate: the recorded trace is validated by the
    contract monitor and compared, event by event, with what the model predicted"""
    import model_scn
    res = Result()
    n = 30 if tier == "quick" else 600
    todo = [("sim", x) for x in SIM_CFGS.get(prop, MODEL_CFGS[prop])] + [("enum", x) for x in MODEL_ENUMS.get(prop, [])]
    for mode, name in todo:
        cfg = "mc/%s_%s.cfg" % (mode, name)
        meta = os.path.join(work, "simmeta_" + name)
        if mode == "sim":
            cmd = ["tlc", "-workers", "4", "-simulate", "num=%d" % n, "-depth", "250", "-seed", str(seed), "-metadir", meta,
                   "-cleanup", "-noGenerateSpecTE", "-config", cfg, "MCLoopCore.tla"]
        else:
            # breadth-first with the history in the state: TLC prints EVERY complete behaviour of the small configuration
            cmd = ["tlc", "-workers", "8", "-metadir", meta, "-cleanup", "-noGenerateSpecTE", "-config", cfg, "MCLoopCore.tla"]
            name = "enum_" + name
        try:
            p = sh(cmd, cwd=SPEC, env=tlc_env(), timeout=900, check=False)
        finally:
            shutil.rmtree(meta, ignore_errors=True)
        if "Error:" in p.stdout and "is violated" in p.stdout:
            cex = "%s/replays/%s_sim_%s.txt" % (ROOT, prop, name)
            os.makedirs(ROOT + "/replays", exist_ok=True)
            open(cex, "w").write(p.stdout[-200000:])
            bad = re.findall(r"Invariant (\w+) is violated", p.stdout)
            if ("Inv_" + prop) in bad:
                res.viol.append({"prop": prop, "scn": "model-sim:" + cfg, "clauses": ["model:" + ",".join(bad)], "replay": cex, "first_line": 0})
        seen, scns, preds = set(), [], {}
        for hist in model_scn.parse_hist_lines(p.stdout):
            key = hashlib.md5(json.dumps(hist, sort_keys=True).encode()).hexdigest()
            if key in seen:
                continue
            seen.add(key)
            sid = "m_%s_%d" % (name, len(scns))
            scns.append(model_scn.hist_to_scenario(hist, sid))
            preds[sid] = hist
        if not scns:
            raise ToolError("no behaviour extracted from TLC simulation of %s:\n%s" % (cfg, p.stdout[-2000:]))
        total = len(scns)
        cap = 500 if tier == "quick" else 6000
        if mode == "enum" and total > cap:
            keep = set(random.Random(seed).sample(range(total), cap))
            scns = [x for i, x in enumerate(scns) if i in keep]
            preds = {x["id"]: preds[x["id"]] for x in scns}
        if mode == "enum":
            res.notes.append("enumeration %s: %d complete behaviours of the model, %d replayed on the real crate" % (cfg, total, len(scns)))
        m = re.search(r"The number of states generated: (\d+)", p.stdout)
        if m:
            res.transitions += int(m.group(1))
            res.states += int(m.group(1))
        res.cmds.append("tlc %s -config %s MCLoopCore.tla | model_scn -> drive_core -> LoopTrace" % ("-simulate num=%d" % n if mode == "sim" else "(BFS, all behaviours)", cfg))
        r = run_core(prop, scns, work, "sim_" + name)
        res.merge(r)
        # conformance: predicted events vs. recorded events
        real = collections.OrderedDict()
        cur = None
        for line in open(os.path.join(work, "sim_" + name + "_trace.ndjson")):
            ev = json.loads(line)
            if ev["e"] == "reset":
                cur = ev["id"]
                real[cur] = []
            if cur:
                real[cur].append(ev)
        same = order = div = 0
        for sid, hist in preds.items():
            verdict, idx, detail = model_scn.compare(hist, real.get(sid, []), model_scn.timer_keys_of(hist))
            if verdict == "same":
                same += 1
            elif verdict in ("order", "timing"):
                order += 1
            else:
                div += 1
                if div <= 3:
                    res.notes.append("DRIFT %s at projected event %d: model %s / real %s" % (sid, idx, detail[0], detail[1]))
        res.notes.append("model conformance (%s): %d behaviours reproduced event-for-event, %d differ only in kernel batch order / a timer already due on the real clock, %d diverge" % (name, same, order, div))
        res.conform = getattr(res, "conform", [0, 0, 0])
        res.conform = [res.conform[0] + same, res.conform[1] + order, res.conform[2] + div]
        if div:
            print("DRIFT: %d of %d model behaviours (%s) are not reproduced event-for-event by the implementation" % (div, len(preds), name))
    return res


# ------------------------------------------------------------------------------ Apalache supplement (slot list)
SLOTLIST_RUNS = [
    ("A: the inductive invariant holds initially", ["--length=0", "--init=Init", "--inv=IndInv"], "ok"),
    ("B: the invariant is inductive under insert / remove (16-bit versions, unbounded history)", ["--length=1", "--init=IndInit", "--inv=IndInv"], "ok"),
    ("C: the invariant implies: a live token is accepted, a removed one only after a positive multiple of 65536 re-uses of its slot",
     ["--length=0", "--init=IndInit", "--inv=Safe"], "ok"),
    ("D (non-vacuity): a list that re-uses a slot without incrementing the version breaks the invariant",
     ["--length=1", "--init=IndInit", "--inv=IndInv", "--next=NextNoBump"], "violated"),
]


def engine_slotlist(prop, tier, seed, work):
    """SUPPLEMENT (TLC on LoopCore stays the checker of record): the slot / generation rule of list.rs at its real
    width, for histories of any length, by Apalache with an inductive invariant (spec/SlotListApalache.tla)"""
    res = Result()
    if not shutil.which("apalache-mc"):
        res.notes.append("Apalache supplement (SlotListApalache): apalache-mc not available, skipped")
        return res
    for desc, args, want in SLOTLIST_RUNS:
        out_dir = os.path.join(work, "apalache_out")
        try:
            p = sh(["apalache-mc", "check", "--out-dir=" + out_dir] + args + ["SlotListApalache.tla"], cwd=SPEC, timeout=240, check=False)
            out = p.stdout
        except ToolError as e:
            out = str(e)
        finally:
            shutil.rmtree(out_dir, ignore_errors=True)
        ok = "The outcome is: NoError" in out and "EXITCODE: OK" in out
        bad = "The outcome is: Error" in out
        res.cmds.append("apalache-mc check %s SlotListApalache.tla" % " ".join(args))
        if want == "ok" and ok:
            res.notes.append("Apalache supplement %s: holds (SMT, unbounded integers)" % desc)
        elif want == "violated" and bad:
            res.notes.append("Apalache supplement %s: violated, as it must be" % desc)
        elif want == "ok" and bad:
            cex = "%s/replays/%s_apalache_slotlist.txt" % (ROOT, prop)
            os.makedirs(ROOT + "/replays", exist_ok=True)
            open(cex, "w").write(out[-100000:])
            res.viol.append({"prop": prop, "scn": "model:apalache", "clauses": ["model:apalache:" + args[2]], "replay": cex, "first_line": 0})
        else:
            res.notes.append("Apalache supplement %s: inconclusive (TLC results are unaffected)" % desc)
    return res


# ------------------------------------------------------------------------------ Timer inside a forwarding composite
def engine_tping(prop, tier, seed, work):
    """spec/TimerPing.tla (a user composite [PingSource, Timer] that forwards every event to both sub-sources): TLC on the
    model and on its wrong variant, then runs of the real crate (drive_tping) judged by TimerPingTrace.tla"""
    res = Result()
    r = tlc_model("TimerPing", "mc/tping_q.cfg", work, workers=2, timeout=120)
    res.states += r["distinct"]
    res.transitions += r["generated"]
    res.cmds.append("tlc -config mc/tping_q.cfg TimerPing.tla")
    if not r["ok"]:
        cex = "%s/replays/%s_model_tping.txt" % (ROOT, prop)
        os.makedirs(ROOT + "/replays", exist_ok=True)
        open(cex, "w").write(r["out"][-100000:])
        res.viol.append({"prop": prop, "scn": "model:tping_q", "clauses": ["model:" + ",".join(r["violated"])], "replay": cex, "first_line": 0})
    v = tlc_model("TimerPing", "mc/tping_var.cfg", work, workers=2, timeout=120)
    if v["ok"]:
        raise ToolError("variant no_token_check of TimerPing.tla is not flagged by TLC")
    res.notes.append("TimerPing.tla: %d distinct states, invariants hold; variant no_token_check flagged (%s)" % (r["distinct"], ",".join(v["violated"])))
    rnd = random.Random(seed * 31 + 7)
    scns = []
    for i in range(12 if tier == "quick" else 120):
        rounds = rnd.choice([2, 3, 4])
        script = ["ping"] if rnd.random() < 0.7 else []
        script.append("dispatch0")
        for _ in range(rounds + 1):
            if rnd.random() < 0.4:
                script.append("ping")
            script.append("dispatch")
        script.append("dispatch0")
        scns.append({"id": "tp%d_%d" % (seed, i), "resched_ms": rnd.choice([2, 4, 7]), "rounds": rounds, "script": script})
    sp = os.path.join(work, "tping_scn.ndjson")
    tr = os.path.join(work, "tping_trace.ndjson")
    with open(sp, "w") as f:
        for s in scns:
            f.write(json.dumps(s) + "\n")
    sh([BIN + "/drive_tping", sp, tr], timeout=600)
    verdict, _, _ = tlc_trace("TimerPingTrace", tr, work)
    res.traces += verdict["scenarios"]
    res.evaluations += len(scns)
    res.nontrivial |= {s["id"] for s in scns}
    res.cmds.append("drive_tping tping_scn.ndjson tping_trace.ndjson && TRACE=tping_trace.ndjson tlc -config TimerPingTrace.cfg TimerPingTrace.tla")
    byid = {s["id"]: s for s in scns}
    per = collections.OrderedDict()
    for x in verdict["viol"]:
        if x["p"] == prop:
            per.setdefault(x["scn"], []).append(x)
    for scn, vs in per.items():
        rp = "%s/replays/%s_%s.json" % (ROOT, prop, scn)
        os.makedirs(ROOT + "/replays", exist_ok=True)
        json.dump({"property": prop, "engine": "tping", "scenario": byid.get(scn, {"id": scn}), "violations": vs}, open(rp, "w"), indent=0)
        res.viol.append({"prop": prop, "scn": scn, "clauses": sorted({x["c"] for x in vs}), "replay": rp, "first_line": vs[0]["l"]})
    res.samples.append({"engine": "tping", "scenario": scns[0]})
    return res


# ------------------------------------------------------------------------------ free-running channel race
def engine_hammer(prop, tier, seed, work):
    """many short free-running rounds of a sender thread against the spinning loop thread (drive_hammer); the summary is
    judged by ChanHammerTrace.tla.  Aims at windows between library steps that have no yield point in between."""
    res = Result()
    n = 300000 if tier == "quick" else 2000000
    nd = 20000 if tier == "quick" else 200000
    chan = [{"id": "hm%d_unb" % seed, "kind": "chan", "rounds": n, "bound": -1}, {"id": "hm%d_b2" % seed, "kind": "chan", "rounds": n // 4, "bound": 2},
            {"id": "hm%d_b1" % seed, "kind": "chan", "rounds": n // 4, "bound": 1}, {"id": "hm%d_chandrop" % seed, "kind": "chandrop", "rounds": nd}]
    ping = [{"id": "hm%d_ping" % seed, "kind": "ping", "rounds": n}, {"id": "hm%d_pingdrop" % seed, "kind": "pingdrop", "rounds": nd}]
    exe = [{"id": "hm%d_exec" % seed, "kind": "exec", "rounds": n, "spin": 400}, {"id": "hm%d_exec_far" % seed, "kind": "exec", "rounds": n // 2, "spin": 2000}]
    wk = [{"id": "hm%d_wakeup" % seed, "kind": "wakeup", "rounds": n // 4}]
    scns = {"C04": chan, "C03": ping, "C10": exe, "C02": chan[:1] + ping[:1] + exe[:1], "C11": wk}[prop]
    sp, tr = os.path.join(work, "hammer_scn.ndjson"), os.path.join(work, "hammer_trace.ndjson")
    with open(sp, "w") as f:
        for s in scns:
            f.write(json.dumps(s) + "\n")
    sh([BIN + "/drive_hammer", sp, tr], timeout=900)
    verdict, _, _ = tlc_trace("ChanHammerTrace", tr, work)
    res.traces += verdict["scenarios"]
    res.evaluations += len(scns)
    res.nontrivial |= {s["id"] for s in scns}
    res.cmds.append("drive_hammer hammer_scn.ndjson hammer_trace.ndjson && TRACE=hammer_trace.ndjson tlc -config ChanHammerTrace.cfg ChanHammerTrace.tla")
    res.notes.append("free-running race (%s): %d rounds of send/ping/wake from a second thread against a spinning loop; after the call has returned one more dispatch must deliver"
                     % (", ".join(sorted({s["kind"] for s in scns})), sum(s["rounds"] for s in scns)))
    byid = {s["id"]: s for s in scns}
    per = collections.OrderedDict()
    for x in verdict["viol"]:
        if x["p"] == prop:
            per.setdefault(x["scn"], []).append(x)
    for scn, vs in per.items():
        rp = "%s/replays/%s_%s.json" % (ROOT, prop, scn)
        os.makedirs(ROOT + "/replays", exist_ok=True)
        json.dump({"property": prop, "engine": "hammer", "scenario": byid.get(scn, {"id": scn}), "violations": vs,
                   "trace": open(tr).read().splitlines()}, open(rp, "w"), indent=0)
        res.viol.append({"prop": prop, "scn": scn, "clauses": sorted({x["c"] for x in vs}), "replay": rp, "first_line": vs[0]["l"]})
    return res


# ------------------------------------------------------------------------------ concurrent protocol engines
CONC_KINDS = {"C02": ["chan"], "C03": ["ping"], "C04": ["chan"], "C10": ["exec"], "C11": ["signal", "blockon"]}
# properties that only run the generated schedules of a kind (its protocol model belongs to another property)
CONC_LIGHT = {"C02"}


def conc_nontrivial(trace_path):
    """scenarios with at least one context switch between two different threads inside an operation"""
    out, cur, last = set(), None, None
    with open(trace_path) as f:
        for line in f:
            if '"e":"reset"' in line:
                cur, last = json.loads(line)["id"], None
            elif '"e":"g"' in line and cur:
                t = json.loads(line)["t"]
                if last is not None and t != last:
                    out.add(cur)
                last = t
    return out


def run_conc(prop, scenarios, work, tag):
    res = Result()
    scn_path = os.path.join(work, tag + "_scn.ndjson")
    tr_path = os.path.join(work, tag + "_trace.ndjson")
    with open(scn_path, "w") as f:
        for s in scenarios:
            f.write(json.dumps(s) + "\n")
    p = sh([BIN + "/drive_sched", scn_path, tr_path], timeout=2400, check=False)
    if p.returncode != 0:
        raise ToolError("drive_sched failed (%d):\n%s" % (p.returncode, p.stdout[-3000:]))
    verdict, g, d = tlc_trace("ConcTrace", tr_path, work)
    res.cmds.append("drive_sched %s && TRACE=%s tlc -config ConcTrace.cfg ConcTrace.tla" % (os.path.basename(scn_path), os.path.basename(tr_path)))
    res.states += d
    res.transitions += g
    res.traces += verdict["scenarios"]
    res.evaluations += len(scenarios)
    res.nontrivial |= conc_nontrivial(tr_path)
    byid = {s["id"]: s for s in scenarios}
    spans = split_trace(tr_path)
    per = collections.OrderedDict()
    for v in sorted(verdict["viol"], key=lambda v: v["l"]):
        per.setdefault(v["scn"], []).append(v)
    for scn, vs in per.items():
        mine = [v for v in vs if v["p"] == prop]
        if not mine:
            res.notes.append("scenario %s violates other properties: %s" % (scn, ",".join(sorted({v["p"] for v in vs}))))
            continue
        rp = write_replay(prop, byid.get(scn, {"id": scn}), tr_path, spans.get(scn, [1, 1]), vs, work)
        rpj = json.load(open(rp))
        rpj["engine"] = "conc"
        json.dump(rpj, open(rp, "w"))
        res.viol.append({"prop": prop, "scn": scn, "clauses": sorted({v["c"] for v in mine}), "replay": rp,
                         "first_line": mine[0]["l"] - spans.get(scn, [1, 1])[0]})
    for s in scenarios[:2]:
        res.samples.append({"engine": "conc", "scenario": s})
    return res


# protocol models: kind -> (MC module, exhaustive cfgs quick, exhaustive cfgs thorough, simulation cfgs, variant cfgs)
CONC_MODELS = {
    "exec": ("MCExecProto", ["exec_q1", "exec_q2", "exec_q3", "exec_q4"], ["exec_t1"], ["exec_enum1", "exec_sim1", "exec_sim2"],
             ["exec_var_swap"]),
    "signal": ("MCSignalProto", ["sig_q1", "sig_q2", "sig_q6"], [], ["sig_enum3", "sig_sim1"], ["sig_var_coalesce"]),
    "blockon": ("MCSignalProto", ["sig_q3", "sig_q4", "sig_q5", "sig_q7", "sig_q8"], [], ["sig_enum1", "sig_enum2", "sig_enum5", "sig_enum6", "sig_sim3"],
                ["sig_var_swap", "sig_var_notify", "sig_var_pollstop"]),
    "chan": ("MCChanProto", ["chan_q1", "chan_q2", "chan_q3", "chan_q4"], ["chan_t1", "chan_t2", "chan_t3"], ["chan_enum1", "chan_sim1", "chan_sim2"],
             ["chan_var_wake", "chan_var_rearm", "chan_var_droporder", "chan_kf_rendezvous"]),
    "ping": ("MCPingProto", ["ping_q1", "ping_q2", "ping_q3"], ["ping_t1", "ping_t2"], ["ping_enum1", "ping_sim"],
             ["ping_var_noreset", "ping_var_close", "ping_var_marker"]),
}


def conc_project(events):
    out = []
    over = False
    for ev in events:
        e = ev.get("e")
        if e == "loop_done":
            over = True      # what is dropped at teardown (pending futures) is not part of the protocol
        if over and e == "fdrop":
            continue
        if e == "y" and ev.get("l") != "start":
            out.append(("y", ev["t"], ev["l"]))
        elif e == "call":
            out.append(("call", ev["t"], ev["n"], ev["op"]))
        elif e == "ret":
            out.append(("ret", ev["t"], ev["n"], ev["op"], ev["r"]))
        elif e == "lcall":
            out.append(("lcall", ev["op"], ev["k"]))
        elif e == "lret":
            out.append(("lret", ev["op"], ev["k"], ev["r"], ev.get("occupied", -1)))
        elif e == "cb":
            out.append(("cb", ev["p"]))
        elif e in ("poll",):
            out.append(("poll", ev["f"], ev["woken"]))
        elif e == "fdrop":
            out.append(("fdrop", ev["f"]))
        elif e == "iter":
            out.append(("iter",))
        elif e == "end":
            out.append(("end", ev.get("stuck", 0)))
    return out


def model_schedules(kind, prop, tier, seed, work, res):
    """behaviours (schedules) of the protocol model -> scenarios for drive_sched, with the events the model predicts"""
    mod, _, _, sims, _ = CONC_MODELS[kind]
    scns, preds = [], {}
    n = (12 if kind in ("signal", "blockon") else 60) if tier == "quick" else 1500
    import random as _random
    for cfg in sims:
        if tier == "quick" and cfg in ("chan_enum1",):
            continue        # 4*10^5 states to enumerate: thorough tier only
        meta = os.path.join(work, "simmeta_" + cfg)
        enum = "_enum" in cfg
        if enum:
            # breadth-first run with the history in the state: every complete behaviour is printed exactly once
            cmd = ["tlc", "-workers", "4", "-metadir", meta, "-cleanup", "-noGenerateSpecTE", "-config", "mc/%s.cfg" % cfg, mod + ".tla"]
        else:
            cmd = ["tlc", "-workers", "4", "-simulate", "num=%d" % n, "-depth", "400", "-seed", str(seed), "-metadir", meta,
                   "-cleanup", "-noGenerateSpecTE", "-config", "mc/%s.cfg" % cfg, mod + ".tla"]
        try:
            p = sh(cmd, cwd=SPEC, env=tlc_env(), timeout=900, check=False)
        finally:
            shutil.rmtree(meta, ignore_errors=True)
        if "is violated" in p.stdout:
            cex = "%s/replays/%s_sim_%s.txt" % (ROOT, prop, cfg)
            os.makedirs(ROOT + "/replays", exist_ok=True)
            open(cex, "w").write(p.stdout[-200000:])
            res.viol.append({"prop": prop, "scn": "model-sim:" + cfg, "clauses": ["model:" + ",".join(re.findall(r"Invariant (\w+) is violated", p.stdout))],
                             "replay": cex, "first_line": 0})
        seen = set()
        found = list(re.finditer(r'<<"SCHED", "(.*)">>', p.stdout))
        if enum:
            cap = (90 if kind in ("signal", "blockon") else 350) if tier == "quick" else 6000
            res.notes.append("%s: %d complete behaviours enumerated by TLC, %s replayed" % (cfg, len(found), "all" if len(found) <= cap else "%d (seeded sample)" % cap))
            if len(found) > cap:
                found = _random.Random(seed).sample(found, cap)
            mg = parse_tlc_counts(p.stdout)
            res.states += mg[1]
            res.transitions += mg[0]
        for m in found:
            try:
                b = json.loads(json.loads('"' + m.group(1) + '"'))
            except Exception:
                continue
            key = json.dumps(b["sched"]) + json.dumps(b["scripts"])
            if key in seen:
                continue
            seen.add(key)
            sid = "ms_%s_%d" % (cfg, len(scns))
            scripts = b["scripts"]
            threads = {str(i + 1): scripts[i] for i in range(len(scripts))}
            scn = {"id": sid, "kind": kind, "threads": threads, "loop": ["dispatch"] * b["ndisp"],
                   "schedule": b["sched"][:-1], "from_model": 1, "idle_ms": 4}
            if "needs" in b:
                scn["kind"] = "exec"
                scn["threads"] = {t: [{"op": "wake", "f": f} for f in ops] for t, ops in threads.items()}
                scn["loop"] = [{"op": "schedule", "f": i, "need": nd} for i, nd in enumerate(b["needs"])] + ["dispatch"] * b["ndisp"]
            if b.get("mode") == "run":
                scn["kind"], scn["loop"] = "signal", ["run"]
            elif b.get("mode") == "blockon":
                scn["kind"], scn["loop"] = "blockon", [{"op": "block_on", "need": b["need"]}]
                scn["threads"] = {t: [{"op": "wake", "f": 0} if o == "wake" else o for o in ops] for t, ops in threads.items()}
            for k in ("cap", "limit"):
                if k in b and b[k] not in (None, -1):
                    scn[k] = b[k]
            scns.append(scn)
            # a blocked thread is woken by another thread, not by the scheduler: the global order of its next
            # events is not determined by the schedule -> such behaviours are compared per thread
            preds[sid] = (b["hist"], bool(b.get("blocked")))
        mm = re.search(r"The number of states generated: (\d+)", p.stdout)
        if mm:
            res.states += int(mm.group(1))
            res.transitions += int(mm.group(1))
        res.cmds.append("tlc -simulate num=%d -config mc/%s.cfg %s.tla -> drive_sched -> ConcTrace" % (n, cfg, mod))
    return scns, preds


def scn_from_model(kind, sid, b, schedule):
    scripts = b["scripts"]
    threads = {str(i + 1): scripts[i] for i in range(len(scripts))}
    scn = {"id": sid, "kind": kind, "threads": threads, "loop": ["dispatch"] * b.get("ndisp", 0),
           "schedule": schedule, "from_model": 1, "idle_ms": 4}
    if sid.startswith("att_"):
        scn["final_dispatches"] = 12     # run to quiescence whatever the cut-off schedule left pending
    for k in ("cap", "limit"):
        if k in b and b[k] not in (None, -1):
            scn[k] = b[k]
    if "needs" in b:
        scn["kind"] = "exec"
        scn["threads"] = {t: [{"op": "wake", "f": f} for f in ops] for t, ops in threads.items()}
        scn["loop"] = [{"op": "schedule", "f": i, "need": nd} for i, nd in enumerate(b["needs"])] + ["dispatch"] * b["ndisp"]
    if b.get("mode") == "run":
        scn["kind"], scn["loop"] = "signal", ["run"]
    elif b.get("mode") == "blockon":
        scn["kind"], scn["loop"] = "blockon", [{"op": "block_on", "need": b["need"]}]
        scn["threads"] = {t: [{"op": "wake", "f": 0} if o == "wake" else o for o in ops] for t, ops in threads.items()}
    return scn


def attack_schedules(kind, work, res):
    """For every deliberately wrong variant of the protocol model TLC finds the shortest schedule that breaks the
    property in *that* variant; the schedule is then replayed on the real crate, which must survive it."""
    mod, _, _, _, variants = CONC_MODELS[kind]
    out = []
    for v in variants:
        cfg = v.replace("_var_", "_att_").replace("_kf_", "_att_")
        if not os.path.exists("%s/mc/%s.cfg" % (SPEC, cfg)):
            continue
        r = tlc_model(mod, "mc/%s.cfg" % cfg, work, workers=1, timeout=300)
        if r["ok"]:
            raise ToolError("variant %s is not flagged by TLC: the invariants are vacuous for it" % cfg)
        m = re.search(r'<<"CFG", "(.*)">>', r["out"])
        sch = re.findall(r"/\\ sched = <<([0-9,\s]*)>>", r["out"])
        if not m or not sch:
            continue
        b = json.loads(json.loads('"' + m.group(1) + '"'))
        schedule = [int(x) for x in sch[-1].split(",") if x.strip()]
        if schedule and schedule[-1] == 0:
            schedule = schedule[:-1]     # the final, un-interleaved phase is run by the harness itself
        out.append(scn_from_model(kind, "att_%s" % cfg, b, schedule))
        res.states += r["distinct"]
        res.transitions += r["generated"]
        res.notes.append("variant %s: TLC counterexample schedule of length %d replayed on the real crate" % (v, len(schedule)))
    return out


def conc_conformance(preds, trace_path, res, label):
    real, cur = {}, None
    for line in open(trace_path):
        ev = json.loads(line)
        if ev["e"] == "reset":
            cur = ev["id"]
            real[cur] = []
        if cur:
            real[cur].append(ev)
    same = div = 0
    def per_thread(seq):
        out = {}
        for x in seq:
            t = x[1] if x[0] in ("y", "call", "ret") else 0
            out.setdefault(t, []).append(x)
        return out
    for sid, (hist, blocked) in preds.items():
        a, b = conc_project(hist), conc_project(real.get(sid, []))
        if a == b or (blocked and per_thread(a) == per_thread(b)):
            same += 1
        else:
            div += 1
            i = next((k for k in range(min(len(a), len(b))) if a[k] != b[k]), min(len(a), len(b)))
            if div <= 3:
                res.notes.append("DRIFT %s at projected event %d: model %s / real %s" % (
                    sid, i, a[i] if i < len(a) else None, b[i] if i < len(b) else None))
    res.conform = [res.conform[0] + same, res.conform[1], res.conform[2] + div]
    res.notes.append("protocol-model conformance (%s): %d schedules reproduced event-for-event on real threads, %d diverge" % (label, same, div))
    if div:
        print("DRIFT: %d of %d schedules of the %s protocol model are not reproduced event-for-event" % (div, len(preds), label))


def engine_conc(prop, tier, seed, work):
    import gen_sched
    res = Result()
    for kind in CONC_KINDS[prop]:
        if kind in CONC_MODELS and prop not in CONC_LIGHT:
            mod, quick, thorough, sims, variants = CONC_MODELS[kind]
            for cfg in (quick if tier == "quick" else quick + thorough):
                r = tlc_model(mod, "mc/%s.cfg" % cfg, work, workers=8 if tier == "quick" else 16, timeout=300 if tier == "quick" else 1500)
                res.states += r["distinct"]
                res.transitions += r["generated"]
                res.cmds.append("tlc -config mc/%s.cfg %s.tla" % (cfg, mod))
                if not r["ok"]:
                    cex = "%s/replays/%s_model_%s.txt" % (ROOT, prop, cfg)
                    os.makedirs(ROOT + "/replays", exist_ok=True)
                    open(cex, "w").write(r["out"][-200000:])
                    res.viol.append({"prop": prop, "scn": "model:" + cfg, "clauses": ["model:" + ",".join(r["violated"])], "replay": cex, "first_line": 0})
            if tier == "thorough":
                for cfg in variants:
                    r = tlc_model(mod, "mc/%s.cfg" % cfg, work, workers=8, timeout=300)
                    if r["ok"]:
                        raise ToolError("variant %s is not flagged by TLC: the invariants are vacuous for it" % cfg)
                    res.notes.append("variant %s flagged by TLC (%s)" % (cfg, ",".join(r["violated"])))
            scns, preds = model_schedules(kind, prop, tier, seed, work, res)
            scns = attack_schedules(kind, work, res) + scns
            if scns:
                r = run_conc(prop, scns, work, "concm_" + kind)
                res.merge(r)
                conc_conformance(preds, os.path.join(work, "concm_" + kind + "_trace.ndjson"), res, kind)
        n = {"ping": 150, "chan": 120, "exec": 150, "signal": 15, "blockon": 20}[kind]
        if tier == "thorough":
            n *= 12
        scns = gen_sched.gen(seed, n, kind)
        for i in range(0, len(scns), 400):
            res.merge(run_conc(prop, scns[i:i + 400], work, "conc_%s_%d" % (kind, i // 400)))
    return res


# ------------------------------------------------------------------------------------------- evidence
def write_evidence(prop, tier, seed, res, level, extra_assumptions=None):
    os.makedirs(ROOT + "/evidence", exist_ok=True)
    cov = {
        "states": max(res.states, 0),
        "transitions": max(res.transitions, 0),
        "traces_validated_against_impl": res.traces,
        "samples": res.samples[:4] if res.samples else [{"note": "no sample"}],
        "evaluations": res.evaluations,
        "distinct_nontrivial": len(res.nontrivial),
        "rule": "a case is one scenario / schedule executed on the real crate; distinct by generated id and content; "
                "non-trivial = its trace contains an operation issued from inside a callback, an injected fault, an error "
                "result or a context switch between threads",
        "checker_cmd": "; ".join(res.cmds[:6]),
        "notes": res.notes[:20],
        "known_findings_hit": res.known_hits,
        "scenarios_outside_contract": res.misuse,
        "model_behaviours_replayed": {"event_for_event": res.conform[0], "batch_order_differs": res.conform[1], "diverged": res.conform[2]},
    }
    ev = {
        "property_id": prop, "tier": tier, "seed": seed, "level": level, "coverage": cov,
        "assumptions": (extra_assumptions or []) + [
            "Linux epoll/eventfd/signalfd, std::sync::mpsc, polling and async-task behave as their documented contracts",
            "bounded exploration: TLC is exhaustive only for the constants of the .cfg files; real executions are a sample",
        ],
        "wall_s": round(time.time() - T0, 2),
        "violations": len(res.viol),
    }
    json.dump(ev, open("%s/evidence/%s.json" % (ROOT, prop), "w"), indent=1)


ENGINES = {}
for _p in CORE_CLASSES:
    ENGINES.setdefault(_p, []).extend([engine_model, engine_sim, engine_core])
for _p in CONC_KINDS:
    ENGINES.setdefault(_p, []).append(engine_conc)
ENGINES["C06"].append(engine_slotlist)
for _p in ("C01", "C05", "C12"):
    ENGINES[_p].append(engine_tping)
for _p in ("C04", "C02", "C03", "C10", "C11"):
    ENGINES[_p].append(engine_hammer)


# engines that live in their own module tools/engine_<name>.py (loaded lazily: they import this module)
ENGINE_MODULES = {
    "C12": ["engine_timeout"],
    "C15": ["engine_asyncio:engine_c15"],
    "C16": ["engine_asyncio:engine_c16"],
    "C17": ["engine_asyncio"],
    "C18": ["engine_transient"],
    "C19": ["engine_signals"],
    "C20": ["engine_token"],
}


def engines_for(prop):
    import importlib
    out = list(ENGINES.get(prop, []))
    for name in ENGINE_MODULES.get(prop, []):
        fn = "engine"
        if ":" in name:
            name, fn = name.split(":")
        if os.path.exists("%s/tools/%s.py" % (ROOT, name)):
            out.append(getattr(importlib.import_module(name), fn))
    return out


def demote_conformance_only(prop, res):
    """A scenario whose ONLY clauses are Mismatch_* says: the implementation no longer behaves like the model, but no
    clause of the property is violated in it.  That is drift (reported, recorded in the evidence), not a verdict: a
    behaviour-preserving-for-the-property change of the crate must not raise an alarm."""
    keep = []
    for v in res.viol:
        if v["clauses"] and all(c.startswith("Mismatch_") for c in v["clauses"]):
            res.notes.append("DRIFT (conformance only, no property clause): scenario %s: %s" % (v["scn"], ",".join(v["clauses"])))
            print("DRIFT: scenario %s differs from the model (%s) without violating a clause of %s" % (v["scn"], ",".join(v["clauses"]), prop))
        else:
            keep.append(v)
    res.viol = keep


def apply_known(prop, res):
    """Downgrade violations that match an *open* known finding (by property + clause + scenario signature)."""
    known = [k for k in load_known() if k.get("property") == prop and k.get("status") == "open"]
    keep = []
    for v in res.viol:
        hit = None
        for k in known:
            if set(v["clauses"]) <= set(k.get("clauses", [])):
                hit = k
                break
        if hit:
            res.known_hits.append({"id": hit["id"], "scn": v["scn"]})
        else:
            keep.append(v)
    res.viol = keep
    printed = set()
    for h in res.known_hits:
        if h["id"] not in printed:
            printed.add(h["id"])
            k = next(x for x in known if x["id"] == h["id"])
            print("KNOWN-FINDING: property=%s %s" % (prop, k["what"]))


def main():
    args = sys.argv[1:]
    if not args:
        print(__doc__)
        return 2
    if args[0] == "setup":
        build_harness()
        for f in sorted(os.listdir(SPEC)):
            if f.endswith(".tla"):
                p = sh(["tla-sany", f], cwd=SPEC, timeout=300, check=False)
                if "Semantic errors" in p.stdout or "***Parse Error***" in p.stdout or p.returncode != 0:
                    raise ToolError("SANY rejects %s:\n%s" % (f, p.stdout[-3000:]))
        print("setup ok")
        return 0
    if args[0] == "selftest":
        import selftest
        return selftest.main()
    prop = args[0]
    tier = args[1] if len(args) > 1 and args[1] in ("quick", "thorough") else os.environ.get("VERIF_TIER", "quick")
    seed = int(os.environ.get("VERIF_SEED", "1"))
    if not engines_for(prop):
        print("no check registered for", prop)
        return 2
    work = "%s/work/%s_%s_%d" % (ROOT, prop, tier, os.getpid())
    shutil.rmtree(work, ignore_errors=True)
    os.makedirs(work)
    try:
        build_harness()
        res = Result()
        if "--replay" in args:
            rp = json.load(open(args[args.index("--replay") + 1]))
            if rp.get("engine") == "conc":
                res.merge(run_conc(prop, [rp["scenario"]], work, "replay"))
            elif rp.get("engine") in ("transient", "signals", "token", "asyncio", "timeout"):
                import importlib
                fn = importlib.import_module("engine_" + rp["engine"]).replay
                import inspect
                if len(inspect.signature(fn).parameters) >= 3:
                    res.merge(fn(prop, rp, work))
                else:
                    res.merge(fn(args[args.index("--replay") + 1], work))
            else:
                res.merge(run_core(prop, [rp["scenario"]], work, "replay"))
        else:
            for eng in engines_for(prop):
                res.merge(eng(prop, tier, seed, work))
        demote_conformance_only(prop, res)
        apply_known(prop, res)
        level = "model_checking"
        write_evidence(prop, tier, seed, res, level)
        for v in res.viol:
            print("VIOLATION property=%s replay=%s  (scenario %s: %s)" % (prop, v["replay"], v["scn"], ",".join(v["clauses"])))
        log("%s %s: %d scenarios, %d TLC states, %d violations, %d known, %.1fs" % (
            prop, tier, res.evaluations, res.states, len(res.viol), len(res.known_hits), time.time() - T0))
        return 1 if res.viol else 0
    finally:
        shutil.rmtree(work, ignore_errors=True)


if __name__ == "__main__":
    try:
        sys.exit(main())
    except ToolError as e:
        print("TOOL-ERROR:", e, file=sys.stderr)
        sys.exit(2)
