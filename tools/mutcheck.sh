#!/bin/sh
# usage: mutcheck.sh <patch-file | revert:<commit>> <prop> [tier]   -- apply to /repo, run the check, restore
P="$1"; PROP="$2"; TIER="${3:-quick}"
cd /repo || exit 2
if [ -n "$(git status --porcelain --untracked-files=no)" ]; then echo "repo dirty"; exit 2; fi
case "$P" in
  revert:*) C="${P#revert:}"; git diff "$C^" "$C" | git apply -R || { echo "cannot revert"; exit 2; } ;;
  *) git apply "$P" || { echo "cannot apply"; exit 2; } ;;
esac
cd /verif && ./check "$PROP" "$TIER" 2>&1 | grep -E "VIOLATION|KNOWN|check\]|TOOL" | cut -c1-220 | head -${MUT_LINES:-6}
git -C /repo checkout -- . 
