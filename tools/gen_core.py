#!/usr/bin/env python3
"""Random scenario generator for the sequential loop core (drive_core).

A scenario is a static description: sources, top-level steps, and for every source the programs
its callback runs on its k-th invocation.  The generator keeps a *predicted* top-level state only
to stay inside the contract most of the time (the LoopContract monitor decides what is a
violation and marks scenarios that leave the contract as `misuse`); nothing here is an oracle.
"""
import json
import random
import sys

CLASSES = ["mix", "reuse", "disable", "post", "timers", "idle", "life", "faults", "fds", "ready", "pings", "chans", "streams", "execs"]


def nch(d):
    return len(d["children"]) if "children" in d else 1


def kids(d):
    return d.get("children", [{}])


class G:
    def __init__(self, rnd, cls):
        self.r = rnd
        self.cls = cls
        self.srcs = []          # declarations
        self.st = {}            # s -> dict(st, en)
        self.steps = []
        self.progs = {}
        self.faults = []
        self.msg = 100
        self.tick = 0
        self.nidle = 0
        self.idles_pending = []
        self.ntok = 0
        self.dead_tokens = []

    # ---------------------------------------------------------------- sources
    def mk_child(self):
        r = self.r
        if self.cls in ("fds", "ready"):
            interest = r.choice(["r", "r", "w", "rw", "none"])
            mode = r.choice(["level", "edge", "oneshot"])
        else:
            interest = r.choice(["r", "r", "r", "rw"])
            mode = r.choice(["level", "level", "oneshot", "edge"])
        return {"interest": interest, "mode": mode}

    def mk_source(self, s):
        r = self.r
        w = {"mix": [3, 2, 3, 3], "reuse": [3, 1, 2, 4], "disable": [3, 2, 3, 3], "post": [1, 0, 1, 6],
             "timers": [2, 0, 6, 1], "idle": [3, 1, 1, 1], "life": [2, 0, 0, 6], "faults": [2, 1, 2, 5],
             "fds": [2, 1, 0, 6], "ready": [2, 2, 2, 5], "pings": [8, 0, 1, 1], "chans": [1, 8, 1, 1], "streams": [2, 1, 1, 1]}[self.cls]
        kind = r.choices(["ping", "chan", "timer", "comp"], weights=w)[0]
        if self.cls == "streams" and r.random() < 0.6:
            kind = "stream"
        d = {"s": s, "kind": kind}
        if kind == "chan" and r.random() < 0.3:
            d["cap"] = r.choice([1, 2, 3])
        if kind == "timer":
            d["held"] = 1
            x = r.random()
            if x < 0.08:
                pass                      # unrepresentable deadline
            else:
                d["dl"] = r.choice([-1, 0, 1, 1, 2, 2, 3, 4])
        if kind == "comp":
            n = r.choice([1, 1, 1, 2, 2, 3])
            d["children"] = [self.mk_child() for _ in range(n)]
            if self.cls == "life" or (self.cls in ("mix", "faults") and r.random() < 0.3):
                d["life"] = 1
                if r.random() < 0.5:
                    d["synth"] = sorted(r.sample(range(0, 4), r.choice([1, 2])))
            if self.cls in ("reuse", "mix") and n > 1 and r.random() < 0.15:
                for c in d["children"]:
                    c["transient"] = 1
            elif self.cls in ("fds", "ready", "reuse") and n > 1 and r.random() < 0.2:
                # a transient child in front of plain siblings: its removal shifts the siblings' sub-ids at the
                # re-registration that follows (their kernel keys must follow)
                for c in d["children"][:r.choice([1, 1, n - 1])]:
                    c["transient"] = 1
                    c["interest"], c["mode"] = "r", r.choice(["level", "level", "oneshot"])
            if r.random() < 0.25:
                d["held"] = 1
        if kind == "ping" and self.cls == "life" and r.random() < 0.5:
            d["life"] = 1
        if self.cls in ("reuse", "mix", "idle", "post") and r.random() < 0.25:
            d["ondrop"] = 1      # its Drop re-enters the loop through a handle (C08)
        return d

    # ------------------------------------------------------------- programs
    def cause_op(self, s=None):
        """an op that gives source s (or a random one) something to report"""
        r = self.r
        cands = [d for d in self.srcs if d["kind"] != "timer"] if s is None else [self.decl(s)]
        if not cands:
            return None
        d = r.choice(cands)
        if d["kind"] == "ping":
            return {"op": "ping", "s": d["s"]}
        if d["kind"] == "chan":
            self.msg += 1
            return {"op": "send", "s": d["s"], "m": self.msg}
        if d["kind"] == "comp":
            return {"op": "wr", "s": d["s"], "c": r.randrange(nch(d))}
        if d["kind"] == "stream":
            if r.random() < 0.15:
                return {"op": "end_stream", "s": d["s"]}
            self.msg += 1
            return {"op": "push", "s": d["s"], "m": self.msg}
        return None

    def decl(self, s):
        return next(d for d in self.srcs if d["s"] == s)

    def cb_op(self, me):
        """one operation for a callback program of source `me`"""
        r = self.r
        ids = [d["s"] for d in self.srcs]
        other = r.choice(ids)
        x = r.random()
        cls = self.cls
        if x < 0.20:
            return {"op": "remove", "ts": other}
        if x < 0.32:
            return {"op": "disable", "ts": other}
        if x < 0.44:
            return {"op": "update", "ts": other}
        if x < 0.50:
            # enable something that the top level disabled earlier (may be misuse: monitor decides)
            dis = [s for s in ids if self.st.get(s, {}).get("ever_disabled") and s != me]
            if dis:
                return {"op": "enable", "ts": r.choice(dis)}
        if x < 0.62:
            new = [s for s in ids if self.st[s]["st"] == "new" and not self.st[s].get("cbins")]
            if new:
                s = r.choice(new)
                self.st[s]["cbins"] = True
                return {"op": "insert", "s": s}
        if x < 0.74:
            c = self.cause_op()
            if c:
                return c
        if x < 0.80 or cls == "idle":
            if r.random() < 0.7 or not self.idles_pending:
                self.nidle += 1
                self.idles_pending.append(self.nidle)
                self.mk_idle_prog(self.nidle)
                return {"op": "insert_idle", "i": self.nidle}
            return {"op": r.choice(["cancel_idle", "cancel_idle", "drop_idle"]), "i": r.choice(self.idles_pending)}
        if x < 0.88:
            tm = [d["s"] for d in self.srcs if d["kind"] == "timer" and d["s"] != me]
            if tm:
                t = r.choice(tm)
                return [{"op": "set_deadline", "s": t, "d": self.tick + r.choice([-1, 0, 1, 2, 50])},
                        {"op": "update", "ts": t}]
        if x < 0.94 and self.dead_tokens:
            return {"op": r.choice(["remove", "disable", "update", "enable"]), "t": r.choice(self.dead_tokens)}
        return {"op": "remove", "ts": me}

    def mk_idle_prog(self, i):
        r = self.r
        ops = []
        if r.random() < 0.4:
            x = r.random()
            if x < 0.4:
                self.nidle += 1
                j = self.nidle
                self.idles_pending.append(j)
                self.progs["i%d" % j] = [{"ops": []}]
                ops.append({"op": "insert_idle", "i": j})
            elif x < 0.6 and self.idles_pending:
                ops.append({"op": "cancel_idle", "i": r.choice(self.idles_pending)})
            else:
                c = self.cause_op()
                if c:
                    ops.append(c)
        self.progs["i%d" % i] = [{"ops": ops}]

    def mk_programs(self):
        r = self.r
        dens = {"mix": 0.5, "reuse": 0.7, "disable": 0.6, "post": 0.5, "timers": 0.5, "idle": 0.6,
                "life": 0.3, "faults": 0.3, "fds": 0.2, "ready": 0.4, "pings": 0.6, "chans": 0.6, "streams": 0.5}[self.cls]
        for d in self.srcs:
            s = d["s"]
            progs = []
            for k in range(5):
                ops = []
                if d["kind"] == "comp" and r.random() < 0.8:
                    # consume the readiness (level-triggered children would fire forever otherwise)
                    for c in range(nch(d)):
                        ops.append({"op": "rd", "s": s, "c": c})
                if r.random() < dens:
                    for _ in range(r.choice([1, 1, 2])):
                        o = self.cb_op(s)
                        ops.extend(o if isinstance(o, list) else [o])
                    if r.random() < 0.3:
                        # self-directed deferred request, after or BEFORE the operations on other sources (an immediate
                        # operation on somebody else must leave the request of the running source alone)
                        req = {"op": r.choice(["disable", "update"]), "ts": s}
                        y = r.random()
                        if y < 0.2:
                            # two requests of the running source on itself: the LAST one is the one that counts
                            ops.append({"op": "update" if req["op"] == "disable" else "disable", "ts": s})
                            ops.append(req)
                        elif y < 0.55:
                            ops.append(req)
                        else:
                            ops.insert(0, req)
                            others = [d2["s"] for d2 in self.srcs if d2["s"] != s]
                            if others and r.random() < 0.6:
                                ops.append({"op": r.choice(["disable", "disable", "update"]), "ts": r.choice(others)})
                p = {"ops": ops}
                if d["kind"] == "comp":
                    single = nch(d) == 1
                    trans = any(c.get("transient") for c in kids(d))
                    x = r.random()
                    if self.cls == "post":
                        x *= 0.4
                    if x < 0.10:
                        p["ret"] = "reregister"
                    elif x < 0.17 and single:
                        p["ret"] = "disable"
                    elif x < 0.25 and (single or trans):
                        p["ret"] = "remove"
                    elif x < 0.30 and self.cls in ("faults", "post", "mix", "timers", "idle"):
                        p["ret"] = "err"
                    else:
                        p["ret"] = "continue"
                elif d["kind"] == "timer":
                    x = r.random()
                    if x < 0.55:
                        p["ret"] = "drop"
                    elif x < 0.8:
                        p["ret"] = {"to": self.tick + k + r.choice([0, 1, 2, 3])}
                    elif x < 0.97:
                        p["ret"] = {"dur": r.choice([0, 1, 2])}
                    else:
                        p["ret"] = {"durmax": 1}
                progs.append(p)
            self.progs["s%d" % s] = progs

    # ------------------------------------------------------------ top level
    def top_op(self):
        r = self.r
        ids = [d["s"] for d in self.srcs]
        new = [s for s in ids if self.st[s]["st"] == "new" and not self.st[s].get("cbins")]
        ins = [s for s in ids if self.st[s]["st"] == "in"]
        en = [s for s in ins if self.st[s]["en"]]
        dis = [s for s in ins if not self.st[s]["en"]]
        x = r.random()
        lifers = [s for s in en if self.decl(s).get("life")]
        if lifers and self.cls in ("life", "faults", "mix") and r.random() < 0.04:
            # a before_sleep hook that fails: the dispatch reports it; what earlier hooks returned dies with that dispatch
            self.steps.append({"op": "fault", "s": r.choice(lifers), "call": "before_sleep"})
            self.steps.append({"op": "dispatch"})
            self.steps.append({"op": "dispatch"})
            return
        if new and (x < 0.25 or not ins):
            s = r.choice(new)
            if self.cls == "faults" and r.random() < 0.35:
                d = self.decl(s)
                call = "register"
                if d["kind"] == "comp" and nch(d) > 1 and r.random() < 0.5:
                    call = "child_register%d" % r.randrange(nch(d))
                self.steps.append({"op": "fault", "s": s, "call": call})
                self.steps.append({"op": "insert", "s": s})
                return
            self.steps.append({"op": "insert", "s": s})
            self.st[s]["st"] = "in"
            self.st[s]["en"] = True
            self.st[s]["tok"] = self.ntok
            self.ntok += 1
            return
        if x < 0.45:
            if self.cls in ("life", "faults") and r.random() < 0.3:
                # a dispatch that may block: a synthetic event announced by any lifecycle source forces a zero timeout
                self.steps.append({"op": "dispatch", "timeout": 3 * 2000})
            else:
                self.steps.append({"op": "dispatch"})
            return
        if x < 0.60:
            c = self.cause_op()
            if c:
                self.steps.append(c)
                return
        if x < 0.66 and en:
            s = r.choice(en)
            if self.cls == "faults" and r.random() < 0.4:
                self.steps.append({"op": "fault", "s": s, "call": "unregister"})
                self.steps.append({"op": "disable", "ts": s})
                return
            self.steps.append({"op": "disable", "ts": s})
            self.st[s]["en"] = False
            self.st[s]["ever_disabled"] = True
            return
        if x < 0.66 + 0.02 and en and self.cls not in ("timers", "idle"):
            # enabling a source that is enabled already: must fail and change nothing (fd-backed kinds only)
            cand = [s for s in en if self.decl(s)["kind"] != "timer"]
            if cand:
                self.steps.append({"op": "enable", "ts": r.choice(cand)})
                return
        if 0.68 <= x < 0.70 and dis and self.cls not in ("timers", "idle"):
            # disable() of a disabled fd-backed source: fails (nothing is registered) and has no effect
            cand = [s for s in dis if self.decl(s)["kind"] != "timer"
                    and not any(c.get("transient") for c in self.decl(s).get("children", []))]
            if cand:
                self.steps.append({"op": "disable", "ts": r.choice(cand)})
                return
        if 0.70 <= x < 0.72 and dis and self.cls not in ("timers", "idle"):
            # update() of a disabled fd-backed source: fails (nothing is registered) and changes nothing
            cand = [s for s in dis if self.decl(s)["kind"] != "timer"
                    and not any(c.get("transient") for c in self.decl(s).get("children", []))]
            if cand:
                self.steps.append({"op": "update", "ts": r.choice(cand)})
                return
        if x < 0.72 and dis:
            s = r.choice(dis)
            if self.cls == "faults" and r.random() < 0.4:
                self.steps.append({"op": "fault", "s": s, "call": "register"})
                self.steps.append({"op": "enable", "ts": s})
                return
            self.steps.append({"op": "enable", "ts": s})
            self.st[s]["en"] = True
            return
        if x < 0.77 and en:
            s = r.choice(en)
            if self.cls == "faults" and r.random() < 0.4:
                self.steps.append({"op": "fault", "s": s, "call": "reregister"})
            self.steps.append({"op": "update", "ts": s})
            return
        if x < 0.83 and ins:
            s = r.choice(ins)
            if self.cls == "faults" and r.random() < 0.3:
                self.steps.append({"op": "fault", "s": s, "call": "unregister"})
            self.steps.append({"op": "remove", "ts": s})
            self.st[s]["st"] = "out"
            self.dead_tokens.append(self.st[s]["tok"])
            d = self.decl(s)
            if d.get("held") and r.random() < 0.5:
                self.steps.append({"op": "into_inner", "s": s})
                if r.random() < 0.7:
                    self.steps.append({"op": "insert", "s": s})
                    self.st[s]["st"] = "in"
                    self.st[s]["en"] = True
                    self.st[s]["tok"] = self.ntok
                    self.ntok += 1
            return
        if x < 0.87:
            self.tick += r.choice([1, 1, 2])
            self.steps.append({"op": "advance", "k": self.tick})
            return
        if x < 0.90 and self.dead_tokens:
            self.steps.append({"op": r.choice(["remove", "disable", "update", "enable"]), "t": r.choice(self.dead_tokens)})
            return
        if x < 0.915 and self.ntok > 1:
            # any token issued so far: sources also die through post actions (TimeoutAction::Drop, Remove, Closed)
            # and their tokens must be dead afterwards, whoever occupies the slot now
            self.steps.append({"op": r.choice(["disable", "update", "enable", "remove"]), "t": r.randrange(self.ntok)})
            return
        if x < 0.94 or self.cls == "idle":
            if r.random() < 0.65 or not self.idles_pending:
                self.nidle += 1
                self.idles_pending.append(self.nidle)
                self.mk_idle_prog(self.nidle)
                self.steps.append({"op": "insert_idle", "i": self.nidle})
            else:
                self.steps.append({"op": r.choice(["cancel_idle", "drop_idle"]), "i": r.choice(self.idles_pending)})
            return
        pings = [d["s"] for d in self.srcs if d["kind"] == "ping"]
        chans = [d["s"] for d in self.srcs if d["kind"] == "chan"]
        comps = [d for d in self.srcs if d["kind"] == "comp"]
        y = r.random()
        if y < 0.25 and pings:
            self.steps.append({"op": r.choice(["drop_ping", "clone_ping", "drop_ping"]), "s": r.choice(pings)})
        elif y < 0.5 and chans:
            self.steps.append({"op": r.choice(["drop_sender", "clone_sender", "drop_sender"]), "s": r.choice(chans)})
        elif y < 0.7 and comps:
            d = r.choice(comps)
            self.steps.append({"op": r.choice(["rd", "close_peer"]), "s": d["s"], "c": r.randrange(nch(d))})
        else:
            tm = [d["s"] for d in self.srcs if d["kind"] == "timer" and self.st[d["s"]]["st"] == "in"]
            if tm:
                s = r.choice(tm)
                self.steps.append({"op": "set_deadline", "s": s, "d": self.tick + r.choice([-1, 0, 1, 2])})
                if self.st[s]["en"]:
                    self.steps.append({"op": "update", "ts": s})
            else:
                self.steps.append({"op": "dispatch"})

    def build(self, sid):
        r = self.r
        n = r.choice([2, 3, 3, 4, 5])
        self.srcs = [self.mk_source(i + 1) for i in range(n)]
        if self.cls == "faults" and r.random() < 0.3:
            # a source the poller rejects for real
            s = n + 1
            bad = r.choice(["file", "closed", "dup"])
            socks = [d for d in self.srcs if d["kind"] == "comp"]
            if bad == "dup" and socks:
                self.srcs.append({"s": s, "kind": "comp", "dupof": [socks[0]["s"], 0], "interest": "r", "mode": "level"})
            elif bad != "dup":
                self.srcs.append({"s": s, "kind": "comp", "children": [{"interest": "r", "mode": "level", "fd": bad}]})
        for d in self.srcs:
            self.st[d["s"]] = {"st": "new", "en": False}
        self.mk_programs()
        for _ in range(r.choice([8, 10, 12, 14, 18])):
            self.top_op()
        # always end with a few dispatches so that obligations are checked
        for _ in range(2):
            self.steps.append({"op": "dispatch"})
        for d in self.srcs:
            # some sources go through `impl EventSource for Box<T>`
            if not d.get("held") and "dupof" not in d and r.random() < 0.2:
                d["boxed"] = 1
        scn = {"id": sid, "tick_us": 2000, "sources": self.srcs, "progs": self.progs, "steps": self.steps}
        if self.cls in ("chans", "streams", "mix", "ready") and r.random() < 0.5:
            scn["limit"] = r.choice([1, 2, 3])      # per-dispatch batch limit of channels (verif hook)
        if self.faults:
            scn["faults"] = self.faults
        return scn


def pat_batch(rnd, sid):
    """In-batch interference: several sources are ready in the same dispatch and the callback that runs
    first acts on a source whose event is later in the batch (timers come last in a batch)."""
    r = rnd
    srcs = []
    n_act = r.choice([1, 1, 2])
    s = 0
    for _ in range(n_act):
        s += 1
        k = r.choice(["ping", "comp", "chan"])
        d = {"s": s, "kind": k}
        if k == "comp":
            d["children"] = [{"interest": "r", "mode": r.choice(["level", "oneshot", "edge"])}]
        srcs.append(d)
    n_vic = r.choice([1, 2, 2])
    vics = []
    for _ in range(n_vic):
        s += 1
        k = r.choice(["timer", "timer", "timer", "ping", "comp", "chan"])
        d = {"s": s, "kind": k}
        if k == "timer":
            d["held"] = 1
            d["dl"] = r.choice([0, 1, 1])
        if k == "comp":
            d["children"] = [{"interest": "r", "mode": r.choice(["level", "oneshot", "edge"])}]
            if r.random() < 0.3:
                d["life"] = 1
        srcs.append(d)
        vics.append(d)
    order = list(range(len(srcs)))
    if r.random() < 0.5:
        r.shuffle(order)
    steps = [{"op": "insert", "s": srcs[i]["s"]} for i in order]
    msg = 500

    def cause(d):
        nonlocal msg
        if d["kind"] == "ping":
            return [{"op": "ping", "s": d["s"]}]
        if d["kind"] == "chan":
            msg += 1
            return [{"op": "send", "s": d["s"], "m": msg}]
        if d["kind"] == "comp":
            return [{"op": "wr", "s": d["s"], "c": 0}]
        return []
    for d in srcs:
        steps += cause(d)
    steps.append({"op": "advance", "k": 1})
    steps.append({"op": "dispatch"})
    if r.random() < 0.6:
        for d in srcs:
            if r.random() < 0.5:
                steps += cause(d)
        steps.append({"op": "advance", "k": 3})
    steps.append({"op": "dispatch"})
    if r.random() < 0.5:
        steps.append({"op": "enable", "ts": r.choice(vics)["s"]})
    steps.append({"op": "advance", "k": 5})
    steps.append({"op": "dispatch"})
    steps.append({"op": "dispatch"})
    progs = {}
    for d in srcs:
        pl = []
        for k in range(4):
            ops = []
            if d["kind"] == "comp":
                ops.append({"op": "rd", "s": d["s"], "c": 0})
            if k == 0 or r.random() < 0.3:
                v = r.choice(vics)
                if v["s"] != d["s"]:
                    x = r.random()
                    far = r.choice([1, 2, 40, 400])
                    if x < 0.2:
                        ops.append({"op": "remove", "ts": v["s"]})
                    elif x < 0.35:
                        ops.append({"op": "disable", "ts": v["s"]})
                    elif x < 0.55:
                        ops += [{"op": "disable", "ts": v["s"]}, {"op": "enable", "ts": v["s"]}]
                    elif x < 0.8 and v["kind"] == "timer":
                        ops += [{"op": "set_deadline", "s": v["s"], "d": 1 + far}, {"op": "update", "ts": v["s"]}]
                    elif x < 0.9:
                        ops.append({"op": "update", "ts": v["s"]})
                    else:
                        ops += [{"op": "remove", "ts": v["s"]}] + cause(v)
            p = {"ops": ops}
            if d["kind"] == "comp":
                p["ret"] = r.choice(["continue", "continue", "continue", "reregister"])
            if d["kind"] == "timer":
                p["ret"] = r.choice(["drop", "drop", {"to": 2 + k + r.choice([0, 1, 30])}, {"dur": r.choice([0, 1])}])
            pl.append(p)
        progs["s%d" % d["s"]] = pl
    return {"id": sid, "tick_us": 2000, "sources": srcs, "progs": progs, "steps": steps}


def pat_replace(rnd, sid, cls):
    """A callback removes its own source (or another one) and inserts a new source in the same callback, so
    that the freed slot is reused immediately; stale tokens are used afterwards."""
    r = rnd
    life = 1 if cls in ("life", "faults") or r.random() < 0.4 else 0

    def mk(s, k=None):
        k = k or r.choice(["ping", "comp", "comp"])
        d = {"s": s, "kind": k}
        if k == "comp":
            d["children"] = [{"interest": "r", "mode": r.choice(["level", "level", "oneshot", "edge"])}]
        if life and r.random() < 0.8:
            d["life"] = 1
            if k == "comp" and r.random() < 0.3:
                d["synth"] = [r.choice([0, 1, 2])]
        if r.random() < 0.4:
            d["held"] = 1      # the driver keeps a Dispatcher clone: dropping the source cannot hide a leaked fd
        return d
    srcs = [mk(1), mk(2), mk(3)]
    if r.random() < 0.5:
        srcs.append(mk(4, r.choice(["ping", "timer"])))
        if srcs[-1]["kind"] == "timer":
            srcs[-1]["dl"] = 1
            srcs[-1]["held"] = 1
            srcs[-1].pop("life", None)

    def cause(d):
        if d["kind"] == "ping":
            return [{"op": "ping", "s": d["s"]}]
        if d["kind"] == "comp":
            return [{"op": "wr", "s": d["s"], "c": 0}]
        return []
    steps = [{"op": "insert", "s": 1}]
    if r.random() < 0.6:
        steps.append({"op": "insert", "s": 2})
    steps += cause(srcs[0]) + (cause(srcs[1]) if r.random() < 0.5 else [])
    steps.append({"op": "dispatch"})
    for d in srcs:
        if r.random() < 0.6:
            steps += cause(d)
    steps.append({"op": "advance", "k": 2})
    steps.append({"op": "dispatch"})
    # stale tokens: token 0 belonged to source 1
    for _ in range(r.choice([0, 1, 2])):
        steps.append({"op": r.choice(["remove", "disable", "update", "enable"]), "t": r.choice([0, 0, 1])})
    for d in srcs:
        if r.random() < 0.5:
            steps += cause(d)
    steps.append({"op": "dispatch"})
    steps.append({"op": "dispatch"})
    progs = {}
    new_ids = [d["s"] for d in srcs[1:]]
    for d in srcs:
        pl = []
        for k in range(4):
            ops = []
            if d["kind"] == "comp":
                ops.append({"op": "rd", "s": d["s"], "c": 0})
            if d["s"] == 1 and k == 0:
                victim = 1 if r.random() < 0.7 else 2
                a = {"op": "remove", "ts": victim}
                b = {"op": "insert", "s": r.choice(new_ids)}
                ops += [a, b] if r.random() < 0.7 else [b, a]
                if r.random() < 0.4:
                    ops += cause(srcs[b["s"] - 1])
            elif r.random() < 0.25:
                ops.append(r.choice([{"op": "update", "ts": d["s"]}, {"op": "remove", "ts": 1},
                                     {"op": "disable", "t": 0}, {"op": "insert", "s": r.choice(new_ids)}]))
            p = {"ops": ops}
            if d["kind"] == "comp":
                p["ret"] = r.choice(["continue", "continue", "reregister", "remove" if k > 0 else "continue"])
            if d["kind"] == "timer":
                p["ret"] = "drop"
            pl.append(p)
        progs["s%d" % d["s"]] = pl
    return {"id": sid, "tick_us": 2000, "sources": srcs, "progs": progs, "steps": steps}


def pat_defer(rnd, sid):
    """A callback asks for its own source to be disabled / updated and then returns every kind of post action
    (or fails); other sources keep producing events over the following dispatches."""
    r = rnd
    srcs = []
    kinds = [r.choice(["comp", "comp", "timer", "ping"])] + [r.choice(["ping", "comp", "chan", "timer"]) for _ in range(r.choice([1, 2, 2]))]
    for i, k in enumerate(kinds):
        d = {"s": i + 1, "kind": k}
        if k == "comp":
            d["children"] = [{"interest": "r", "mode": r.choice(["level", "level", "oneshot", "edge"])}
                             for _ in range(r.choice([1, 1, 2]))]
            if r.random() < 0.45:
                d["life"] = 1
        if k == "timer":
            d["held"] = 1
            d["dl"] = r.choice([0, 1])
        srcs.append(d)
    msg = [700]

    def cause(d):
        if d["kind"] == "ping":
            return [{"op": "ping", "s": d["s"]}]
        if d["kind"] == "chan":
            msg[0] += 1
            return [{"op": "send", "s": d["s"], "m": msg[0]}]
        if d["kind"] == "comp":
            return [{"op": "wr", "s": d["s"], "c": r.randrange(len(d["children"]))}]
        return []
    steps = [{"op": "insert", "s": d["s"]} for d in srcs]
    tick = 0
    for rnd_i in range(r.choice([3, 4, 5])):
        for d in srcs:
            if rnd_i == 0 or r.random() < 0.7:
                steps += cause(d)
        tick += 1
        steps.append({"op": "advance", "k": tick})
        steps.append({"op": "dispatch"})
        if rnd_i == 1 and r.random() < 0.5:
            steps.append({"op": "enable", "ts": 1})
    progs = {}
    for d in srcs:
        pl = []
        for k in range(5):
            ops = []
            if d["kind"] == "comp":
                for c in range(len(d["children"])):
                    ops.append({"op": "rd", "s": d["s"], "c": c})
            p = {"ops": ops}
            if d["s"] == 1 and k == 0:
                ops.append({"op": r.choice(["disable", "update"]), "ts": 1})
                if r.random() < 0.25:
                    ops.append({"op": "remove", "ts": 1})          # ... and removes itself as well
                if d["kind"] == "comp":
                    p["ret"] = r.choice(["reregister", "disable", "remove", "err", "continue"])
                elif d["kind"] == "timer":
                    p["ret"] = r.choice(["drop", {"to": tick + 2}, {"dur": 1}])
            else:
                if d["kind"] == "comp":
                    p["ret"] = "continue"
                if d["kind"] == "timer":
                    p["ret"] = r.choice(["drop", {"to": 2 + k}])
            pl.append(p)
        progs["s%d" % d["s"]] = pl
    return {"id": sid, "tick_us": 2000, "sources": srcs, "progs": progs, "steps": steps}


def pat_timers(rnd, sid):
    """Timer armings: unrepresentable / past / equal deadlines, set_deadline + update, disable / enable,
    reschedules from the callback; another source fails or interferes in the same dispatch."""
    r = rnd
    if r.random() < 0.2:
        # several timers with shuffled deadlines, all due in ONE dispatch (the loop was busy elsewhere): they fire in
        # deadline order whatever the order in which they were armed
        n = r.choice([3, 4, 5, 6])
        dls = [r.choice([0, 1, 2, 3, 4, 5, 6]) for _ in range(n)]
        srcs = [{"s": i + 1, "kind": "timer", "held": 1, "dl": dls[i]} for i in range(n)]
        steps = [{"op": "insert", "s": i + 1} for i in range(n)]
        steps += [{"op": "advance", "k": max(dls) + 1}, {"op": "dispatch"}, {"op": "dispatch"}]
        progs = {"s%d" % (i + 1): [{"ops": [], "ret": r.choice(["drop", "drop", {"to": max(dls) + 3}])} for _ in range(3)] for i in range(n)}
        steps += [{"op": "advance", "k": max(dls) + 4}, {"op": "dispatch"}]
        return {"id": sid, "tick_us": 2000, "sources": srcs, "progs": progs, "steps": steps}
    n = r.choice([2, 3, 3])
    srcs = []
    for i in range(n):
        d = {"s": i + 1, "kind": "timer", "held": 1}
        x = r.random()
        if x < 0.3:
            pass                      # unrepresentable: never armed until a deadline is set
        else:
            d["dl"] = r.choice([-1, 0, 1, 1, 2, 2, 3])
        srcs.append(d)
    other = None
    if r.random() < 0.6:
        other = {"s": n + 1, "kind": r.choice(["ping", "comp"])}
        if other["kind"] == "comp":
            other["children"] = [{"interest": "r", "mode": "level"}]
        srcs.append(other)
    steps = [{"op": "insert", "s": d["s"]} for d in srcs]
    tick = 0
    for rnd_i in range(r.choice([3, 4, 5])):
        for d in srcs[:n]:
            x = r.random()
            if x < 0.25:
                steps += [{"op": "set_deadline", "s": d["s"], "d": tick + r.choice([0, 1, 1, 2])}, {"op": "update", "ts": d["s"]}]
            elif x < 0.35:
                steps += [{"op": "disable", "ts": d["s"]}]
                if r.random() < 0.5:
                    steps += [{"op": "set_deadline", "s": d["s"], "d": tick + r.choice([1, 2])}]
                steps += [{"op": "enable", "ts": d["s"]}]
            elif x < 0.4:
                steps += [{"op": "update", "ts": d["s"]}]
            elif x < 0.47:
                # the deadline field is pushed back WITHOUT update(): the arming in the wheel stays, the timer still fires
                # at its old deadline
                steps += [{"op": "set_deadline", "s": d["s"], "d": tick + r.choice([4, 6])}]
            elif x < 0.54:
                # a switched-off timer is given a new deadline and update()d (which arms it again), then switched off again
                steps += [{"op": "disable", "ts": d["s"]}, {"op": "set_deadline", "s": d["s"], "d": tick + 1},
                          {"op": "update", "ts": d["s"]}, {"op": "disable", "ts": d["s"]}]
                if r.random() < 0.5:
                    steps += [{"op": "enable", "ts": d["s"]}]
        if other is not None and r.random() < 0.6:
            steps.append({"op": "ping", "s": other["s"]} if other["kind"] == "ping" else {"op": "wr", "s": other["s"], "c": 0})
        if r.random() < 0.3:
            # a wake-up is pending when a wait bounded by a timer deadline starts: it returns at once, nothing fires early
            steps.append({"op": "wakeup"})
            steps.append({"op": "dispatch", "timeout": 4 * 2000})
        tick += r.choice([1, 1, 2])
        steps.append({"op": "advance", "k": tick})
        steps.append({"op": "dispatch"})
    steps.append({"op": "advance", "k": tick + 3})
    steps.append({"op": "dispatch"})
    # a wait that must last: nothing is due for `far` ticks (cancelled armings must not cut it short)
    if r.random() < 0.5:
        steps.append({"op": "dispatch", "timeout": 3 * 2000})
    # tokens of timers that dropped themselves are dead even when their slot has a new occupant
    extra = []
    for j in range(r.choice([0, 1, 2])):
        sid2 = len(srcs) + 1
        srcs.append({"s": sid2, "kind": r.choice(["ping", "timer"]), "held": 1})
        if srcs[-1]["kind"] == "timer":
            srcs[-1]["dl"] = tick + 50
        extra.append(sid2)
        steps.append({"op": "insert", "s": sid2})
    if extra:
        for _ in range(r.choice([1, 2, 3])):
            steps.append({"op": r.choice(["enable", "disable", "update", "remove"]), "t": r.randrange(n)})
        for e in extra:
            if srcs[e - 1]["kind"] == "ping":
                steps.append({"op": "ping", "s": e})
        steps.append({"op": "dispatch"})
    progs = {}
    for d in srcs:
        pl = []
        for k in range(5):
            ops = []
            p = {"ops": ops}
            if d["kind"] == "timer":
                p["ret"] = r.choice(["drop", "drop", {"to": tick + k + r.choice([0, 1, 2])}, {"dur": r.choice([0, 1])}])
                # a timer's callback re-arms / cancels ANOTHER timer whose expiry may already be in this batch
                if n > 1 and r.random() < 0.35:
                    v = r.choice([x for x in srcs[:n] if x["s"] != d["s"]])
                    ops += r.choice([[{"op": "set_deadline", "s": v["s"], "d": tick + 30}, {"op": "update", "ts": v["s"]}],
                                     [{"op": "disable", "ts": v["s"]}, {"op": "enable", "ts": v["s"]}],
                                     [{"op": "update", "ts": v["s"]}]])
            else:
                if d["kind"] == "comp":
                    ops.append({"op": "rd", "s": d["s"], "c": 0})
                    p["ret"] = r.choice(["continue", "continue", "err"])
                if r.random() < 0.5:
                    v = r.choice(srcs[:n])
                    ops += r.choice([[{"op": "set_deadline", "s": v["s"], "d": tick + 30}, {"op": "update", "ts": v["s"]}],
                                     [{"op": "disable", "ts": v["s"]}, {"op": "enable", "ts": v["s"]}],
                                     [{"op": "remove", "ts": v["s"]}], [{"op": "update", "ts": v["s"]}]])
            pl.append(p)
        progs["s%d" % d["s"]] = pl
    return {"id": sid, "tick_us": 2000, "sources": srcs, "progs": progs, "steps": steps}


def pat_idles(rnd, sid):
    """Bursts of idle callbacks (sizes around the growth steps of the list's buffer), idles that insert / cancel idles,
    handles cancelled or dropped, idles inserted from a source callback; several dispatches in a row."""
    r = rnd
    srcs = [{"s": 1, "kind": "ping"}]
    steps = [{"op": "insert", "s": 1}]
    progs = {}
    n = [0]
    pending = []

    def new_idle(depth):
        n[0] += 1
        i = n[0]
        ops = []
        if depth < 2 and r.random() < (0.5 if depth == 0 else 0.3):
            for _ in range(r.choice([1, 1, 2, 3])):
                ops.append({"op": "insert_idle", "i": new_idle(depth + 1)})
        if pending and r.random() < 0.15:
            ops.append({"op": "cancel_idle", "i": r.choice(pending)})
        progs["i%d" % i] = [{"ops": ops}]
        return i
    cbops = []
    if r.random() < 0.08:
        # more idles pending than any batch limit the loop has for other things (1024): all of them run in the first
        # dispatch that returns Ok
        steps += [{"op": "insert_idle_many", "m": 5000, "d": r.choice([1024, 1025, 1500])}, {"op": "dispatch"}, {"op": "dispatch"}]
        return {"id": sid, "tick_us": 2000, "sources": srcs, "progs": {"s1": [{"ops": []}]}, "steps": steps}
    for rnd_i in range(r.choice([2, 3, 4])):
        burst = r.choice([0, 1, 2, 4, 5, 5, 6, 8, 9, 9, 17])
        for _ in range(burst):
            i = new_idle(0)
            pending.append(i)
            steps.append({"op": "insert_idle", "i": i})
        if pending and r.random() < 0.4:
            steps.append({"op": r.choice(["cancel_idle", "drop_idle"]), "i": r.choice(pending)})
        if len(pending) >= 2 and r.random() < 0.5:
            # cancel an idle that is NOT the last one queued, then queue more: the newcomers run after everything
            # that was queued before them (insertion order, not "first free place")
            steps.append({"op": "cancel_idle", "i": r.choice(pending[:-1])})
            for _ in range(r.choice([1, 2])):
                i = new_idle(0)
                pending.append(i)
                steps.append({"op": "insert_idle", "i": i})
        if r.random() < 0.4:
            steps.append({"op": "ping", "s": 1})
        steps.append({"op": "dispatch"})
        pending.clear()
    steps += [{"op": "dispatch"}, {"op": "dispatch"}]
    pl = []
    for k in range(4):
        ops = []
        if r.random() < 0.5:
            ops.append({"op": "insert_idle", "i": new_idle(1)})
        pl.append({"ops": ops})
    progs["s1"] = pl
    return {"id": sid, "tick_us": 2000, "sources": srcs, "progs": progs, "steps": steps}


def pat_faults(rnd, sid):
    """A (un/re)registration fails INSIDE a dispatch -- the one a post action or a deferred request performs -- while
    other sources (a due timer, a ping, another fd) have events in the same batch; later dispatches must still
    deliver everything that was not delivered."""
    r = rnd
    a = {"s": 1, "kind": "comp", "children": [{"interest": "r", "mode": r.choice(["level", "level", "edge", "oneshot"])}]}
    if r.random() < 0.4:
        a["life"] = 1
    srcs = [a]
    others = r.sample(["timer", "ping", "comp", "chan"], r.choice([1, 2, 3]))
    if "timer" not in others and r.random() < 0.6:
        others.append("timer")
    for k in others:
        d = {"s": len(srcs) + 1, "kind": k}
        if k == "timer":
            d["held"] = 1
            d["dl"] = 1
        if k == "comp":
            d["children"] = [{"interest": "r", "mode": "level"}]
        srcs.append(d)
    steps = [{"op": "insert", "s": d["s"]} for d in srcs]
    how = r.choice(["reregister", "reregister", "disable", "remove", "self_update", "self_disable"])
    call = {"reregister": "reregister", "self_update": "reregister", "disable": "unregister", "self_disable": "unregister",
            "remove": "unregister"}[how]
    for rnd_i in range(3):
        steps.append({"op": "wr", "s": 1, "c": 0})
        for d in srcs[1:]:
            if d["kind"] == "ping":
                steps.append({"op": "ping", "s": d["s"]})
            elif d["kind"] == "chan":
                steps.append({"op": "send", "s": d["s"], "m": 800 + rnd_i})
            elif d["kind"] == "comp":
                steps.append({"op": "wr", "s": d["s"], "c": 0})
        steps.append({"op": "advance", "k": rnd_i + 1})
        if rnd_i == 0 or r.random() < 0.3:
            steps.append({"op": "fault", "s": 1, "call": call})
        steps.append({"op": "dispatch"})
        if rnd_i == 0 and how in ("disable", "self_disable") and r.random() < 0.7:
            steps.append({"op": "enable", "ts": 1})
    steps += [{"op": "dispatch"}, {"op": "dispatch"}]
    progs = {}
    pl = []
    for k in range(4):
        ops = [{"op": "rd", "s": 1, "c": 0}]
        ret = "continue"
        if k == 0 or r.random() < 0.3:
            if how == "self_update":
                ops.append({"op": "update", "ts": 1})
            elif how == "self_disable":
                ops.append({"op": "disable", "ts": 1})
            else:
                ret = how
        pl.append({"ops": ops, "ret": ret})
    progs["s1"] = pl
    for d in srcs[1:]:
        if d["kind"] == "comp":
            progs["s%d" % d["s"]] = [{"ops": [{"op": "rd", "s": d["s"], "c": 0}], "ret": "continue"} for _ in range(5)]
        if d["kind"] == "timer":
            progs["s%d" % d["s"]] = [{"ops": [], "ret": r.choice(["drop", {"to": 2 + k}])} for k in range(5)]
    return {"id": sid, "tick_us": 2000, "sources": srcs, "progs": progs, "steps": steps}


def pat_exec(rnd, sid):
    """Executor histories: futures scheduled from outside, from the completion callback and from inside other futures,
    woken / completed between and during dispatches, with the executor disabled, re-enabled, removed (futures
    dropped, schedule() refused), kept by its Dispatcher and re-inserted; per-dispatch limits 1..3 or the real one."""
    r = rnd
    held = 1 if r.random() < 0.35 else 0
    srcs = [{"s": 1, "kind": "exec"}]
    if held:
        srcs[0]["held"] = 1
    if r.random() < 0.3:
        srcs[0]["life"] = 1
    other = r.choice([None, "ping", "timer", "exec"])
    if other:
        d = {"s": 2, "kind": other}
        if other == "timer":
            d["held"] = 1
            d["dl"] = 1
        srcs.append(d)
    execs = [d["s"] for d in srcs if d["kind"] == "exec"]
    steps = []
    progs = {}
    nf = [0]
    live = {e: [] for e in execs}        # futures believed pending, per executor
    state = {e: "new" for e in execs}

    def new_fut(e, depth=0):
        nf[0] += 1
        f = nf[0]
        pl = []
        for k in range(3):
            ops = []
            x = r.random()
            if depth < 2 and x < 0.2:
                ops.append({"op": "schedule", "s": e, "f": new_fut(e, depth + 1)})
            elif x < 0.3 and k > 0:
                ops.append({"op": "wake", "s": e, "f": f})            # wakes itself while being polled
            elif x < 0.4:
                ops.append({"op": "complete", "s": e, "f": f, "v": 1000 + f})
            elif x < 0.5 and live[e]:
                g = r.choice(live[e])
                ops.append({"op": r.choice(["wake", "complete"]), "s": e, "f": g, "v": 1000 + g})
            pl.append({"ops": ops})
        progs["f%d" % f] = pl
        live[e].append(f)
        return f
    if r.random() < 0.3:
        steps.append({"op": "schedule", "s": 1, "f": new_fut(1)})       # before the executor is inserted
    for d in srcs:
        steps.append({"op": "insert", "s": d["s"]})
        state[d["s"]] = "in"
    for rnd_i in range(r.choice([3, 4, 5, 6])):
        for _ in range(r.choice([1, 2, 3, 4])):
            e = r.choice(execs)
            x = r.random()
            if x < 0.35:
                steps.append({"op": "schedule", "s": e, "f": new_fut(e)})
            elif x < 0.6 and live[e]:
                f = r.choice(live[e])
                steps.append({"op": "complete", "s": e, "f": f, "v": 1000 + f})
            elif x < 0.8 and live[e]:
                steps.append({"op": "wake", "s": e, "f": r.choice(live[e])})
            elif x < 0.86 and state[e] == "in":
                steps.append({"op": "disable", "ts": e})
                state[e] = "dis"
            elif x < 0.92 and state[e] == "dis":
                steps.append({"op": "enable", "ts": e})
                state[e] = "in"
            elif x < 0.96 and state[e] in ("in", "dis") and rnd_i > 0:
                steps.append({"op": "remove", "ts": e})
                state[e] = "out"
                if held and e == 1 and r.random() < 0.7:
                    steps.append({"op": "into_inner", "s": 1})
                    steps.append({"op": "insert", "s": 1})
                    state[e] = "in"
            elif other == "ping":
                steps.append({"op": "ping", "s": 2})
        if other == "timer":
            steps.append({"op": "advance", "k": rnd_i + 1})
        steps.append({"op": "dispatch"})
    for e in execs:
        if state[e] == "dis":
            steps.append({"op": "enable", "ts": e})
    steps += [{"op": "dispatch"}] * 4
    # completion callbacks schedule follow-up futures
    for e in execs:
        pl = []
        for k in range(6):
            ops = []
            if r.random() < 0.45:
                ops.append({"op": "schedule", "s": e, "f": new_fut(e, 1)})
            if r.random() < 0.15 and live[e]:
                ops.append({"op": "wake", "s": e, "f": r.choice(live[e])})
            pl.append({"ops": ops})
        progs["s%d" % e] = pl
    if other == "timer":
        progs["s2"] = [{"ops": [], "ret": {"to": 2 + k}} for k in range(6)]
    scn = {"id": sid, "tick_us": 2000, "sources": srcs, "progs": progs, "steps": steps}
    if r.random() < 0.6:
        scn["limit"] = r.choice([1, 2, 3])
    return scn


def pat_dupfd(rnd, sid):
    """An fd changes hands: source A (kept by its Dispatcher) is removed, source B is inserted on the SAME fd, and only
    then A is released (Dispatcher dropped, or into_source_inner + drop).  A's late release must not touch B's
    registration; B keeps receiving events and the fd cannot be inserted a third time."""
    r = rnd
    srcs = [{"s": 1, "kind": "comp", "held": 1, "children": [{"interest": "r", "mode": r.choice(["level", "level", "edge"])}]},
            {"s": 2, "kind": "comp", "dupof": [1, 0], "interest": "r", "mode": r.choice(["level", "level", "oneshot"])},
            {"s": 3, "kind": "comp", "dupof": [1, 0], "interest": "r", "mode": "level"}]
    if r.random() < 0.5:
        srcs[1]["held"] = 1
    steps = [{"op": "insert", "s": 1}]
    if r.random() < 0.6:
        steps += [{"op": "wr", "s": 1, "c": 0}, {"op": "dispatch"}]
    steps.append({"op": "remove", "ts": 1})
    order = r.choice(["late", "late", "early"])
    release = r.choice([[{"op": "drop_held", "s": 1}], [{"op": "into_inner", "s": 1}, {"op": "drop_pending", "s": 1}],
                        [{"op": "into_inner", "s": 1}, {"op": "unwrap", "s": 1}]])
    if order == "early":
        steps += release
    steps.append({"op": "insert", "s": 2})
    if r.random() < 0.5:
        steps += [{"op": "wr", "s": 1, "c": 0}, {"op": "dispatch"}]
    if order == "late":
        steps += release
    steps += [{"op": "wr", "s": 1, "c": 0}, {"op": "dispatch"}]
    steps.append({"op": "insert", "s": 3})          # must fail: the fd is registered by B
    steps += [{"op": "wr", "s": 1, "c": 0}, {"op": "dispatch"}, {"op": "dispatch"}]
    progs = {"s%d" % k: [{"ops": [{"op": "rd", "s": 1, "c": 0}], "ret": "continue"} for _ in range(6)] for k in (1, 2, 3)}
    return {"id": sid, "tick_us": 2000, "sources": srcs, "progs": progs, "steps": steps}


def pat_chanfull(rnd, sid):
    """A bounded channel that is exactly full (and around it) when the loop gets to it: everything is delivered, and the
    dispatches that follow have nothing to do -- a timed one must wait for its whole timeout."""
    r = rnd
    cap = r.choice([1, 2, 3])
    srcs = [{"s": 1, "kind": "chan", "cap": cap}]
    if r.random() < 0.4:
        srcs.append({"s": 2, "kind": "ping"})
    steps = [{"op": "insert", "s": d["s"]} for d in srcs]
    m = 900
    for rnd_i in range(r.choice([1, 2, 3])):
        for _ in range(r.choice([cap, cap, cap - 1, cap + 1])):
            m += 1
            steps.append({"op": "send", "s": 1, "m": m})
        if len(srcs) > 1 and r.random() < 0.3:
            steps.append({"op": "ping", "s": 2})
        steps.append({"op": "dispatch"})
        steps.append({"op": "dispatch", "timeout": r.choice([3, 5]) * 2000})
    steps += [{"op": "dispatch"}, {"op": "dispatch", "timeout": 3 * 2000}]
    scn = {"id": sid, "tick_us": 2000, "sources": srcs, "progs": {}, "steps": steps}
    return scn


def pat_leak(rnd, sid):
    """A composite written with `?` (no rollback) fails at its SECOND registration step: the insertion is rejected while
    its first fd stays in the poller under the key of the slot it was given.  The source is handed back and kept.  What
    it left behind must never reach the source that gets the slot next."""
    r = rnd
    srcs = [{"s": 1, "kind": "comp", "norollback": 1,
             "children": [{"interest": "r", "mode": "level"}, {"interest": "r", "mode": "level"}]},
            {"s": 2, "kind": r.choice(["comp", "comp", "ping"])},
            {"s": 3, "kind": "ping"}]
    if srcs[1]["kind"] == "comp":
        srcs[1]["children"] = [{"interest": "r", "mode": r.choice(["level", "edge"])}]
    steps = []
    if r.random() < 0.5:
        steps.append({"op": "insert", "s": 3})          # the failing insertion does not always get slot 0
    steps += [{"op": "fault", "s": 1, "call": "child_register1"}, {"op": "insert", "s": 1}]
    if r.random() < 0.5:
        steps += [{"op": "wr", "s": 1, "c": 0}, {"op": "dispatch"}]
    steps.append({"op": "insert", "s": 2})
    steps += [{"op": "wr", "s": 1, "c": 0}, {"op": "dispatch"}, {"op": "dispatch"}]
    if srcs[1]["kind"] == "comp":
        steps += [{"op": "wr", "s": 2, "c": 0}, {"op": "dispatch"}]
    else:
        steps += [{"op": "ping", "s": 2}, {"op": "dispatch"}]
    steps.append({"op": "dispatch"})
    progs = {"s2": [{"ops": ([{"op": "rd", "s": 2, "c": 0}] if srcs[1]["kind"] == "comp" else []), "ret": "continue"} for _ in range(6)]}
    return {"id": sid, "tick_us": 2000, "sources": srcs, "progs": progs, "steps": steps}


def pat_many(rnd, sid):
    """More items at once than the per-dispatch limits of the real code (1024): everything is delivered in order over the
    following dispatches, nothing is stranded, the stream ends / the channel closes exactly once."""
    r = rnd
    kind = r.choice(["stream", "chan"])
    srcs = [{"s": 1, "kind": kind}]
    n = r.choice([1024, 1025, 1100, 2100])
    steps = [{"op": "insert", "s": 1}]
    if r.random() < 0.5:
        steps.append({"op": "dispatch"})
    steps.append({"op": "push_many" if kind == "stream" else "send_many", "s": 1, "m": 5000, "d": n})
    if r.random() < 0.5:
        steps.append({"op": "end_stream", "s": 1} if kind == "stream" else {"op": "drop_sender", "s": 1})
    steps += [{"op": "dispatch"}] * 4
    return {"id": sid, "tick_us": 2000, "sources": srcs, "progs": {}, "steps": steps}


def gen(seed, n, classes=None):
    classes = classes or CLASSES
    out = []
    for i in range(n):
        cls = classes[i % len(classes)]
        rnd = random.Random(seed * 1000003 + i)
        x = rnd.random()
        if x < 0.2 and cls in ("timers", "mix", "disable", "reuse", "ready", "post"):
            out.append(pat_batch(rnd, "b%d_%s_%d" % (seed, cls, i)))
        elif x < 0.4 and cls in ("reuse", "life", "mix", "faults", "fds", "idle"):
            out.append(pat_replace(rnd, "p%d_%s_%d" % (seed, cls, i), cls))
        elif 0.4 <= x < 0.55 and cls in ("post", "mix", "ready", "fds", "disable", "faults", "timers"):
            out.append(pat_defer(rnd, "d%d_%s_%d" % (seed, cls, i)))
        elif 0.8 <= x < 0.9 and cls in ("fds", "reuse"):
            out.append(pat_dupfd(rnd, "u%d_%s_%d" % (seed, cls, i)))
        elif 0.7 <= x < 0.76 and cls in ("chans", "streams"):
            out.append(pat_many(rnd, "n%d_%s_%d" % (seed, cls, i)))
        elif 0.4 <= x < 0.7 and cls == "chans":
            out.append(pat_chanfull(rnd, "q%d_%s_%d" % (seed, cls, i)))
        elif cls == "execs":
            out.append(pat_exec(rnd, "e%d_%s_%d" % (seed, cls, i)))
        elif 0.8 <= x < 0.9 and cls == "faults":
            out.append(pat_leak(rnd, "k%d_%s_%d" % (seed, cls, i)))
        elif 0.55 <= x < 0.8 and cls == "faults":
            out.append(pat_faults(rnd, "f%d_%s_%d" % (seed, cls, i)))
        elif 0.4 <= x < 0.7 and cls == "idle":
            out.append(pat_idles(rnd, "i%d_%s_%d" % (seed, cls, i)))
        elif 0.55 <= x < 0.8 and cls == "timers":
            out.append(pat_timers(rnd, "t%d_%s_%d" % (seed, cls, i)))
        else:
            out.append(G(rnd, cls).build("r%d_%s_%d" % (seed, cls, i)))
    return out


if __name__ == "__main__":
    seed = int(sys.argv[1]) if len(sys.argv) > 1 else 1
    n = int(sys.argv[2]) if len(sys.argv) > 2 else 50
    classes = sys.argv[3].split(",") if len(sys.argv) > 3 else None
    for s in gen(seed, n, classes):
        print(json.dumps(s))
