#!/usr/bin/env python3
"""./check selftest — demonstrates that the specifications are bound to the code and not vacuous:

1. every deliberately wrong variant of every model is flagged by TLC (the invariants can fail);
2. recorded traces of the real crate with ONE corrupted field are flagged by the trace validation
   (the monitors look at what the implementation did);
3. an execution with one hook observation removed is flagged as well;
4. the self-tests of the engine modules (transient, signals, token, timeout, asyncio).
"""
import json
import os
import shutil
import sys

import check


def _variants(work, failures):
    groups = {
        "MCLoopCore": ["var_o1", "var_o2", "var_o3", "var_o4", "var_o5", "var_o8", "var_chan_rearm", "var_exec_rearm", "var_exec_leak", "var_postact"],
        "MCPingProto": ["ping_var_noreset", "ping_var_close", "ping_var_marker"],
        "MCChanProto": ["chan_var_wake", "chan_var_rearm", "chan_var_droporder", "chan_kf_rendezvous"],
        "MCExecProto": ["exec_var_swap"],
        "MCSignalProto": ["sig_var_swap", "sig_var_notify", "sig_var_coalesce", "sig_var_pollstop"],
        "TimerPing": ["tping_var"],
    }
    n = 0
    for mod, cfgs in groups.items():
        for c in cfgs:
            r = check.tlc_model(mod, "mc/%s.cfg" % c, work, workers=4, timeout=300)
            n += 1
            if r["ok"]:
                failures.append("variant %s/%s is NOT flagged by TLC" % (mod, c))
            else:
                print("  variant %-28s flagged: %s" % (c, ",".join(r["violated"])))
    return n


CORE_SCN = {"id": "st", "sources": [{"s": 1, "kind": "ping"}, {"s": 2, "kind": "timer", "dl": 1, "held": 1},
                                    {"s": 3, "kind": "comp", "life": 1}],
            "steps": [{"op": "insert", "s": 1}, {"op": "insert", "s": 2}, {"op": "insert", "s": 3}, {"op": "ping", "s": 1},
                      {"op": "wr", "s": 3, "c": 0}, {"op": "advance", "k": 1}, {"op": "dispatch"}, {"op": "remove", "ts": 1},
                      {"op": "dispatch"}],
            "progs": {"s3": [{"ops": [{"op": "rd", "s": 3, "c": 0}], "ret": "continue"}]}}


def _record_core(work):
    scn = os.path.join(work, "st_scn.ndjson")
    tr = os.path.join(work, "st_trace.ndjson")
    open(scn, "w").write(json.dumps(CORE_SCN) + "\n")
    p = check.sh([check.BIN + "/drive_core", scn, tr], timeout=120)
    return [json.loads(l) for l in open(tr)]


def _verdict(spec, events, work, name):
    path = os.path.join(work, name + ".ndjson")
    with open(path, "w") as f:
        for e in events:
            f.write(json.dumps(e) + "\n")
    v, _, _ = check.tlc_trace(spec, path, work)
    return {(x["p"], x["c"]) for x in v["viol"]}


def _core_corruptions(work, failures):
    base = _record_core(work)
    clean = _verdict("LoopTrace", base, work, "st_clean")
    if clean:
        failures.append("clean core trace is flagged: %s" % sorted(clean))
    n = 0

    def expect(name, events, props):
        nonlocal n
        n += 1
        got = _verdict("LoopTrace", events, work, "st_" + name)
        hit = {p for p, _ in got} & set(props)
        if not hit:
            failures.append("corruption '%s' not flagged for %s (got %s)" % (name, props, sorted(got)))
        else:
            print("  corrupted trace %-34s flagged: %s" % (name, sorted(got)[:3]))

    # (a) a callback attributed to another (not yet ready) source
    ev = [dict(e) for e in base]
    for e in ev:
        if e["e"] == "cb" and e["s"] == 1:
            e["s"] = 3
            break
    expect("callback_of_other_source", ev, ["C01"])
    # (b) the timer's event payload one tick later than its deadline
    ev = [dict(e) for e in base]
    for e in ev:
        if e["e"] == "cb" and e["s"] == 2:
            e["p"] = e["p"] + 1000000
    expect("timer_payload_changed", ev, ["C05"])
    # (c) the kernel table keeps the fd of the removed ping source (edit the last snapshots)
    ev = [json.loads(json.dumps(e)) for e in base]
    first = next(e for e in ev if e["e"] == "snap" and e.get("epoll"))
    keep = first["epoll"][0]
    seen_remove = False
    for e in ev:
        if e["e"] == "op" and e.get("op") == "remove":
            seen_remove = True
        if seen_remove and e["e"] == "snap" and not e.get("gone"):
            e["epoll"] = [keep] + [x for x in e["epoll"] if x[0] != keep[0]]
    expect("stale_fd_in_kernel_table", ev, ["C16"])
    # (d) a hook observation removed: the before_sleep call of the lifecycle source
    ev = [e for e in base if not (e["e"] == "bs")]
    expect("before_sleep_event_removed", ev, ["C14"])
    # (e) the drop of the removed source never happened
    ev = [e for e in base if not (e["e"] == "drop_src" and e["s"] == 1)]
    expect("drop_of_removed_source_missing", ev, ["C06"])
    # (f) the loop applied another action than the source returned
    ev = [dict(e) for e in base]
    for e in ev:
        if e["e"] == "apply":
            e["act"] = "disable"
            break
    expect("applied_action_changed", ev, ["C09"])
    return n


def _conc_corruptions(work, failures):
    scn = {"id": "stc", "kind": "ping", "threads": {"1": ["ping", "ping"], "2": ["ping", "drop"]}, "loop": ["dispatch", "dispatch"],
           "schedule": [1, 1, 0, 0, 2, 0, 0, 0, 1, 2, 2], "idle_ms": 4}
    sp = os.path.join(work, "stc_scn.ndjson")
    tr = os.path.join(work, "stc_trace.ndjson")
    open(sp, "w").write(json.dumps(scn) + "\n")
    check.sh([check.BIN + "/drive_sched", sp, tr], timeout=120)
    base = [json.loads(l) for l in open(tr)]
    clean = _verdict("ConcTrace", base, work, "stc_clean")
    if clean:
        failures.append("clean ping trace is flagged: %s" % sorted(clean))
    # all callbacks removed: every returned ping is lost
    ev = [e for e in base if e["e"] != "cb"]
    got = _verdict("ConcTrace", ev, work, "stc_nocb")
    if not any(p == "C03" for p, _ in got):
        failures.append("ping trace without callbacks is not flagged")
    else:
        print("  corrupted trace %-34s flagged: %s" % ("ping_callbacks_removed", sorted(got)[:2]))
    # a callback duplicated inside one dispatch: not coalesced
    ev = []
    for e in base:
        ev.append(e)
        if e["e"] == "cb":
            ev.append(dict(e))
    got = _verdict("ConcTrace", ev, work, "stc_dupcb")
    if not any(p == "C03" for p, _ in got):
        failures.append("duplicated ping callback is not flagged")
    else:
        print("  corrupted trace %-34s flagged: %s" % ("ping_callback_duplicated", sorted(got)[:2]))
    return 2


def _hammer_corruptions(work, failures):
    """the summary events of drive_hammer: a clean run of every kind is accepted, one changed field is rejected"""
    kinds = [("chan", {"bound": -1}, "C04"), ("ping", {}, "C03"), ("exec", {}, "C10"), ("wakeup", {}, "C11"), ("pingdrop", {}, "C03"),
             ("chandrop", {}, "C04")]
    sp = os.path.join(work, "sth_scn.ndjson")
    tr = os.path.join(work, "sth_trace.ndjson")
    with open(sp, "w") as f:
        for k, extra, _ in kinds:
            f.write(json.dumps(dict({"id": "st_" + k, "kind": k, "rounds": 2000}, **extra)) + "\n")
    check.sh([check.BIN + "/drive_hammer", sp, tr], timeout=300)
    base = [json.loads(l) for l in open(tr)]
    clean = _verdict("ChanHammerTrace", base, work, "sth_clean")
    if clean:
        failures.append("clean hammer trace is flagged: %s" % sorted(clean))
    n = 1
    for (k, _, prop), e in zip(kinds, base):
        bad = dict(e, stranded_round=7)
        got = _verdict("ChanHammerTrace", [bad], work, "sth_" + k)
        n += 1
        if not any(p == prop for p, _ in got):
            failures.append("hammer summary of kind %s with a stranded round is not flagged for %s" % (k, prop))
        else:
            print("  corrupted trace %-34s flagged: %s" % ("hammer_%s_stranded" % k, sorted(got)[:2]))
    return n


def main():
    work = check.ROOT + "/work/selftest_%d" % os.getpid()
    shutil.rmtree(work, ignore_errors=True)
    os.makedirs(work)
    failures = []
    try:
        check.build_harness()
        print("[selftest] model variants")
        n = _variants(work, failures)
        print("[selftest] corrupted core traces")
        n += _core_corruptions(work, failures)
        print("[selftest] corrupted concurrent traces")
        n += _conc_corruptions(work, failures)
        print("[selftest] corrupted hammer summaries")
        n += _hammer_corruptions(work, failures)
        import importlib
        for name in ("engine_transient", "engine_signals", "engine_token", "engine_timeout", "engine_asyncio"):
            if not os.path.exists("%s/tools/%s.py" % (check.ROOT, name)):
                continue
            mod = importlib.import_module(name)
            tests = getattr(mod, "SELFTEST", [])
            print("[selftest] %s: %d entries" % (name, len(tests)))
            for desc, fn in tests:
                n += 1
                try:
                    os.makedirs(os.path.join(work, name), exist_ok=True)
                    try:
                        ok = fn(os.path.join(work, name))
                    except TypeError:
                        ok = fn()
                    if ok is False:
                        failures.append("%s: %s" % (name, desc))
                except AssertionError as e:
                    failures.append("%s: %s (%s)" % (name, desc, e))
        print("[selftest] %d demonstrations, %d failures" % (n, len(failures)))
        for f in failures:
            print("SELFTEST-FAILURE:", f)
        return 1 if failures else 0
    finally:
        shutil.rmtree(work, ignore_errors=True)


if __name__ == "__main__":
    sys.exit(main())
