#!/usr/bin/env python3
"""verdict.py: read TLC output on stdin, print violations grouped by scenario"""
import sys, json, re, collections
txt = sys.stdin.read()
m = re.search(r'<<"VERDICT", "(.*)">>', txt)
if not m:
    print(txt[-3000:]); sys.exit(2)
v = json.loads(m.group(1).encode().decode('unicode_escape'))
by = collections.OrderedDict()
for x in sorted(v["viol"], key=lambda x: x["l"]):
    by.setdefault(x["scn"], []).append("%s:%s@%d" % (x["p"], x["c"], x["l"]))
print("events", v["n"], "scenarios", v["scenarios"], "violating scenarios", len(by))
for k, xs in by.items():
    print(k, " ".join(xs[:8]), "..." if len(xs) > 8 else "")
