#!/usr/bin/env python3
"""Engine `timeout` -- decides property C12 (dispatch() waits exactly as long as it should: no spinning, no oversleeping).

WHAT COMES FROM THE TLA+ SPECIFICATION, WHAT IS ORDINARY MEASUREMENT
  spec/Timeout.tla contributes
    * the configuration space of the quantifier: timeout in {0, S=30ms, L=300ms, None} x sets of armed timers (already
      expired, < S, = S, between, = L, > L, unrepresentably far) x idle sources of every kind (idle ping, ping whose handles
      are gone, channel whose senders are gone, idle executor, not-ready generic, disabled-but-ready generic, lifecycle
      source with a synthetic event) x external wake-up (none / LoopSignal::wakeup / Ping::ping at 60 ms) x EINTR at 5 ms;
    * the oracle: SpecWait (the effective wait W = Min over the candidates, None = Infinity), SpecFire (the timers that must
      fire), SpecCbs / SpecRemoved (one-off events delivered, sources gone) and SpecAfter (a second dispatch blocks again);
    * a code-shaped model of the dispatch (before_sleep loop, Poll::poll's min / or / saturating_duration_since, polling's
      wait with its EINTR loop, the timer pop, process_events of each source) which TLC checks EXHAUSTIVELY to be equal to
      the oracle for every configuration (mc/timeout_q.cfg: the 2640 configurations that are replayed; thorough:
      mc/timeout_t.cfg, every subset of timers x every subset of sources, ~229 000 configurations), and 9 variant
      configurations (plausible mistakes) that TLC must flag.
  The binding to the real crate is ordinary wall-clock measurement: harness/src/bin/drive_timeout.rs builds each enumerated
  configuration with the real EventLoop / sources / timers, measures two consecutive dispatch() calls with
  std::time::Instant and logs raw numbers; spec/TimeoutTrace.tla evaluates the oracle on each record and applies the
  tolerances (EpsLo = 1 ms below; above: Slack = 150 ms, and Tight = 20 ms which only counts when exceeded in every
  re-measurement).  TLA+ supplies the expected values, not the clock.

ROBUSTNESS AGAINST LOAD
  Configurations are measured serially by one driver process (no parallel measurement).  Lower-bound clauses (early
  return, spinning second dispatch, a due timer not fired, ...) cannot be caused by load and count at once.  Upper-bound
  clauses (LOAD_SENSITIVE) are re-measured up to RETRIES more times and count only if EVERY measurement shows an
  upper-bound clause (RETRIES_TIGHT times when only the 20 ms bound is exceeded): a one-off overshoot is never a violation.
  The 20 ms bound (a sharpening of the property's 150 ms "scheduling latency") is judged only in a batch in which the
  machine is measurably quiet: the driver times a 1 ms poll(2) before every configuration, and when the 95th percentile of
  that control wait's lateness exceeds NOISE_GATE_US the clauses oversleep_tight / second_oversleep_tight are dropped.
  The quick tier also bounds its own duration on a loaded machine: the driver starts no new configuration after
  QUICK_WALL_S seconds (the configurations are ordered core first) and no re-measurement round after QUICK_DEADLINE_S;
  the engine says how many configurations were measured and how many overshoots were left undecided (never a verdict).

quick: TLC on timeout_q.cfg + a representative subset of the configurations (nominal waiting time <= QUICK_BUDGET_S).
thorough: + TLC on timeout_t.cfg + the variant cfgs + ALL replayable configurations, and all of them once more at a second
scale whose durations are not whole milliseconds (S = 12.7 ms, L = 120.3 ms).
"""
import collections
import json
import os
import random
import re
import shutil
import time

import check

PROP = "C12"
RETRIES = 3                    # re-measurements of a configuration that overshoots W + Slack
RETRIES_TIGHT = 5              # ... of one that only overshoots W + Tight
NOISE_GATE_US = 5000           # the 20 ms bound is only judged in a batch whose control waits (1 ms poll(2) by the same thread,
                               # one per configuration) wake up less than this late at the 95th percentile
QUICK_DEADLINE_S = 48.0        # quick tier: no re-measurement round starts after this much time since the engine began
QUICK_WALL_S = 30.0            # quick tier: the driver starts no new configuration after this much wall-clock time
GUARD_US = 1500000
QUICK_BUDGET_S = 27.0          # nominal waiting time of the quick subset (sum of W + W2), plus ~3 ms overhead each
LOAD_SENSITIVE = {"oversleep", "oversleep_tight", "zero_timeout_blocked", "blocked_until_guard", "second_oversleep", "second_oversleep_tight"}
TIGHT_ONLY = {"oversleep_tight", "second_oversleep_tight"}
INVS = ("Inv_C12_Wait", "Inv_C12_Fire", "Inv_C12_Second", "Inv_C12_Oracle", "TypeOK")
VARIANT_CFGS = {        # cfg suffix -> the mistake it switches on
    "max": "max_instead_of_min", "none": "none_ignores_timers", "synth": "synthetic_not_forced", "pop": "pop_strict",
    "eintr": "eintr_restarts_timeout", "far": "far_saturates_to_now", "disabled": "disabled_still_polled",
    "closedping": "closed_ping_stays", "chan": "chan_closed_renotifies", "bsnow": "deadline_from_dispatch_start",
}
TO_NAME = {0: "0", 30: "S", 300: "L", -1: "None"}


# ------------------------------------------------------------------------------------- configurations
def parse_cfgs(out):
    for m in re.finditer(r'<<"CFG", "(.*)">>', out):
        try:
            yield json.loads(json.loads('"' + m.group(1) + '"'))
        except Exception:
            continue


def scenario_of(c):
    """one exported configuration (milliseconds, -1 = Infinity) -> scenario line of drive_timeout (microseconds)"""
    tms = sorted(c["tm"], key=lambda t: (t["d"] if t["d"] >= 0 or t["n"] == "neg" else 10 ** 9, t["n"]))
    sid = "to%s_t[%s]_s[%s]_w%s_i%d" % (TO_NAME.get(c["to"], str(c["to"])), "+".join(t["n"] for t in tms) or "-",
                                       "ALL" if len(c["src"]) == 8 else "+".join(sorted(c["src"])) or "-", c["wake"], c["intr"])
    return {"id": sid, "to_us": -1 if c["to"] < 0 else c["to"] * 1000,
            "timers": [{"n": t["n"], "d_us": 0 if t["n"] == "far" else t["d"] * 1000, "far": 1 if t["n"] == "far" else 0} for t in tms],
            "src": sorted(c["src"]), "wake": c["wake"], "wk_us": c["wk"] * 1000, "intr": c["intr"], "ik_us": c["ik"] * 1000,
            "s2_us": c["s2"] * 1000, "guard_us": GUARD_US, "bs_us": c.get("bs", 0) * 1000 or 50000,
            "exp": {"W_ms": c["W"], "fire": sorted(c["fire"]), "cbs": sorted(c["cbs"]), "removed": sorted(c["removed"]),
                    "W2_ms": c["W2"], "fire2": sorted(c["fire2"])}}


# a second scale for the thorough tier: the same configurations (the oracle only depends on the ORDER of the values) with
# durations that are not whole milliseconds -- a wait rounded down to a millisecond would end before the deadline and the
# limiting timer would not fire in that dispatch (a decisive clause, no tolerance involved)
ODD_US = {0: 0, -5: -1900, 5: 2100, 10: 4200, 30: 12700, 50: 20300, 60: 24500, 100: 40900, 300: 120300, 400: 160100}


def rescale(s):
    t = json.loads(json.dumps(s))
    t["id"] = s["id"] + "@odd"
    for k in ("to_us", "wk_us", "ik_us", "s2_us", "bs_us"):
        if t[k] >= 0:
            t[k] = ODD_US[t[k] // 1000]
    for tm in t["timers"]:
        if not tm["far"]:
            tm["d_us"] = ODD_US[tm["d_us"] // 1000]
    t["exp"]["scale"] = "exp.W_ms / W2_ms are in the nominal scale (S = 30, L = 300); this scenario runs S = 12.7 ms, L = 120.3 ms"
    return t


def bundled(s):
    """the same configuration with every timer twinned (same deadline) and all of them inside ONE composite event source
    that forwards each event to all its timers -- sub-sources see each other's tokens (the oracle is unchanged: it only
    depends on names and deadlines, the twins are in the echoed configuration)"""
    t = json.loads(json.dumps(s))
    t["id"] = s["id"] + "@bundle"
    t["bundle"] = 1
    t["timers"] = [x for tm in s["timers"] for x in (tm, dict(tm, n=tm["n"] + "2"))]
    t["exp"]["fire"] = sorted(s["exp"]["fire"] + [n + "2" for n in s["exp"]["fire"]])
    t["exp"]["fire2"] = sorted(s["exp"]["fire2"] + [n + "2" for n in s["exp"]["fire2"]])
    return t


def cost_s(s):
    return (s["exp"]["W_ms"] + s["exp"]["W2_ms"] + 3) / 1000.0


def nontrivial(s):
    return bool(s["timers"] or s["src"] or s["wake"] != "none" or s["intr"])


def quick_subset(scns, seed, budget=QUICK_BUDGET_S):
    """a representative subset: a fixed core (every timeout x every timer set without sources; every source kind; wake-ups;
    EINTR) and a seeded random fill up to the time budget"""
    def tn(s):
        return tuple(t["n"] for t in s["timers"])
    small = {(), ("lt",), ("mid",), ("gt",), ("far",), ("eqS",), ("neg",)}
    core, rest = [], []
    for s in scns:
        plain = s["wake"] == "none" and not s["intr"]
        if plain and not s["src"]:
            core.append(s)                                                   # timeout x timers: the heart of C12
        elif plain and tn(s) in {(), ("mid",)}:
            core.append(s)                                                   # every source kind, alone and all together
        elif s["wake"] != "none" and s["to_us"] in (-1, 300000) and tn(s) in small and len(s["src"]) in (0, 1, 8):
            core.append(s)
        elif s["intr"] and tn(s) in small:
            core.append(s)
        else:
            rest.append(s)
    rnd = random.Random(seed * 2654435761 % (2 ** 32) + 12)
    rnd.shuffle(core)
    rnd.shuffle(rest)
    out, spent = [], 0.0
    for s in core + rest:
        if spent + cost_s(s) > budget:
            continue
        out.append(s)
        spent += cost_s(s)
    return out, spent, len(core)


# ------------------------------------------------------------------------------------------ model runs
def _model_violation(bad, cfg, out, res):
    os.makedirs(check.ROOT + "/replays", exist_ok=True)
    cex = "%s/replays/%s_model_%s.txt" % (check.ROOT, PROP, re.sub(r"[^A-Za-z0-9_]", "_", os.path.basename(cfg)))
    open(cex, "w").write(out[-200000:])
    res.viol.append({"prop": PROP, "scn": "model:" + cfg, "clauses": ["model:" + ",".join(sorted(set(bad)))], "replay": cex, "first_line": 0})


def run_model(cfg, work, res, workers, timeout):
    r = check.tlc_model("Timeout", cfg, work, workers=workers, timeout=timeout)
    res.cmds.append("tlc -config %s Timeout.tla" % cfg)
    res.states += r["distinct"]
    res.transitions += r["generated"]
    if not r["ok"]:
        _model_violation(r["violated"], cfg, r["out"], res)
    res.notes.append("TLC %s: %d distinct states, %d generated, %s" % (
        cfg, r["distinct"], r["generated"], "code-shaped dispatch = oracle for every configuration" if r["ok"] else "VIOLATED " + ",".join(r["violated"])))
    return r


def check_variants(work, res):
    for name, var in VARIANT_CFGS.items():
        r = check.tlc_model("Timeout", "mc/timeout_var_%s.cfg" % name, work, workers=4, timeout=300)
        if r["ok"] or not any(v.startswith("Inv_C12") for v in r["violated"]):
            raise check.ToolError("variant %s (%s) is not flagged by TLC: Inv_C12 is vacuous for it" % (name, var))
        res.notes.append("variant %s flagged by TLC (%s)" % (var, ",".join(r["violated"])))


# ------------------------------------------------------------------------------------ measure + validate
def run_driver(scns, work, tag, max_wall_s=None):
    scn_path = os.path.join(work, tag + "_scn.ndjson")
    tr_path = os.path.join(work, tag + "_trace.ndjson")
    with open(scn_path, "w") as f:
        for s in scns:
            f.write(json.dumps(s) + "\n")
    budget = 120 + 3 * sum(cost_s(s) for s in scns) + len(scns) * 2 * GUARD_US / 1e6 * 0.05
    cmd = [check.BIN + "/drive_timeout", scn_path, tr_path] + ([str(int(max_wall_s * 1000))] if max_wall_s else [])
    p = check.sh(cmd, timeout=budget, check=False)
    if p.returncode != 0:
        raise check.ToolError("drive_timeout failed (%d):\n%s" % (p.returncode, p.stdout[-3000:]))
    return tr_path


def read_trace(tr_path):
    """scenario id -> (first line, last line, [events])"""
    spans = collections.OrderedDict()
    cur = None
    with open(tr_path) as f:
        for i, line in enumerate(f, 1):
            ev = json.loads(line)
            if ev["e"] == "reset":
                cur = ev["id"]
                spans[cur] = [i, i, []]
            if cur is not None:
                spans[cur][1] = i
                spans[cur][2].append((line.rstrip("\n"), ev))
    return spans


def control_p95(tr_path):
    """95th percentile of the control waits' lateness in this batch (microseconds): the machine's scheduling latency"""
    xs = sorted(json.loads(line).get("ctl_over_us", 0) for line in open(tr_path) if '"e":"reset"' in line)
    return xs[min(len(xs) - 1, int(0.95 * len(xs)))] if xs else 0


def validate_trace(tr_path, work, res, stats=None):
    """TLC verdict of one trace file: scenario id -> list of verdict entries with p == C12.  The sharper upper bound
    (TIGHT_ONLY clauses) is only judged when the batch's control waits show a quiet machine."""
    verdict, g, d = check.tlc_trace("TimeoutTrace", tr_path, work, timeout=1500)
    res.states += d
    res.transitions += g
    p95 = control_p95(tr_path)
    noisy = p95 > NOISE_GATE_US
    per = collections.OrderedDict()
    dropped = 0
    for v in sorted(verdict["viol"], key=lambda v: v["l"]):
        if v["p"] != PROP:
            continue
        if noisy and v["c"] in TIGHT_ONLY:
            dropped += 1
            continue
        per.setdefault(v["scn"], []).append(v)
    if stats is not None:
        stats.setdefault("ctl_p95", []).append(p95)
        stats["tight_not_judged"] = stats.get("tight_not_judged", 0) + dropped
    return verdict, per


def margins(spans):
    """what the raw numbers say (reported, not judged here): smallest (elapsed - expected wait) and largest overshoot, in
    microseconds, over all measured dispatches; the expected wait is recomputed here from the raw record"""
    lo, hi, n = None, None, 0
    for sid, (_, _, evs) in spans.items():
        cf = evs[0][1]
        armed = {t["n"]: t["d_us"] for t in cf["timers"] if not t["far"]}
        pending = bool(set(cf["src"]) & {"ping_closed", "chan_closed", "life_synth"})
        gone = set()
        for _, ev in evs[1:]:
            if ev.get("e") != "d" or ev.get("r") != "ok":
                continue
            if ev["k"] == 1:
                acts = [a for a in ev["acts"] if a["a"] in ("signal", "ping")]
                cand = [max(0, d) for d in armed.values()] + ([0] if pending else []) + ([cf["to_us"]] if cf["to_us"] >= 0 else [])
                wlo = min(cand + [a["b_us"] for a in acts])
                whi = min(cand + [a["a_us"] for a in acts]) + ev["start_us"]
                lom, him = ev["end_us"] - wlo, ev["end_us"] - whi
                gone |= {f["n"] for f in ev["fired"]} | {f["n"] for f in ev["drain_fired"]}
            else:
                w = min([cf["s2_us"]] + [max(0, d - ev["start_us"]) for nme, d in armed.items() if nme not in gone])
                lom = him = ev["end_us"] - ev["start_us"] - w
            n += 1
            lo = lom if lo is None else min(lo, lom)
            hi = him if hi is None else max(hi, him)
    return lo, hi, n


def write_replay(scn_obj, measurements, viols, decided):
    os.makedirs(check.ROOT + "/replays", exist_ok=True)
    path = "%s/replays/%s_%s.json" % (check.ROOT, PROP, re.sub(r"[^A-Za-z0-9_]", "_", str(scn_obj.get("id", "x"))))
    json.dump({"property": PROP, "engine": "timeout", "scenario": scn_obj, "violations": viols, "decided": decided,
               "trace": measurements[0], "remeasured": measurements[1:], "trace_first_line": 1,
               "how": "./check C12 --replay <this file>   (drive_timeout + TimeoutTrace.tla, with re-measurement of overshoots)"},
              open(path, "w"), indent=0)
    return path


def judge(scns, work, tag, res, measure=None, retries=RETRIES, retries_tight=None, allow_prefix=False, max_wall_s=None, deadline=None):
    """measure the scenarios (serially), validate with TLC, re-measure the ones that only show load-sensitive clauses;
    appends violations to res; returns statistics.  `measure(scns, tag) -> trace path` can be injected (selftest)."""
    measure = measure or (lambda ss, t, wall=None: run_driver(ss, work, t, wall))
    retries_tight = max(retries, RETRIES_TIGHT if retries_tight is None else retries_tight)
    byid = {s["id"]: s for s in scns}
    tr_path = measure(scns, tag, max_wall_s) if max_wall_s else measure(scns, tag)
    spans = read_trace(tr_path)
    ids = [s["id"] for s in scns]
    if list(spans) != ids[:len(spans)] or (len(spans) != len(ids) and not allow_prefix) or not spans:
        raise check.ToolError("drive_timeout logged %d scenarios, %d expected" % (len(spans), len(scns)))
    scns = scns[:len(spans)]             # (quick tier: the driver stops starting configurations at its wall-clock budget)
    stats = {}
    verdict, per = validate_trace(tr_path, work, res, stats)
    if verdict["n"] != sum(b - a + 1 for a, b, _ in spans.values()):
        raise check.ToolError("TimeoutTrace consumed %d of the trace's events" % verdict["n"])
    res.traces += verdict["scenarios"]
    res.evaluations += len(scns)
    res.nontrivial |= {s["id"] for s in scns if nontrivial(s)}
    stats.update({"margins": margins(spans), "measured": len(scns), "remeasured": 0, "cleared": 0,
                  "dispatches": sum(len(e) - 1 for _, _, e in spans.values())})

    history = {sid: [([ln for ln, _ in spans[sid][2]], vs)] for sid, vs in per.items()}
    pending = [sid for sid, vs in per.items() if {v["c"] for v in vs} <= LOAD_SENSITIVE]
    for attempt in range(1, max(retries, retries_tight) + 1):
        if not pending:
            break
        if deadline and time.time() > deadline:       # (quick tier on an overloaded machine: bounded duration, no verdict)
            res.notes.append("%d configuration(s) left UNDECIDED at the tier's time budget: an upper-bound clause in each of the %d "
                             "measurement(s) taken, fewer than the %d needed for a verdict: %s" % (
                                 len(pending), attempt, retries + 1, "; ".join(pending[:4])))
            break
        time.sleep(min(1.0 * attempt, 4.0))          # let a burst of load pass
        again = [byid[sid] for sid in pending]
        tr2 = measure(again, "%s_re%d" % (tag, attempt))
        spans2 = read_trace(tr2)
        _, per2 = validate_trace(tr2, work, res, stats)
        stats["remeasured"] += len(again)
        still = []
        for sid in pending:
            vs = per2.get(sid, [])
            history[sid].append(([ln for ln, _ in spans2[sid][2]], vs))
            cl = {v["c"] for v in vs}
            # overshoot again: measure once more -- beyond `retries` only if all that is left is the tight bound
            if vs and cl <= LOAD_SENSITIVE and (attempt < retries or (cl <= TIGHT_ONLY and attempt < retries_tight)):
                still.append(sid)
            # a clean re-measurement clears it; a decisive clause in a re-measurement is judged below
        pending = still

    cleared = []
    for sid, hist in history.items():
        sets = [{v["c"] for v in vs} for _, vs in hist]
        decisive = sorted({c for cs in sets for c in cs if c not in LOAD_SENSITIVE})
        flagged = sum(1 for cs in sets if cs)
        if decisive:
            decided = "a lower-bound / delivery clause (%s) in measurement %d of %d" % (
                ",".join(decisive), next(i for i, cs in enumerate(sets, 1) if cs - LOAD_SENSITIVE), len(hist))
        elif flagged == len(hist) and len(hist) >= retries + 1:      # (re-measuring only stops early after a clean measurement)
            decided = "an upper-bound clause in every one of %d measurements" % len(hist)
        else:
            if flagged == len(hist):
                continue                                   # undecided at the time budget (noted above): neither cleared nor reported
            stats["cleared"] += 1
            cleared.append("%s: %s in %d of %d measurements" % (sid, ",".join(sorted({c for cs in sets for c in cs})), flagged, len(hist)))
            continue
        clauses = sorted({c for cs in sets for c in cs})
        allv = [v for _, vs in hist for v in vs]
        rp = write_replay(byid[sid], [m for m, _ in hist], allv, decided)
        first = next(v for _, vs in hist for v in vs)
        res.viol.append({"prop": PROP, "scn": sid, "clauses": clauses, "replay": rp, "first_line": max(0, first["l"] - spans[sid][0])})
    if stats.get("tight_not_judged"):
        res.notes.append("the machine is loaded (control waits: 95th percentile of the wake-up latency %d us > %d us): %d overshoot(s) between "
                         "W + 20 ms and W + 150 ms were not judged; the 150 ms bound was" % (max(stats["ctl_p95"]), NOISE_GATE_US, stats["tight_not_judged"]))
    if cleared:
        res.notes.append("%d configuration(s) overshot an upper bound but not in every re-measurement (scheduling noise on a loaded machine, "
                         "not a violation), e.g. %s" % (len(cleared), "; ".join(cleared[:4])))
    return stats


# ----------------------------------------------------------------------------------------------- engine
def engine(prop, tier, seed, work):
    assert prop == PROP
    res = check.Result()
    quick = tier == "quick"
    began = time.time()

    # 1. exhaustive: code-shaped dispatch = oracle, for every configuration; the same run exports the scenario list
    r = run_model("mc/timeout_q.cfg", work, res, workers=4, timeout=300)
    scns = [scenario_of(c) for c in parse_cfgs(r["out"])]
    if len({s["id"] for s in scns}) != len(scns) or not scns:
        raise check.ToolError("TLC exported %d configurations, %d distinct ids" % (len(scns), len({s["id"] for s in scns})))
    replayable = [s for s in scns if s["exp"]["W_ms"] >= 0]
    scns.sort(key=lambda s: s["id"])
    replayable.sort(key=lambda s: s["id"])
    if not quick:
        run_model("mc/timeout_t.cfg", work, res, workers=16, timeout=1500)
        check_variants(work, res)

    # 2. the configurations, measured on the real crate, serially
    if quick:
        todo, spent, ncore = quick_subset(replayable, seed)
        res.notes.append("quick subset: %d of %d replayable configurations (%d core + seeded fill), nominal waiting time %.1f s" % (
            len(todo), len(replayable), min(ncore, len(todo)), spent))
    else:
        todo = list(replayable)
        random.Random(seed).shuffle(todo)
    t0 = time.time()
    stats = judge(todo, work, "cfg", res, allow_prefix=quick, max_wall_s=QUICK_WALL_S if quick else None,
                  deadline=began + QUICK_DEADLINE_S if quick else None)
    if stats["measured"] < len(todo):
        res.notes.append("the machine is loaded: the driver reached its wall-clock budget (%.0f s) after %d of the %d configurations "
                         "of the quick subset" % (QUICK_WALL_S, stats["measured"], len(todo)))
        todo = todo[:stats["measured"]]
    lo, hi, n = stats["margins"]
    res.cmds.append("drive_timeout cfg_scn.ndjson cfg_trace.ndjson && TRACE=cfg_trace.ndjson tlc -config TimeoutTrace.cfg TimeoutTrace.tla")
    res.notes.append("measured %d configurations (%d dispatch() calls) serially in %.1f s; %d of the model's %d configurations wait forever "
                     "(no wake-up) and are not replayable; over %d judged waits: smallest (elapsed - W) = %s us, largest overshoot = %s us "
                     "(EpsLo 1000 us, Tight 20000 us if exceeded in all 6 measurements, Slack 150000 us); control waits: 95th percentile of the "
                     "wake-up latency %d us; %d re-measurements, %d one-off overshoots cleared" % (
                         len(todo), stats["dispatches"], time.time() - t0, len(scns) - len(replayable), len(scns), n, lo, hi,
                         stats["ctl_p95"][0], stats["remeasured"], stats["cleared"]))
    for s in (todo[0], todo[len(todo) // 2], todo[-1]):
        res.samples.append({"engine": "timeout", "scenario": s})
    # timers as sub-sources of one forwarding composite (twinned deadlines: two expirations in one poll)
    cand = [s for s in todo if any(not t["far"] for t in s["timers"]) and s["wake"] == "none" and not s["intr"]]
    bl, spent = [], 0.0
    for s in cand:
        if quick and spent + cost_s(s) > 4.0:
            continue
        bl.append(bundled(s))
        spent += cost_s(s)
    if bl and (not quick or time.time() < began + QUICK_DEADLINE_S):
        t0 = time.time()
        stats = judge(bl, work, "bundle", res, allow_prefix=quick, max_wall_s=8.0 if quick else None,
                      deadline=began + QUICK_DEADLINE_S + 10 if quick else None)
        res.notes.append("timers bundled in one forwarding composite source, every deadline twice: %d configurations measured in %.1f s" % (
            stats["measured"], time.time() - t0))
        res.samples.append({"engine": "timeout", "scenario": bl[0]})
    if not quick:
        odd = [rescale(s) for s in todo]
        t0 = time.time()
        stats = judge(odd, work, "odd", res)
        lo, hi, n = stats["margins"]
        res.notes.append("second scale (S = 12.7 ms, L = 120.3 ms, deadlines 4.2 / 40.9 / 160.1 ms: no whole milliseconds): %d configurations "
                         "measured in %.1f s; smallest (elapsed - W) = %s us, largest overshoot = %s us; %d re-measurements, %d cleared" % (
                             len(odd), time.time() - t0, lo, hi, stats["remeasured"], stats["cleared"]))
        res.samples.append({"engine": "timeout", "scenario": odd[1]})
    return res


def replay(prop, rp, work):
    """re-measure the configuration of a replay file on the current tree and judge it again"""
    res = check.Result()
    judge([rp["scenario"]], work, "replay", res)
    return res


# --------------------------------------------------------------------------------------------- selftest
_ST_IDS = ("toS_t[eqS]_s[-]_wnone_i0", "toL_t[lt+mid]_s[ALL]_wnone_i0", "toNone_t[-]_s[ping_live]_wping_i0", "to0_t[neg+far]_s[gen_disabled]_wnone_i0")


def _own(work, name):
    own = work is None
    if own:
        work = "%s/work/selftest_timeout_%s_%d" % (check.ROOT, name, os.getpid())
    os.makedirs(work, exist_ok=True)
    return own, work


def _st_scns(work):
    r = check.tlc_model("Timeout", "mc/timeout_q.cfg", work, workers=4, timeout=300)
    allc = {s["id"]: s for s in (scenario_of(c) for c in parse_cfgs(r["out"]))}
    return [allc[i] for i in _ST_IDS]


def _st_trace(name, pick, mutate, want):
    """record a clean trace, corrupt one field of the first matching record, expect the clauses `want`"""
    def run(work=None):
        own, work = _own(work, name)
        try:
            scns = _st_scns(work)
            tr = run_driver(scns, work, "st_" + name)
            dummy = check.Result()
            _, per = validate_trace(tr, work, dummy)
            assert not per, "the uncorrupted trace is already flagged: %s" % per
            lines = open(tr).read().splitlines()
            done = False
            for i, line in enumerate(lines):
                ev = json.loads(line)
                if not done and ev.get("e") == "d" and pick(ev):
                    mutate(ev)
                    lines[i] = json.dumps(ev, separators=(",", ":"))
                    done = True
            assert done, "no record to corrupt"
            bad = os.path.join(work, "st_%s_bad.ndjson" % name)
            open(bad, "w").write("\n".join(lines) + "\n")
            _, per = validate_trace(bad, work, dummy)
            got = {v["c"] for vs in per.values() for v in vs}
            assert want <= got, "corruption %s: expected clauses %s, got %s" % (name, sorted(want), sorted(got))
            return True
        finally:
            if own:
                shutil.rmtree(work, ignore_errors=True)
    return run


def _st_variant(name):
    def run(work=None):
        own, work = _own(work, "var_" + name)
        try:
            r = check.tlc_model("Timeout", "mc/timeout_var_%s.cfg" % name, work, workers=4, timeout=300)
            assert not r["ok"] and any(v.startswith("Inv_C12") for v in r["violated"]), \
                "variant %s: TLC did not report Inv_C12_* violated (%s)" % (name, r["violated"])
            return True
        finally:
            if own:
                shutil.rmtree(work, ignore_errors=True)
    return run


def _st_retry(always):
    """the re-measurement policy: an overshoot in the first measurement only is cleared; one in every measurement counts"""
    def run(work=None):
        own, work = _own(work, "retry%d" % always)
        try:
            scns = _st_scns(work)[:1]
            calls = []

            def measure(ss, tag):
                tr = run_driver(ss, work, tag)
                if always or not calls:
                    lines = open(tr).read().splitlines()
                    for i, line in enumerate(lines):
                        ev = json.loads(line)
                        if ev.get("e") == "d" and ev["k"] == 1:
                            ev["end_us"] += 400000
                            lines[i] = json.dumps(ev, separators=(",", ":"))
                    open(tr, "w").write("\n".join(lines) + "\n")
                calls.append(tag)
                return tr
            res = check.Result()
            judge(scns, work, "st_retry", res, measure=measure)
            for v in res.viol:
                try:
                    os.remove(v["replay"])
                except OSError:
                    pass
            if always:
                assert len(calls) == RETRIES + 1 and res.viol and "oversleep" in res.viol[0]["clauses"], (calls, res.viol)
            else:
                assert len(calls) == 2 and not res.viol, (calls, res.viol)
            return True
        finally:
            if own:
                shutil.rmtree(work, ignore_errors=True)
    return run


def _upd(**kw):
    def f(ev):
        ev.update(kw)
    return f


SELFTEST = [
    ("C12 trace: first dispatch's end 5 ms before the limit -> early_return",
     _st_trace("early", lambda e: e["k"] == 1 and e["end_us"] > 20000, lambda e: e.update(end_us=e["end_us"] - 5000), {"early_return"})),
    ("C12 trace: end 400 ms after the limit -> oversleep",
     _st_trace("over", lambda e: e["k"] == 1, lambda e: e.update(end_us=e["end_us"] + 400000), {"oversleep"})),
    ("C12 trace: the limiting timer's callback removed from the record -> limit_timer_not_fired",
     _st_trace("nofire", lambda e: e["k"] == 1 and e["fired"], lambda e: e.update(fired=[]), {"limit_timer_not_fired"})),
    ("C12 trace: a timer callback 1 ms before its deadline -> timer_fired_early",
     _st_trace("fearly", lambda e: e["k"] == 1 and e["fired"], lambda e: e["fired"][0].update(at_us=e["fired"][0]["dl_us"] - 1000), {"timer_fired_early"})),
    ("C12 trace: wake-up configuration returning before the helper's wakeup -> returned_before_wakeup",
     _st_trace("prewake", lambda e: e["k"] == 1 and any(a["a"] == "ping" for a in e["acts"]), lambda e: e.update(end_us=30000), {"returned_before_wakeup"})),
    ("C12 trace: second dispatch returns after 100 us -> second_dispatch_spins",
     _st_trace("spin", lambda e: e["k"] == 2 and not e["fired"], lambda e: e.update(end_us=e["start_us"] + 100), {"second_dispatch_spins"})),
    ("C12 trace: callback of the disabled source in the record -> callbacks_mismatch",
     _st_trace("cb", lambda e: e["k"] == 1, lambda e: e.update(cbs=e["cbs"] + ["gen_disabled"]), {"callbacks_mismatch"})),
    ("C12 trace: the Closed event missing from a dispatch that must deliver it -> callbacks_mismatch",
     _st_trace("nocb", lambda e: e["k"] == 1 and "closed" in e["cbs"], lambda e: e.update(cbs=[c for c in e["cbs"] if c != "closed"]), {"callbacks_mismatch"})),
    ("C12 trace: one more occupied slot after the dispatch -> one_off_source_not_removed",
     _st_trace("occ", lambda e: e["k"] == 1 and e["occ_a"] < e["occ_b"], lambda e: e.update(occ_a=e["occ_a"] + 1), {"one_off_source_not_removed"})),
    ("C12 trace: timeout handed to Poll::poll not zero although a synthetic event is pending -> Mismatch_wait_arg",
     _st_trace("waitarg", lambda e: e["k"] == 1 and "synth" in e["cbs"], _upd(wait_us=300000), {"Mismatch_wait_arg"})),
    ("C12 trace: zero timeout that took 200 ms -> zero_timeout_blocked",
     _st_trace("zero", lambda e: e["k"] == 1 and e["wait_us"] == 0 and not e["cbs"], lambda e: e.update(end_us=e["start_us"] + 200000), {"zero_timeout_blocked"})),
    ("C12 engine: an overshoot seen in the first measurement only is cleared by re-measurement", _st_retry(False)),
    ("C12 engine: an overshoot in every measurement is reported", _st_retry(True)),
] + [("C12 model: variant cfg timeout_var_%s (%s) -> TLC reports Inv_C12_* violated" % (n, v), _st_variant(n)) for n, v in VARIANT_CFGS.items()]


if __name__ == "__main__":
    import sys
    w = "%s/work/timeout_main_%d" % (check.ROOT, os.getpid())
    shutil.rmtree(w, ignore_errors=True)
    os.makedirs(w)
    try:
        if len(sys.argv) >= 3 and sys.argv[1] == "--replay":
            check.build_harness()
            rr = replay(PROP, json.load(open(sys.argv[2])), w)
            for v in rr.viol:
                print("VIOLATION property=%s replay=%s  (scenario %s: %s)" % (PROP, v["replay"], v["scn"], ",".join(v["clauses"])))
            sys.exit(1 if rr.viol else 0)
        elif len(sys.argv) >= 2 and sys.argv[1] == "selftest":
            nbad = 0
            for d, fn in SELFTEST:
                try:
                    fn(w)
                    print("ok   ", d)
                except AssertionError as e:
                    nbad += 1
                    print("FAIL ", d, "--", e)
            sys.exit(1 if nbad else 0)
        else:
            t = time.time()
            r = engine(PROP, sys.argv[1] if len(sys.argv) > 1 else "quick", int(os.environ.get("VERIF_SEED", "1")), w)
            print(json.dumps({"viol": r.viol, "states": r.states, "transitions": r.transitions, "traces": r.traces,
                              "evaluations": r.evaluations, "nontrivial": len(r.nontrivial), "notes": r.notes, "wall_s": round(time.time() - t, 1)}, indent=1))
    finally:
        shutil.rmtree(w, ignore_errors=True)
