#!/usr/bin/env python3
"""Engine `token` -- decides property C20 (poller keys encode (slot, generation, sub-source) injectively and reversibly).

1. TLC checks spec/Token.tla exhaustively for reduced bit widths (spec/mc/token_q*.cfg, token_limb.cfg; thorough:
   token_t*.cfg): every triple is an initial state, the TokenFactory machine is asked for more tokens than fit.
2. harness/src/bin/drive_token.rs evaluates the REAL pack / unpack / next_version / TokenFactory (boundary cross
   product, seeded dense sample, full 2^16 sweeps of version and sub-id, factories asked for n tokens) and logs records
   with keys as four 16-bit limbs.
3. TLC validates every logged record against the limb form of Token.tla at the real widths (spec/TokenTrace.tla).
   (Supplement: spec/TokenApalache.tla restates Token.tla at the real widths; Apalache decides it symbolically for all
   2^64 keys and for the factory by an inductive invariant.  TLC remains the checker of record.)
   Verdict entries with p == "C20" are violations; "C20-model" is drift of the implementation-shaped model (exact
   overflow boundary), reported as a note; "C20-secondary"/"C20-harness" without a TLC-confirmed violation are tool errors.

SELFTEST: list of (description, callable).  A callable takes an optional scratch directory, returns True when the
corruption / variant was flagged as expected and raises AssertionError otherwise.
"""
import collections
import json
import os
import random
import re
import shutil

import check

PROP = "C20"
U32 = 2 ** 32 - 1
VARIANT_CFGS = {
    "sub_wraps": "Inv_C20_factory_",
    "sub_unchecked": "Inv_C20_factory_",
    "lazy_overflow_silent": "Inv_C20_factory_",
    "version_not_masked": "Inv_C20_version",
    "wrong_shift": "Inv_C20_",
    "unpack_no_mask": "Inv_C20_",
}


# ------------------------------------------------------------------------------------------ scenarios
def scenarios(tier, seed):
    rnd = random.Random(seed)
    quick = tier == "quick"
    out = []
    if quick:
        idk, fk = [1, 2, 7, 8, 15, 16, 17, 24, 30, 31], [1, 2, 7, 8, 9, 14, 15]
    else:
        idk, fk = list(range(1, 32)), list(range(1, 16))
    out.append({"id": "tk_boundary", "kind": "boundary", "idk": idk, "fk": fk})
    out.append({"id": "tk_sample_%d" % seed, "kind": "sample", "seed": seed, "n": 10 ** 5 if quick else 10 ** 7, "log": 20000})
    # full sweeps (every one of the 2^16 values of one field is logged in chunks and validated by TLC)
    sweep_ids = [0, U32] if quick else [0, 1, 0xFFFF, 0x10000, 0x80000000, U32 - 1, U32]
    sweep_ids += [rnd.randrange(2, U32 - 1) for _ in range(1 if quick else 2)]
    for i in sweep_ids:
        fixed = [0, 0xFFFF, rnd.randrange(1, 0xFFFF)] + ([] if quick else [1, 0x8000])
        for axis in ("v", "s"):
            out.append({"id": "tk_sweep_%s_%d" % (axis, i), "kind": "sweep", "idv": i, "axis": axis, "fixed": fixed,
                        "full": 1, "log": 0, "seed": seed})
    # sweeps evaluated in bulk (digest + subsample only): more ids
    for j in range(2 if quick else 40):
        i = rnd.randrange(0, U32 + 1)
        out.append({"id": "tk_bulksweep_%d_%d" % (j, i), "kind": "sweep", "idv": i, "axis": "vs"[j % 2],
                    "fixed": [rnd.randrange(0, 0x10000) for _ in range(4)], "full": 0, "log": 200, "seed": seed + j})
    out.append({"id": "tk_nextver", "kind": "nextver", "ids": [0, U32] + ([] if quick else [1, 0x10000, rnd.randrange(0, U32)])})
    # factories
    edge = [1, 2, 3, 255, 256, 257, 32767, 32768, 65534, 65535, 65536, 65537, 65538, 65600, 70000]
    out.append({"id": "tk_factory_edge", "kind": "factory", "idv": 0, "v": 0, "ns": edge, "full": [1, 2, 257, 65537]})
    out.append({"id": "tk_factory_maxid", "kind": "factory", "idv": U32, "v": 0xFFFF, "ns": [65535, 65536, 65537, 131072],
                "full": [65536]})
    if quick:
        out.append({"id": "tk_factory_rand", "kind": "factory", "idv": rnd.randrange(0, U32), "v": rnd.randrange(0, 0x10000),
                    "ns": sorted(rnd.randrange(1, 65537) for _ in range(60)), "full": []})
    else:
        # every n in 1..65540, one fresh factory each (about 2^31 calls of TokenFactory::token)
        out.append({"id": "tk_factory_all", "kind": "factory", "idv": rnd.randrange(0, U32), "v": rnd.randrange(0, 0x10000),
                    "ns": [], "range": [1, 65540], "full": []})
    return out


def groups(scns, budget=1400000):
    """split the scenario list so that one trace file stays below ~60 MB (TLC loads a trace into memory)"""
    out, cur, w = [], [], 0
    for s in scns:
        cost = 65536 * len(s["fixed"]) if s["kind"] == "sweep" and s["full"] else \
            65536 * len(s["ids"]) // 8 if s["kind"] == "nextver" else \
            20000 if s["kind"] == "sample" else 8000 + len(s.get("ns", [])) + (65540 if s.get("range") else 0)
        if cur and w + cost > budget:
            out.append(cur)
            cur, w = [], 0
        cur.append(s)
        w += cost
    if cur:
        out.append(cur)
    return out


# --------------------------------------------------------------------------------------------- running
def run_driver(scns, work, tag):
    scn_path = os.path.join(work, tag + "_scn.ndjson")
    tr_path = os.path.join(work, tag + "_trace.ndjson")
    with open(scn_path, "w") as f:
        for s in scns:
            f.write(json.dumps(s) + "\n")
    p = check.sh([check.BIN + "/drive_token", scn_path, tr_path], timeout=1800, check=False)
    if p.returncode != 0:
        raise check.ToolError("drive_token failed (%d):\n%s" % (p.returncode, p.stdout[-3000:]))
    return scn_path, tr_path


def write_replay(scn_obj, trace_path, span, viols):
    os.makedirs(check.ROOT + "/replays", exist_ok=True)
    path = "%s/replays/%s_%s.json" % (check.ROOT, PROP, re.sub(r"[^A-Za-z0-9_]", "_", str(scn_obj.get("id", "x"))))
    want = sorted({v["l"] for v in viols})[:40]
    lines = {}
    with open(trace_path) as f:
        for i, line in enumerate(f, 1):
            if i == span[0] or i in want:
                lines[i] = line.rstrip("\n")[:4000]
            if i > span[1]:
                break
    json.dump({"property": PROP, "engine": "token", "scenario": scn_obj, "violations": viols[:200],
               "trace": [lines[i] for i in sorted(lines)], "trace_lines": sorted(lines), "trace_first_line": span[0],
               "replay_cmd": "python3 /verif/tools/engine_token.py --replay <this file>"},
              open(path, "w"), indent=0)
    return path


def validate(scns, work, tag, res):
    """drive the real code, validate the trace with TLC; fills res; returns (verdict, trace path)"""
    scn_path, tr_path = run_driver(scns, work, tag)
    verdict, g, d = check.tlc_trace("TokenTrace", tr_path, work, timeout=1500)
    res.cmds.append("drive_token %s %s && TRACE=%s tlc -config TokenTrace.cfg TokenTrace.tla" % (
        os.path.basename(scn_path), os.path.basename(tr_path), os.path.basename(tr_path)))
    res.states += d
    res.transitions += g
    res.traces += verdict["scenarios"]
    res.evaluations += verdict.get("evals", 0)
    byid = {s["id"]: s for s in scns}
    spans = check.split_trace(tr_path)
    per = collections.OrderedDict()
    for v in sorted(verdict["viol"], key=lambda v: v["l"]):
        per.setdefault(v["scn"], []).append(v)
    confirmed = False
    for scn, vs in per.items():
        mine = [v for v in vs if v["p"] == PROP]
        if mine:
            confirmed = True
            rp = write_replay(byid.get(scn, {"id": scn}), tr_path, spans.get(scn, [1, 1]), vs)
            res.viol.append({"prop": PROP, "scn": scn, "clauses": sorted({v["c"] for v in mine}), "replay": rp,
                             "first_line": mine[0]["l"] - spans.get(scn, [1, 1])[0]})
        drift = [v for v in vs if v["p"] == "C20-model"]
        if drift:
            msg = ("DRIFT %s: %d factory record(s) contradict the model's exact overflow boundary FactoryCapacity = 65535 "
                   "(first at trace line %d); not a violation of C20 by itself" % (scn, len(drift), drift[0]["l"]))
            res.notes.append(msg)
            print(msg)
    harness = [v for v in verdict["viol"] if v["p"] == "C20-harness"]
    if harness:
        raise check.ToolError("drive_token produced malformed records: %s" % harness[:5])
    sec = [v for v in verdict["viol"] if v["p"] == "C20-secondary"]
    if sec and not confirmed:
        raise check.ToolError("the driver's secondary check reports mismatches (%s) that TLC does not confirm on the "
                              "records logged in full: driver transcription and Token.tla disagree" % sec[:3])
    return verdict, tr_path


def digest(tr_path):
    """counts from the trace: bulk evaluations (secondary evidence), factory runs, panics"""
    bulk_n = bulk_logged = bulk_mis = facs = fac_panicked = 0
    with open(tr_path) as f:
        for line in f:
            if line.startswith('{"e":"bulk"') or '"e":"bulk"' in line[:40]:
                ev = json.loads(line)
                bulk_n += ev["n"]
                bulk_logged += ev["logged"]
                bulk_mis += ev["mismatch"]
            elif '"e":"fac"' in line[:60]:
                ev = json.loads(line)
                facs += 1
                fac_panicked += 1 if ev["panics"] > 0 else 0
    return bulk_n, bulk_logged, bulk_mis, facs, fac_panicked


def engine(prop, tier, seed, work):
    res = check.Result()
    quick = tier == "quick"
    # 1. bounded exhaustive model checking of Token.tla
    cfgs = ["token_q", "token_q2", "token_limb"] + ([] if quick else ["token_t", "token_t_limb"])
    for name in cfgs:
        cfg = "mc/%s.cfg" % name
        r = check.tlc_model("MCToken", cfg, work, workers=8 if quick else 16, timeout=60 if name.startswith("token_q") or name == "token_limb" else 900)
        res.states += r["distinct"]
        res.transitions += r["generated"]
        res.cmds.append("tlc -config %s MCToken.tla" % cfg)
        res.notes.append("Token.tla %s: %d distinct states, exhaustive, %s" % (name, r["distinct"], "ok" if r["ok"] else "VIOLATED " + ",".join(r["violated"])))
        if not r["ok"]:
            cex = "%s/replays/%s_model_%s.txt" % (check.ROOT, prop, name)
            os.makedirs(check.ROOT + "/replays", exist_ok=True)
            open(cex, "w").write(r["out"][-200000:])
            res.viol.append({"prop": prop, "scn": "model:" + cfg, "clauses": ["model:" + ",".join(r["violated"])], "replay": cex, "first_line": 0})
    apalache_supplement(prop, work, res)
    # 2. + 3. the real code, validated by TLC
    scns = scenarios(tier, seed)
    verdict = {"n": 0, "evals": 0}
    bulk_n = bulk_logged = bulk_mis = facs = fac_panicked = 0
    for gi, grp in enumerate(groups(scns)):
        v, tr_path = validate(grp, work, "token%d" % gi, res)
        verdict["n"] += v["n"]
        verdict["evals"] += v.get("evals", 0)
        bulk_n, bulk_logged, bulk_mis, facs, fac_panicked = [a + b for a, b in zip(
            (bulk_n, bulk_logged, bulk_mis, facs, fac_panicked), digest(tr_path))]
        if not res.viol:
            os.remove(tr_path)          # traces are large (tens of MB); keep them only when a replay refers to them
    res.nontrivial |= {s["id"] for s in scns if s["kind"] != "sample"}
    res.samples += [{"engine": "token", "scenario": s} for s in scns[:1] + scns[-2:-1]]
    res.notes.append("TokenTrace: %d records, %d evaluations of the real pack/unpack/next_version/TokenFactory validated by TLC "
                     "against the limb form of Token.tla (IB=32,VB=16,SB=16)" % (verdict["n"], verdict.get("evals", 0)))
    res.notes.append("bulk (SECONDARY evidence, driver-side transcription of PackLimbs): %d evaluations, of which %d also logged "
                     "and validated by TLC; %d mismatches" % (bulk_n, bulk_logged, bulk_mis))
    res.notes.append("factories: %d fresh TokenFactory runs (%d reached the overflow panic); exact boundary checked by TLC: "
                     "65535 tokens (sub ids 0..65534) are handed out, request 65536 and every later one panics" % (facs, fac_panicked))
    return res


# ------------------------------------------------------------------------------ Apalache supplement
def apalache(args, work, timeout=180):
    """run apalache-mc on spec/TokenApalache.tla; returns 'ok' | 'violated' | 'unavailable' | 'inconclusive'"""
    if not shutil.which("apalache-mc"):
        return "unavailable", ""
    out_dir = os.path.join(work, "apalache_out")
    try:
        p = check.sh(["apalache-mc", "check", "--out-dir=" + out_dir] + args + ["TokenApalache.tla"], cwd=check.SPEC,
                     timeout=timeout, check=False)
    except check.ToolError as e:
        return "inconclusive", str(e)[-1500:]
    finally:
        shutil.rmtree(out_dir, ignore_errors=True)
    if "The outcome is: NoError" in p.stdout and "EXITCODE: OK" in p.stdout:
        return "ok", p.stdout
    if "The outcome is: Error" in p.stdout and "invariant" in p.stdout and "violated" in p.stdout:
        return "violated", p.stdout
    return "inconclusive", p.stdout[-1500:]


APALACHE_RUNS = [
    ("A: codec clauses for all 2^64 triples/keys at IB=32,VB=16,SB=16 + factory invariant initially", ["--length=0", "--init=Init", "--inv=InitInv"]),
    ("B: factory invariant inductive under Request, implies distinct/loud/boundary clauses", ["--length=1", "--init=IndInit", "--inv=StepInv"]),
]


def apalache_supplement(prop, work, res):
    """SUPPLEMENT (not the checker of record): the statements of Token.tla at the real widths, by SMT"""
    for desc, args in APALACHE_RUNS:
        st, out = apalache(args, work)
        res.cmds.append("apalache-mc check %s TokenApalache.tla" % " ".join(args))
        if st == "ok":
            res.notes.append("Apalache supplement %s: holds (symbolic, unbounded integers)" % desc)
        elif st == "violated":
            cex = "%s/replays/%s_apalache.txt" % (check.ROOT, prop)
            os.makedirs(check.ROOT + "/replays", exist_ok=True)
            open(cex, "w").write(out[-100000:])
            res.viol.append({"prop": prop, "scn": "model:apalache", "clauses": ["model:apalache:" + args[-1]], "replay": cex, "first_line": 0})
        else:
            res.notes.append("Apalache supplement %s: %s (TLC results above are unaffected)" % (desc, st))


# --------------------------------------------------------------------------------------------- replay
def replay(path, work):
    """re-run the scenario of a replay file on the current tree and validate it again"""
    rp = json.load(open(path))
    res = check.Result()
    validate([rp["scenario"]], work, "replay", res)
    return res


# ------------------------------------------------------------------------------------------- selftest
_ST_CACHE = {}

_ST_SCNS = [
    {"id": "st_boundary", "kind": "boundary", "idk": [16], "fk": [8]},
    {"id": "st_nv", "kind": "nextver", "ids": [3]},
    {"id": "st_fac", "kind": "factory", "idv": 9, "v": 7, "ns": [2, 65536, 65537], "full": [2]},
]


def _mutations():
    """name -> (scenario to copy, predicate selecting the line to corrupt, mutation, expected (p, clause))"""
    def limb(ev):
        ev["k"][3] = (ev["k"][3] + 1) % 65536

    def unp(ev):
        ev["u"][2] = (ev["u"][2] ^ 0x100)

    def notify(ev):
        ev["k"] = [65535] * 4

    def nvbad(ev):
        ev["r"] = ev["v"] + 1

    def nvchunk(ev):
        ev["rs"][-1] = 65536

    def fac_wrap(ev):
        ev.update({"got": 65537, "panics": 0, "own": 65537, "step1": 65535, "dup": 1, "sl": 0})

    def fac_silent(ev):
        ev.update({"got": 65536, "panics": 1, "own": 65535, "sl": 65535, "step1": 65535})

    def fac_drift(ev):
        # a factory handing out all 65536 sub ids and panicking on request 65537: allowed by C20, not what the code does
        ev.update({"got": 65536, "panics": 0, "own": 65536, "sl": 65535, "step1": 65535})

    def fkey(ev):
        ev["ks"][1][2] ^= 1

    return collections.OrderedDict([
        ("limb", ("st_boundary", lambda e: e["e"] == "pack" and e["v"] == 255, limb, ("C20", "pack_limbs"))),
        ("unpack", ("st_boundary", lambda e: e["e"] == "pack" and e["s"] == 256, unp, ("C20", "unpack_roundtrip"))),
        ("notify", ("st_boundary", lambda e: e["e"] == "pack" and e["ih"] == 0 and e["v"] == 65535 and e["s"] == 65535, notify, ("C20", "notify_collision"))),
        ("nv", ("st_boundary", lambda e: e["e"] == "nv" and e["v"] == 65535, nvbad, ("C20", "version_successor"))),
        ("nvchunk", ("st_nv", lambda e: e["e"] == "nvchunk" and e["v0"] == 65280, nvchunk, ("C20", "version_successor"))),
        ("fac_wrap", ("st_fac", lambda e: e["e"] == "fac" and e["n"] == 65537, fac_wrap, ("C20", "factory_silent_overflow"))),
        ("fac_foreign", ("st_fac", lambda e: e["e"] == "fac" and e["n"] == 65537, fac_silent, ("C20", "factory_foreign_token"))),
        ("fac_drift", ("st_fac", lambda e: e["e"] == "fac" and e["n"] == 65536, fac_drift, ("C20-model", "factory_boundary_drift"))),
        ("fkey", ("st_fac", lambda e: e["e"] == "fchunk", fkey, ("C20", "factory_token_key"))),
    ])


def _selftest_verdict(work=None):
    if "v" in _ST_CACHE:
        return _ST_CACHE["v"]
    own = work is None
    if own:
        work = "%s/work/selftest_token_%d" % (check.ROOT, os.getpid())
        shutil.rmtree(work, ignore_errors=True)
    os.makedirs(work, exist_ok=True)
    try:
        _, tr = run_driver(_ST_SCNS, work, "st")
        segs = collections.OrderedDict()
        cur = None
        for line in open(tr):
            ev = json.loads(line)
            if ev["e"] == "reset":
                cur = ev["id"]
                segs[cur] = []
            segs[cur].append(ev)
        out = [ev for seg in segs.values() for ev in seg]          # the unmodified baseline
        for name, (scn, pred, mut, _) in _mutations().items():
            seg = json.loads(json.dumps(segs[scn]))
            seg[0]["id"] = "mut_" + name
            hit = [e for e in seg if pred(e)]
            assert hit, "selftest %s: no line to corrupt" % name
            mut(hit[0])
            out += seg
        path = os.path.join(work, "st_mut.ndjson")
        with open(path, "w") as f:
            for ev in out:
                f.write(json.dumps(ev, separators=(",", ":")) + "\n")
        verdict, _, _ = check.tlc_trace("TokenTrace", path, work)
        _ST_CACHE["v"] = verdict
        return verdict
    finally:
        if own:
            shutil.rmtree(work, ignore_errors=True)


def _st_trace(name):
    def run(work=None):
        verdict = _selftest_verdict(work)
        p, c = _mutations()[name][3]
        base = [v for v in verdict["viol"] if not v["scn"].startswith("mut_")]
        assert not base, "unmodified records are flagged: %s" % base[:3]
        got = {(v["p"], v["c"]) for v in verdict["viol"] if v["scn"] == "mut_" + name}
        assert (p, c) in got, "corruption %s not flagged as %s/%s (got %s)" % (name, p, c, sorted(got))
        if p != "C20":
            assert not any(q == "C20" for q, _ in got), "model drift %s reported as a property violation: %s" % (name, sorted(got))
        return True
    return run


def _st_variant(name):
    def run(work=None):
        own = work is None
        if own:
            work = "%s/work/selftest_tokenvar_%s_%d" % (check.ROOT, name, os.getpid())
        os.makedirs(work, exist_ok=True)
        try:
            r = check.tlc_model("MCToken", "mc/token_var_%s.cfg" % name, work, workers=4, timeout=120)
            want = VARIANT_CFGS[name]
            assert not r["ok"] and any(v.startswith(want) for v in r["violated"]), \
                "variant %s: TLC did not report %s* violated (%s)" % (name, want, r["violated"])
            return True
        finally:
            if own:
                shutil.rmtree(work, ignore_errors=True)
    return run


def _st_apalache(args):
    def run(work=None):
        own = work is None
        if own:
            work = "%s/work/selftest_tokenapa_%d" % (check.ROOT, os.getpid())
        os.makedirs(work, exist_ok=True)
        try:
            st, out = apalache(args, work)
            assert st in ("violated", "unavailable"), "Apalache did not report the wrong statement violated: %s %s" % (st, out[-300:])
            return True
        finally:
            if own:
                shutil.rmtree(work, ignore_errors=True)
    return run


_DESC = {
    "limb": "one limb of a recorded key changed -> pack_limbs",
    "unpack": "recorded unpack result changed in the version limb -> unpack_roundtrip",
    "notify": "recorded key replaced by the notify key for slot id 0 -> notify_collision",
    "nv": "recorded next_version(65535) = 65536 (not masked) -> version_successor",
    "nvchunk": "one entry of a next_version chunk changed -> version_successor",
    "fac_wrap": "factory record: 65537 tokens handed out, no panic, a repeated sub id -> factory_silent_overflow/factory_wrapped",
    "fac_foreign": "factory record: a token that does not carry the factory's (id, version) -> factory_foreign_token",
    "fac_drift": "factory record: 65536 tokens then panic (allowed by C20, not the code's boundary) -> only C20-model drift",
    "fkey": "one key inside a fully logged factory run changed in the version limb -> factory_token_key",
}
SELFTEST = [("token trace: " + _DESC[n], _st_trace(n)) for n in _mutations()] + \
           [("token model: variant %s -> TLC reports %s* violated" % (n, w), _st_variant(n)) for n, w in VARIANT_CFGS.items()] + \
           [("token supplement: 'no key equals the notify key' without excluding slot id 2^32-1 -> Apalache finds (2^32-1, 0xFFFF, 0xFFFF)",
             _st_apalache(["--length=0", "--init=Init", "--inv=BadNotNotify"])),
            ("token supplement: wrapping sub-id successor -> Apalache reports the factory invariant violated",
             _st_apalache(["--length=1", "--init=IndInit", "--inv=StepInv", "--next=NextWrap"]))]


if __name__ == "__main__":
    import sys
    if len(sys.argv) >= 3 and sys.argv[1] == "--replay":
        w = "%s/work/token_replay_%d" % (check.ROOT, os.getpid())
        os.makedirs(w, exist_ok=True)
        try:
            check.build_harness()
            r = replay(sys.argv[2], w)
            for v in r.viol:
                print("VIOLATION property=%s replay=%s  (scenario %s: %s)" % (PROP, v["replay"], v["scn"], ",".join(v["clauses"])))
            sys.exit(1 if r.viol else 0)
        finally:
            shutil.rmtree(w, ignore_errors=True)
    elif len(sys.argv) >= 2 and sys.argv[1] == "selftest":
        bad = 0
        for d, fn in SELFTEST:
            try:
                fn()
                print("ok   ", d)
            except AssertionError as e:
                bad += 1
                print("FAIL ", d, "--", e)
        sys.exit(1 if bad else 0)
    else:
        print(__doc__)
